#!/usr/bin/env python3
"""Regenerates MANIFEST.json from the table below (single source of truth)."""
import json, os
V = os.path.dirname(os.path.dirname(os.path.abspath(__file__)))
ALL = ['C%02d' % i for i in range(1, 21)]
CHECKS = {
 'C01': dict(
   text=("Line-by-line model of Path.d (closing-segment rule, M re-emission, per-kind emission, S/T by is_smooth_from, Z, relative lowering) "
         "with three repair flags, composed with C02's parser and tokenizer models (coq/Model/Dstr.v, DstrText.v). Theorems for paths of ANY "
         "length and all parser variants: absolute form without S/T round-trips for ANY carrier with NO arithmetic laws (only a decidable == "
         "that is an equivalence) — hence verbatim for binary64 (instance proved from FloatAxioms); with S/T under the reflection law, which "
         "holds for exact carriers and is REFUTED for binary64 for the pinned test (PrimFloat witness) and holds law-free for the repaired test; "
         "use_closed_attrib: refuted for a closing curve / single closed curve / S-T after a re-emitted M (witnesses), full theorem for the "
         "repaired serialiser; all 8 option sets over exact carriers; shape theorem (kinds, order, flags; nothing added but the documented "
         "closing line) for any carrier; string-level round trip through C02's rendering theorem. Tie: d-string compared character for "
         "character, tokens and parse compared inside Coq in PrimFloat (repr/float as checked oracle), 9 translator agreement lemmas; the "
         "statement is evaluated on the implementation for all 8 option sets."),
   note=("Trusted: kernel+vm_compute, PrimFloat = CPython floats (FloatAxioms.eqb_spec/sub_spec for the binary64 instances), py2v.py, harness; "
         "CPython repr/float are oracles with a per-number checked contract. Numeric drift of the relative forms in binary64 is checked by "
         "the harness only."),
   technique='Coq refinement/round-trip theorems (induction over segment lists, law-free carriers) + PrimFloat witnesses + character-exact correspondence',
   ref='DESIGN.md §3 C01'),
 'C03': dict(
   text=("Every identity in the property (point = Bernstein sum, exact end points, poly()/points()/poly2bez "
         "round trips, derivative(t,n) = n-th formal derivative for all n>=1, n<=0 rejected) is a theorem of "
         "coq/Props/C03.v over an arbitrary field of characteristic 0, closed under the global context, so it "
         "holds for all control points and all t at once. The model is tied to the code by (a) the translator: "
         "path.py's point/poly/derivative/bpoints are re-translated on every run and proved equal to the model "
         "by ring (GenAgree/BezierSeg.v), (b) a correspondence check computing, inside Coq on exact rationals, "
         "|impl - model| <= rounding bound for 8 observations per random segment."),
   note=("Trusted: Coq kernel+vm_compute, py2v.py (float*complex modelled component-wise), harness. numpy poly1d "
         "evaluation is an oracle sampled by the correspondence check. The analytic (limit) reading of "
         "'derivative' is proved over R in Proofs/BezierAnalytic.v when present; the formal-derivative theorem is generic."),
   technique='Coq theorems (ring/field over generic field) + AST translator agreement lemmas + exact-rational correspondence',
   ref='DESIGN.md §3 C03'),
 'C04': dict(
   text=("Model of Arc.__init__/_parameterize line by line, point, derivative, centeriso/u1transform, as_cubic/quad_curves "
         "(coq/Model/Arc.v). Theorems over R for ALL start!=end, non-zero radii, any rotation, all flags: on-ellipse (unconditional), "
         "minimal radius scaling (sqrt(radius_check), necessity of the factor), sweep sign and large-arc characterisation of delta "
         "(unconditional), |delta|<=360, affine eccentric angle, point(0)=start/point(1)=end exactly when the isclose snap is inactive "
         "(and refuted when it is active), derivative(t,n) = n-th derivative for all n>=1 with n mod 4 != 0 (Coquelicot is_derive_n; "
         "refuted for n mod 4 = 0), cubic/quad approximations chained from start to end (any carrier). Tie: translator agreement lemmas "
         "for point/derivative(n=1..8)/isometries (GenAgree/Arc.v) + 120-bit bigfloat correspondence of centre/radius/theta/delta/point/"
         "derivative; the statement is evaluated on the implementation."),
   note=("Trusted: kernel, py2v.py, harness, BigF evaluation (unverified enclosure), libm trig as oracle. _parameterize itself and "
         "derivative with symbolic n are tied by correspondence only. autoscale_radius=False not modelled. Branch decisions within "
         "rounding of a threshold are counted as undecided and skipped."),
   technique='Coq theorems over R (field/nra/Coquelicot derivatives) + translator agreement lemmas + bigfloat correspondence',
   ref='DESIGN.md §3 C04'),
 'C05': dict(
   text=("Model coq/Model/PathIdx.v mirrors _calc_lengths/T2t/t2T/point (incl. CPython 3.12's compensated sum) and "
         "iscontinuous/continuous_subpaths. Over R, for any number of segments: T2t selects a positive-length segment with "
         "0<t<=1 and cum_k<T<=cum_(k+1), t2T/T2t are mutually inverse, point selects the same (k,t), interval membership; for any "
         "carrier: subpaths concatenate back, are continuous, maximal. Binary64: fall-off refuted by vm_compute witness; the repaired "
         "variant (flag fb) is proved total. Tie: the model is run bit-exactly in PrimFloat inside Coq on the implementation's own "
         "_lengths and must predict k exactly, t/T within 4 ulp, exceptions by class; the statement is also evaluated on the implementation."),
   note=("Trusted: Coq kernel+vm_compute, PrimFloat primitives = CPython float arithmetic, harness. Segment lengths are data (C06). "
         "No translator tie (loops): AST fingerprint of the 7 modelled functions raises the case budget when they change."),
   technique='Coq theorems over R / any carrier + PrimFloat bit-exact model replay (correspondence)',
   ref='DESIGN.md §3 C05'),
 'C08': dict(
   text=("As-coded models of Line.bbox, bezier_real_minmax (cubic closed form and the roots-oracle path), bezier_bounding_box, Arc.bbox, "
         "Path.bbox (coq/Model/Extrema.v). Theorems over R: the reusable extreme-at-candidates lemma (EVT + interior extremum), the cubic "
         "closed form's r1,r2 are exactly the roots of x'(t) (no root when delta<0), containment for cubics under the closed form "
         "(unconditional) and under the explicit oracle contract otherwise, tightness for cubics/quadratics (unconditional), arc critical "
         "angles for all three branches and k in -4..4, arc containment/tightness given start=point(0), end=point(1) (C04), path = union. "
         "Tie: translator agreement (Line.bbox, Line.radialrange) + 120-bit bigfloat correspondence with np.roots output handed over as data; "
         "statement evaluated on the implementation by dense sampling + refinement."),
   note=("Trusted: kernel, py2v.py, harness, BigF evaluation; np.roots oracle contract (complete, separated) is a premise sampled by the harness. "
         "Binary64 cancellation in the closed form is outside the R-level theorems: it is the known finding."),
   technique='Coq theorems over R (EVT/MVT, field/nra) + translator agreement + bigfloat correspondence',
   ref='DESIGN.md §3 C08'),
 'C02': dict(
   text=("Character-level model of _tokenize_path (backtracking regex engine with Python re.findall semantics for FLOAT_RE), faithful model "
         "impl_parse of _parse_path's token-stack machine (flags for the two repairable behaviours), and an independent reference "
         "interpreter spec_run written from SVG 1.1 8.3 (coq/Model/Parse.v, Lexer.v). Theorems: for EVERY grammatical command program of "
         "any length, impl_parse (flatten prog) = Ok (spec_run prog) — full for the repaired variant, and for the pinned code under two "
         "boolean side conditions (no S/T directly after Z, no arc ending on the current point) whose failures are _refuted by vm_compute "
         "witnesses; corollaries for every clause of the statement; FLOAT_RE with backtracking = a deterministic scanner; lex (render toks) = "
         "toks for every token list and every admissible separator policy (spellings), adjacent flags and '1.e1' refuted. Tie: 19k strings "
         "per quick run (exhaustive M + <=3 letters, random programs 5-40 commands, spellings, malformed) compared inside Coq against the "
         "tokenizer model, all impl_parse variants and spec_run."),
   note=("Trusted: kernel+vm_compute, harness (integer-stream encoding of cases). float() of non-dyadic numerals, warn() side effects and "
         "Arc radius rescaling (C04) are outside; no translator tie (state machine)."),
   technique='Coq refinement proof (induction over command programs) + regex-engine model + exhaustive/random differential correspondence in Coq',
   ref='DESIGN.md §3 C02'),
 'C06': dict(
   text=("Arc length specified as RInt of the speed (Coquelicot). Theorems over R: Line.length = arc length; non-negativity, additivity "
         "(Chasles); every chord sum <= arc length <= control-polygon sum for every de Casteljau subdivision depth (the rigorous bracket "
         "of the statement, for quadratics and cubics) and a Cauchy-Schwarz upper bound for arcs; segment_length's recursive chord rule "
         "returns a value between the chord and the arc length for every fuel/error/min_depth; the quadratic closed form equals the arc "
         "length whenever a x b != 0 (fundamental theorem, full), the three fallback formulas for collinear control points, the |a|<1e-12 "
         "branch within |a|(t1^2-t0^2); path length = sum. Tie: the implementation's length must lie inside the theorem-backed bracket "
         "evaluated inside Coq in 120-bit bigfloats, both scipy configurations, plus kernel `integral` certificates and model ties for the "
         "closed form and segment_length."),
   note=("Trusted: kernel, py2v.py (Line.length only), harness, BigF evaluation; QUADPACK and libm are oracles judged per case. Binary64 "
         "cancellation in the near-collinear closed form is the known finding, not covered by the R-level theorem."),
   technique='Coq/Coquelicot theorems (RInt, FTC, Cauchy-Schwarz) + bracket oracle evaluated in Coq + integral certificates',
   ref='DESIGN.md §3 C06'),
 'C07': dict(
   text=("Model of inv_arclength (range check, early returns, Line branch, Path segment search + t2T, bisection with its three exits) over "
         "an abstract len. Theorems over R: bisection invariant, result within s_tol and in [0,1], termination under a Lipschitz bound, "
         "ends, ValueError outside [0,L], monotonicity up to resolution, path result = t2T of the segment result. Binary64: structural "
         "theorem (any carrier, any len) that once the midpoint equals the re-assigned bound the loop is a fixed point and ends in MaxIts "
         "for every fuel — the stall exit can never fire — with PrimFloat witnesses; repaired exit test proved to return. Tie: every "
         "ilength call is replayed bit-exactly in PrimFloat inside Coq on the recorded length(0,t) values (same t, same exit)."),
   note=("Trusted: kernel, PrimFloat = CPython float arithmetic, harness. len is the implementation's own length (C06). A Flocq-level "
         "iteration bound for the repaired loop is not proved (C07_returns_partial under an explicit measure)."),
   technique='Coq theorems over R + structural float stall theorem + bit-exact PrimFloat loop replay',
   ref='DESIGN.md §3 C07'),
 'C09': dict(
   text=("ALL DEGREES: reversed, split and crop_bezier (three branches, oracle relocation parameter as input) trace p(1-t), p(ut), "
         "p(t+u(1-t)), p(t0+u(t1-t0)) (generic field, from the de Casteljau theorems); Line cropped/split; arcs over R: re-parameterisation "
         "uniqueness lemma for _parameterize and cropped/reversed/split under the single hypothesis that the isclose snap is inactive; paths "
         "(any carrier, any length, abstract segment contracts): reversed order/length, cropped ends/joined/length incl. wrap-around under "
         "explicit index hypotheses, with vm_compute refutations for duplicate segments and the isclose hand-over cases. Tie: agreement "
         "lemmas for the translatable parts + exact-rational (Bezier) / bigfloat (arc) correspondence, path_cropped structure compared exactly; "
         "statement evaluated on the implementation."),
   note=("Trusted: kernel, harness, BigF evaluation. radialrange relocation is an oracle (C13); T2t/isclosed are inputs (C05)."),
   technique='Coq theorems (list induction, ring/field, reals) + correspondence in exact rationals / bigfloats',
   ref='DESIGN.md §3 C09'),
 'C10': dict(
   text=("ALL DEGREES: any map preserving affine combinations commutes with the Bernstein curve (from the de Casteljau recurrence), hence "
         "translate/rotate (any (c,s))/transform (any 3x3 matrix) commute with point; scale_bezier's bez2poly -> _scale -> constant-term "
         "correction -> poly2bez route equals scaling every control point (degree 1-3, field); arcs over R on the formulas of _parameterize: "
         "translate, rotate about any origin, uniform scale (any sx != 0) are equivariant (full), non-uniform scale refused; the arc branch of "
         "transform as coded is REFUTED on the model (three bigfloat witnesses: sweep rule, arccos sign, own rotation ignored). Exact joints "
         "for ANY carrier with no algebraic laws: every enumerated joint stays joined, closed stays closed for end-point-local kernels, refuted "
         "for scale_bezier in binary64 (PrimFloat witness), positive theorem for a joints() that includes the closing pair. Tie: translator "
         "agreement (bez2poly) + exact-rational (Bezier) / bigfloat (arc) correspondence, bit-exact PrimFloat prediction of which closed paths "
         "lose closure; statement evaluated on the implementation incl. bitwise joints."),
   note=("Trusted: kernel, py2v.py, harness, BigF evaluation; np.linalg.eig/inv are oracles (recorded); cos/sin of the angle are data."),
   technique='Coq theorems (list induction, ring/field, reals) + PrimFloat witnesses + correspondence in exact rationals / bigfloats',
   ref='DESIGN.md §3 C10'),
 'C11': dict(
   text=("Model of the intersect dispatch table, Line-Line (Cramer as coded, isclose snap, closed range test), bezier_by_line "
         "(shift/rotate, y-polynomial, roots oracle, set, x-test), bezier_intersections as a fuelled worklist machine incl. CPython "
         "list-iterator semantics of remove-while-iterating, Path.intersect (index() of the first equal segment, joint de-dup) "
         "(coq/Model/Isect.v). Theorems: Line-Line soundness (range + P(t1)=Q(t2), field) and operand swap; Bezier-Line: an exact root "
         "passing the x-test is a common point (degree 1-3) and residual = |ypoly| (Lipschitz bound for approximate roots, _partial); "
         "worklist: every reported pair is the centre pair of two k-fold halvings with intersecting boxes of area < tol, parameters odd "
         "multiples of 2^-(k+1) in (0,1) (any fuel) — the statement's distance bound does NOT follow from an area bound (witness); swap "
         "through the dispatch table; Path entries coherent under NoDup, refuted for duplicate segments. Tie: 11 translator agreement "
         "lemmas + exact-rational ties of Line-Line, Bezier-Line (np.roots recorded), the worklist machine, Path T values; residuals of "
         "every reported pair computed inside Coq (exact / bigfloat for arcs)."),
   note=("Trusted: kernel, py2v.py, harness, BigF evaluation; np.roots oracle; arc solvers (point_to_t, phase2t, circle-circle) are not "
         "modelled, only their results are judged. Exceptions for non-circular arc pairs tolerated as the statement says."),
   technique='Coq theorems (field, induction over the worklist machine) + translator agreement + residual certificates computed in Coq',
   ref='DESIGN.md §3 C11'),
 'C12': dict(
   text=("Theorems: Line-Line completeness (unsnapped denominator => the common point is the single pair returned); every Bezier-Line "
         "crossing parameter is an exact root of the y-polynomial, reported once given the oracle contract; de-dup is the identity without "
         "close pairs, refuted as coded; pruning is safe except for degenerate (zero-width/touching) boxes — refuted witness; a level without "
         "reports loses no pair; the remove-while-iterating skip refuted by two parabolas; Path: nothing lost before the joint de-dup, nothing "
         "removed when points are >= tol apart; IVT lemma for sign-change brackets. Exact crossing counts of Line/Bezier pairs are computed "
         "in Coq (Sturm/Tarski count on BigQ) with per-case bracket certificates checked in exact arithmetic. Tie/property: constructed "
         "transversal crossings must be reported within 1e-4, once; exact counts vs len(result); path crossings strictly inside segments."),
   note=("Trusted: kernel, harness; Sturm's theorem itself is not proved (each count is certified by disjoint sign-change brackets); "
         "np.roots oracle; calls exceeding the wall-clock guard are counted as inconclusive, not judged."),
   technique='Coq theorems + exact root counting in Coq with certificates + constructed-crossing differential testing',
   ref='DESIGN.md §3 C12'),
 'C13': dict(
   text=("As-coded models of Line.radialrange, bezier_radialrange (candidates 0,1 + roots01 of d/dt|B-z|^2, first-extremal min/max), "
         "Path.radialrange with indices (coq/Model/Extrema.v). Theorems over R: Line: returned (d,t) are attained and GLOBAL on [0,1] (full); "
         "Bezier: attained (unconditional) and global under the explicit oracle-completeness + separation premises; path fold returns the "
         "extreme over all segments and an attaining index; the de-duplication as coded is refuted (exact Qc witness where the dropped root is "
         "the true minimiser). Tie: agreement lemma for Line.radialrange + bigfloat correspondence with recorded np.roots output; statement "
         "evaluated on the implementation (257 samples + refinement never beat the returned extremes)."),
   note=("Trusted: kernel, py2v.py, harness, BigF evaluation; np.roots is an oracle. Arc.radialrange is NotImplemented in the code."),
   technique='Coq theorems over R (extreme-at-candidates, nra) + translator agreement + bigfloat correspondence',
   ref='DESIGN.md §3 C13'),
 'C14': dict(
   text=("Green/shoelace/reversal/translation/affine-determinant/ccw-positivity theorems for the model of Path.area over a generic "
         "field (closed) and over R (RInt), arc contribution = chord polygon by definition, is_contained_by unfolding and the "
         "polygon parity theorem for path_encloses_pt under explicit general-position hypotheses (Props/C14.v). Tie: translator "
         "agreement lemmas for the per-degree area kernel (GenAgree/Area.v) + exact-rational correspondence of area() and of the "
         "Line-Line/enclosure decision structure; the statement is evaluated on the implementation with Fractions."),
   note=("Trusted: kernel, translator, harness. Path.intersect for curved segments and Arc.point/length are oracles (C11/C12, C04/C06). "
         "Parity theorem covers polygons; curved paths by sampled reference only."),
   technique='Coq theorems (ring/field, Coquelicot RInt, nra) + translator agreement + exact-rational correspondence',
   ref='DESIGN.md §3 C14'),
 'C15': dict(
   text=("Model of bezier_unit_tangent (regular branch and the rational_limit + principal-csqrt fallback), normal, segment_curvature, "
         "Line/Arc versions, Path.curvature scaling (coq/Model/Tangent.v). Theorems over R: |unit_tangent|=1 and = d/|d| at regular points "
         "with d the TRUE derivative (linked to C03's derivative theorems), normal = tangent rotated by -90 degrees, curvature formula, "
         "0 on lines, 1/r on circular arcs, covariance under translation/rotation/scaling/reversal (tangent and curvature/|lambda|); "
         "singular points: the one-sided Coquelicot limits of d/|d| are the first non-vanishing derivative's direction (sign (-1)^k from the "
         "left), the fallback returns the principal root of (f1/|f1|)^2 — correct in the right half plane (_partial), REFUTED for every "
         "left-half-plane heading (general theorem + exact Qc and bigfloat witnesses). Tie: 5 translator agreement lemmas + 120-bit bigfloat "
         "correspondence; statement evaluated on the implementation incl. finite-difference sign check at singular points."),
   note=("Trusted: kernel, py2v.py, harness, BigF evaluation. Zeros of order >= 3 and the curvature fallback are modelled but not proved. "
         "Arc derivatives from C04, T2t from C05."),
   technique='Coq theorems over R (Coquelicot filterlim/Derive, field, nra) + translator agreement + bigfloat correspondence',
   ref='DESIGN.md §3 C15'),
 'C17': dict(
   text=("Reference semantics (SVG 1.1 §7.6 transform items, §9 shapes, structural flattening) and faithful models of "
         "flattened_paths' explicit stack, parse_transform, the *2pathd converters, svg2paths, SaxDocument (coq/Model/SvgTree.v). "
         "Theorems for every tree (induction): stack traversal = recursion up to the proved order, composition outermost-first, per-item "
         "matrices = spec for all argument counts, shape converters = spec, with _refuted witnesses for each place where the faithful "
         "model of the current code departs from the spec (Props/C17.v). Tie: random trees rendered to SVG, run through Document/svg2paths/"
         "SaxDocument, compared inside Coq (exact rationals) with BOTH the implementation model (tie) and the reference (property)."),
   note=("Trusted: kernel, harness. XML parsing (ElementTree/minidom), str.split tokenisation of transform lists are oracles; trig of "
         "the angle enters as data. Image of an arc under a matrix is C10's subject."),
   technique='Coq refinement theorems (tree induction, ring) + exact-rational correspondence against model and reference',
   ref='DESIGN.md §3 C17'),
 'C18': dict(
   text=("Models of wsvg, the three readers and Document add_path/add_group/save/reload histories with (namespace, local) tags "
         "(coq/Model/SvgIO.v). Theorems: wsvg round trip returns the same d-strings in order with supplied attributes included (modulo "
         "the named hypothesis parse(d(p)) = p, which is C01), save/reload identity on the tree, and — for every history — the "
         "faithful model REFUTES visibility of added paths (general theorem, not only a witness); repaired variant proved. "
         "Tie: real files in a scratch dir; histories and wsvg cases compared inside Coq with the model; statement evaluated in Python."),
   note=("Trusted: kernel, harness. svgwrite, minidom, ElementTree serialisation are oracles. Mostly glue around C01."),
   technique='Coq theorems over operation histories (induction) + correspondence on real files',
   ref='DESIGN.md §3 C18'),
 'C20': dict(
   text=("Model of smoothed_joint (line-line, line-curve, curve-line as coded; curve-curve through ilength/cropped oracles) and of the "
         "smoothed_path loop with wrap-around (coq/Model/Smooth.v). Theorems over R: elbow end points/derivatives with positive factor "
         "(tangent match), hull bound |elbow - corner| <= 4a/3 <= maxjointsize, trimmed lines are sub-segments, and — by induction for "
         "paths of any length, for any joint procedure meeting JointOK — output continuous, every joint tangent-matched or untouched-"
         "smooth, end points kept / closedness kept, smooth joints preserved, within maxjointsize of the input; single segment unchanged. "
         "Tie: translator lemmas for the expression-level helpers + 120-bit bigfloat correspondence of joints and whole paths; statement "
         "evaluated on the implementation."),
   note=("Trusted: kernel, translator, harness, BigF evaluation accuracy. Curve-curve joints are _partial under the stated oracle "
         "contracts (ilength/cropped: C07/C09); singular unit tangents are an oracle (C15)."),
   technique='Coq theorems over R (Coquelicot/nra, list induction) + translator agreement + bigfloat correspondence',
   ref='DESIGN.md §3 C20'),
 'C19': dict(
   text=("ALL DEGREES (induction on the number of control points, Proofs/DeCasteljau.v): bezier_point = Bernstein sum, the de "
         "Casteljau recurrence, split_bezier's two halves are the sub-curves u->p(ut) and u->p(t+u(1-t)) meeting at p(t), reversal; per "
         "degree 0..8 (ring/field): bezier2polynomial is the change of basis; degree<=3 mutual inverses; halve = split at 1/2; "
         "n_choose_k = binomial for all k<=n; all closed under the global context. polyroots: the index-correct de-duplication keeps every "
         "isolated root exactly once and invents none (any relation isclose), the de-duplication AS CODED is refuted by a vm_compute witness. "
         "rational_limit over R: returns f1(t0)/g1(t0) for a common zero of any order k, which IS is_lim of f/g (Coquelicot), ValueError "
         "exactly for lower-order vanishing of f, never out of fuel. Tie: 76 translator agreement lemmas (bezier.py re-translated every run) + "
         "exact-rational correspondence; np.roots output recorded per case and handed to the Coq model of polyroots; prescribed root sets."),
   note=("Trusted: kernel+vm_compute, py2v.py, harness. numpy.roots (LAPACK) is an oracle; numpy poly1d arithmetic modelled by coefficient "
         "lists. The complex (realroots=False) branch of polyroots is not modelled."),
   technique='Coq theorems (list induction, ring/field, Coquelicot limits) + AST translator agreement lemmas + exact-rational correspondence',
   ref='DESIGN.md §3 C19'),
 'C16': dict(
   text=("State-machine model of Path as a MutableSequence (12 mutation ops with the collections.abc mix-ins as CPython defines them, 10 "
         "queries that fill caches) and of the segment-level length caches, with segment length uninterpreted (coq/Model/PathCache.v). "
         "Theorems for histories of ANY length (induction over the op list): invariant established by construction, preserved by every "
         "operation outside an explicit boolean safe_op predicate, and under the invariant every query equals that of a fresh Path; "
         "eq => hash for the four segment classes. Each excluded situation has a _refuted witness (vm_compute) that replays on the real code: "
         "they are the known findings. Tie: every history of <=3 events x 14 queries is run on the real Path and compared bitwise with a fresh "
         "Path (the property itself), and traces incl. private cache state are compared inside Coq with the model's prediction."),
   note=("Trusted: kernel+vm_compute, harness. Segment length is abstract (C06); d()/bbox rendering uninterpreted in Coq (compared bitwise in "
         "Python). Aliased segment objects are outside the model. Both _quad_available configurations."),
   technique='Coq invariant proofs over operation histories + exhaustive bounded history enumeration + model/trace correspondence in Coq',
   ref='DESIGN.md §3 C16'),
}
def main():
    checks = []
    for pid in ALL:
        if pid not in CHECKS: continue
        c = CHECKS[pid]
        checks.append({
          'property_id': pid,
          'quick_cmd': './check %s --tier quick' % pid,
          'thorough_cmd': './check %s --tier thorough' % pid,
          'evidence_file': 'evidence/%s.json' % pid,
          'replay_cmd_template': './check %s --replay {path}' % pid,
          'engine': 'coq',
          'level_claimed': {'category': 'proof', 'text': c['text'], 'design_ref': c['ref']},
          'level_note': c['note'],
          'technique': c['technique'],
        })
    man = {
      'version': 1,
      'setup_cmd': 'cd coq && coq_makefile -f _CoqProject -o Makefile && timeout 3000 make -j16',
      'hooks': {'guard': 'SVGPATHTOOLS_VERIF', 'enable': 'no source hooks: checks import /repo directly (PYTHONPATH=/repo)',
                'baseline_off_cmd': 'cd /repo && /venv/bin/python -m pytest -ra -q -p no:cacheprovider --timeout=900 --continue-on-collection-errors',
                'source_commits': [], 'add_only': True},
      'engines': [{'name': 'coq', 'path': 'coq/', 'serves_properties': [c['property_id'] for c in checks],
                   'kind_free_text': 'Coq 8.16.1 development (models, proofs, Props/Cxx.v) + tools/py2v.py translator + tools/harness correspondence'}],
      'checks': checks,
      'not_applicable': [{'property_id': p, 'reason': 'check not built yet in this round (plan: DESIGN.md §3); not claimed'}
                         for p in ALL if p not in CHECKS],
      'notes': 'single CLI ./check; see DESIGN.md',
    }
    json.dump(man, open(os.path.join(V, 'MANIFEST.json'), 'w'), indent=1)
main()
