#!/usr/bin/env python3
"""Regenerates MANIFEST.json from the table below (single source of truth)."""
import json, os
V = os.path.dirname(os.path.dirname(os.path.abspath(__file__)))
ALL = ['C%02d' % i for i in range(1, 21)]
CHECKS = {
 'C03': dict(
   text=("Every identity in the property (point = Bernstein sum, exact end points, poly()/points()/poly2bez "
         "round trips, derivative(t,n) = n-th formal derivative for all n>=1, n<=0 rejected) is a theorem of "
         "coq/Props/C03.v over an arbitrary field of characteristic 0, closed under the global context, so it "
         "holds for all control points and all t at once. The model is tied to the code by (a) the translator: "
         "path.py's point/poly/derivative/bpoints are re-translated on every run and proved equal to the model "
         "by ring (GenAgree/BezierSeg.v), (b) a correspondence check computing, inside Coq on exact rationals, "
         "|impl - model| <= rounding bound for 8 observations per random segment."),
   note=("Trusted: Coq kernel+vm_compute, py2v.py (float*complex modelled component-wise), harness. numpy poly1d "
         "evaluation is an oracle sampled by the correspondence check. The analytic (limit) reading of "
         "'derivative' is proved over R in Proofs/BezierAnalytic.v when present; the formal-derivative theorem is generic."),
   technique='Coq theorems (ring/field over generic field) + AST translator agreement lemmas + exact-rational correspondence',
   ref='DESIGN.md §3 C03'),
}
def main():
    checks = []
    for pid in ALL:
        if pid not in CHECKS: continue
        c = CHECKS[pid]
        checks.append({
          'property_id': pid,
          'quick_cmd': './check %s --tier quick' % pid,
          'thorough_cmd': './check %s --tier thorough' % pid,
          'evidence_file': 'evidence/%s.json' % pid,
          'replay_cmd_template': './check %s --replay {path}' % pid,
          'engine': 'coq',
          'level_claimed': {'category': 'proof', 'text': c['text'], 'design_ref': c['ref']},
          'level_note': c['note'],
          'technique': c['technique'],
        })
    man = {
      'version': 1,
      'setup_cmd': 'cd coq && coq_makefile -f _CoqProject -o Makefile && timeout 3000 make -j16',
      'hooks': {'guard': 'SVGPATHTOOLS_VERIF', 'enable': 'no source hooks: checks import /repo directly (PYTHONPATH=/repo)',
                'baseline_off_cmd': 'cd /repo && /venv/bin/python -m pytest -ra -q -p no:cacheprovider --timeout=900 --continue-on-collection-errors',
                'source_commits': [], 'add_only': True},
      'engines': [{'name': 'coq', 'path': 'coq/', 'serves_properties': [c['property_id'] for c in checks],
                   'kind_free_text': 'Coq 8.16.1 development (models, proofs, Props/Cxx.v) + tools/py2v.py translator + tools/harness correspondence'}],
      'checks': checks,
      'not_applicable': [{'property_id': p, 'reason': 'check not built yet in this round (plan: DESIGN.md §3); not claimed'}
                         for p in ALL if p not in CHECKS],
      'notes': 'single CLI ./check; see DESIGN.md',
    }
    json.dump(man, open(os.path.join(V, 'MANIFEST.json'), 'w'), indent=1)
main()
