#!/usr/bin/env python3
"""Writes coq/GenAgree/BezierN.v (committed): agreement lemmas between the
definitions generated from bezier.py (Gen/GenBezierN.v, Gen/GenBoxes.v) and
the hand models."""
import os
out = []
w = out.append
w('''(* GenAgree/BezierN.v — written by tools/gen_agree_bezierN.py (committed).  The
   definitions generated from /repo's current bezier.py agree with the models of
   Model/Bezier.v / Model/BezierN.v.  Compiled lemma by lemma on every run. *)
From Coq Require Import ZArith List Bool Field.
From SVP Require Import Base.Num Base.Cplx Base.Poly Base.FieldTac Base.Agree Base.FieldTac2 Model.Bezier Model.BezierN.
From SVP Require Import Gen.GenBezierN Gen.GenBoxes.
Import ListNotations.
Section A.
Context {K : Type} (N : Num K) (OK : NumFieldOK N).
Add Field KF : (Fth OK).
(* HEADER END *)
''')
def pts(n, p='p'): return ' '.join('%s%d' % (p, i) for i in range(n))
def lst(n, p='p'): return '[' + '; '.join('%s%d' % (p, i) for i in range(n)) + ']'
def lemma(name, stmt, proof):
    w('(* AGREE %s *)' % name)
    w('Lemma agree_%s %s.' % (name[4:], stmt))
    w('Proof. %s Qed.' % proof)
for n in range(1, 10):
    lemma('gen_bezier_point_%d' % n, '%s t : gen_bezier_point_%d N %s t = bezier_point N %s t' % (pts(n), n, pts(n), lst(n)), 'ring_lin N OK.')
    lemma('gen_bezier2polynomial_%d' % n, '%s : gen_bezier2polynomial_%d N %s = bezier2polynomial N %s' % (pts(n), n, pts(n), lst(n)), 'field_lin N OK.')
    lemma('gen_bezier2polynomial_asc_%d' % n, '%s : gen_bezier2polynomial_asc_%d N %s = rev (bezier2polynomial N %s)' % (pts(n), n, pts(n), lst(n)), 'field_lin N OK.')
    if n >= 2:
        lemma('gen_split_bezier_%d' % n, '%s t : gen_split_bezier_%d N %s t = split_bezier N %s t' % (pts(n), n, pts(n), lst(n)), 'ring_lin N OK.')
        lemma('gen_halve_bezier_%d' % n, '%s : gen_halve_bezier_%d N %s = halve_bezier N %s' % (pts(n), n, pts(n), lst(n)), 'field_lin N OK.')
    # real-valued control points: the real part of the complex model on (x,0)
    xs = ' '.join('(x%d : K)' % i for i in range(n))
    cl = '[' + '; '.join('(x%d, zero N)' % i for i in range(n)) + ']'
    lemma('gen_bezier_point_real_%d' % n, '%s t : gen_bezier_point_real_%d N %s t = fst (bezier_point N %s t)' % (xs, n, pts(n, 'x'), cl), 'ring_lin N OK.')
for n in (2, 3, 4):
    lemma('gen_polynomial2bezier_%d' % n, '%s : gen_polynomial2bezier_%d N %s = poly2bez N %s' % (pts(n, 'a'), n, pts(n, 'a'), lst(n, 'a')), 'field_lin N OK.')
lemma('gen_box_area', '(a b c d : K) : gen_box_area N a b c d = mul N (sub N b a) (sub N d c)', 'ring_lin N OK.')
w('(* FOOTER *)')
w('End A.')
open(os.path.join(os.path.dirname(__file__), '..', 'coq', 'GenAgree', 'BezierN.v'), 'w').write('\n'.join(out) + '\n')
