#!/usr/bin/env python3
"""dev tool: translate every group from VERIF_REPO (default /repo), compile, and run every
agreement lemma of coq/GenAgree/*.v.  Prints what is unsupported / fails.  (Each ./check run does
this for its own property; this is the whole-table view used when the translator changes.)"""
import sys, os, tempfile, shutil, json
sys.path.insert(0, os.path.join(os.path.dirname(os.path.abspath(__file__)), 'lib'))
sys.path.insert(0, os.path.dirname(os.path.abspath(__file__)))
import common, py2v_table

def main():
    common.ensure_build([])
    log = []
    groups = list(py2v_table.GROUPS.keys())
    st = common.regen(groups, log)
    unsup = {}
    for g, s in st.items():
        print('%-14s translated %3d  unsupported %d  compiled %s' % (g, len(s['ok']), len(s['unsupported']), s.get('compiled')))
        unsup.update(s['unsupported'])
        if not s.get('compiled') and s['ok']:
            print(s.get('compile_error', '')[-1500:])
            unsup.update({n: 'group does not compile' for n in s['ok']})
    for k, v in unsup.items():
        print('  UNSUPPORTED', k, v)
    tmp = tempfile.mkdtemp(prefix='agree_all_')
    bad = 0; tot = 0
    only = sys.argv[1:]
    try:
        for vf in sorted(os.listdir(os.path.join(common.COQ, 'GenAgree'))):
            if not vf.endswith('.v'): continue
            if only and vf[:-2] not in only: continue
            src = open(os.path.join(common.COQ, 'GenAgree', vf)).read()
            if '(* HEADER END *)' not in src: 
                print('skip', vf); continue
            res = common.run_agree(vf, tmp, skip=set(unsup))
            for n, (ok, msg) in res.items():
                tot += 1
                if not ok:
                    bad += 1
                    print('AGREE FAIL %s :: %s\n%s' % (vf, n, msg[-900:]))
            print('%-16s %d lemmas, %d failed' % (vf, len(res), sum(1 for o, _ in res.values() if not o)))
    finally:
        shutil.rmtree(tmp, ignore_errors=True)
    print('TOTAL %d lemmas, %d failed, %d unsupported definitions' % (tot, bad, len(unsup)))

main()
