#!/usr/bin/env python3
"""For every `fix:` commit of /repo: revert it alone in a scratch worktree of HEAD and run the
check(s) of the findings it repaired.  A `fixed` entry of known_findings.json suppresses nothing,
so the finding's key must come back as a VIOLATION (exit 1).

  tools/run_reverts.py [--jobs 5] [--only <commit-prefix>,...]

Writes /verif/reverts/RESULTS.json and a table to stdout.  Reverts that do not apply cleanly
(a later fix touched the same lines) are reported as 'conflict' and skipped.
"""
import sys, os, json, subprocess, shutil, argparse, time
from concurrent.futures import ThreadPoolExecutor

VERIF = os.path.dirname(os.path.dirname(os.path.abspath(__file__)))


def sh(cmd, cwd=None, env=None, timeout=3600):
    p = subprocess.run(cmd, cwd=cwd, env=env, stdout=subprocess.PIPE, stderr=subprocess.STDOUT, text=True, timeout=timeout)
    return p.returncode, p.stdout


def one(commit, subject, findings):
    tree = '/tmp/revrun_%s_%d' % (commit, os.getpid())
    res = {'commit': commit, 'subject': subject, 'findings': [f['id'] for f in findings], 'props': {}}
    rc, out = sh(['git', '-C', '/repo', 'worktree', 'add', '--detach', tree, 'HEAD'])
    if rc != 0:
        res['status'] = 'worktree-error'; return res
    try:
        rc, out = sh(['git', '-C', tree, 'revert', '--no-commit', commit])
        if rc != 0:
            res['status'] = 'conflict'
            return res
        res['status'] = 'reverted'
        for prop in sorted(set(f['property'] for f in findings)):
            keys = sorted(set(f['selector']['key'] for f in findings if f['property'] == prop))
            evd = tree + '_ev_' + prop
            os.makedirs(evd, exist_ok=True)
            env = dict(os.environ, VERIF_REPO=tree, VERIF_EVIDENCE_DIR=evd)
            t0 = time.time()
            rc, out = sh([os.path.join(VERIF, 'check'), prop, '--tier', 'quick'], cwd=VERIF, env=env)
            ev = {}
            try:
                ev = json.load(open(os.path.join(evd, prop + '.json')))
            except Exception:
                pass
            shutil.rmtree(evd, ignore_errors=True)
            vk = ev.get('violation_keys') or {}
            res['props'][prop] = {'exit': rc, 'expected_keys': keys, 'keys_back': [k for k in keys if k in vk],
                                  'all_violation_keys': vk, 'wall_s': round(time.time() - t0, 1),
                                  'detected': rc == 1 and 'VIOLATION' in out}
    finally:
        sh(['git', '-C', '/repo', 'worktree', 'remove', '--force', tree])
        shutil.rmtree(tree, ignore_errors=True)
    return res


def main():
    ap = argparse.ArgumentParser()
    ap.add_argument('--jobs', type=int, default=5)
    ap.add_argument('--only')
    a = ap.parse_args()
    kf = json.load(open(os.path.join(VERIF, 'known_findings.json')))['findings']
    rc, out = sh(['git', '-C', '/repo', 'log', '--format=%h %s'])
    commits = [(l.split()[0], l.split(' ', 1)[1]) for l in out.splitlines() if ' fix:' in l]
    todo = []
    for h, subj in commits:
        fs = [f for f in kf if f['status'] == 'fixed' and (h.startswith(f['commit']) or f['commit'].startswith(h))]
        if a.only and not any(h.startswith(o) for o in a.only.split(',')):
            continue
        todo.append((h, subj, fs))
    with ThreadPoolExecutor(max_workers=a.jobs) as ex:
        results = list(ex.map(lambda t: one(*t), todo))
    os.makedirs(os.path.join(VERIF, 'reverts'), exist_ok=True)
    json.dump(results, open(os.path.join(VERIF, 'reverts', 'RESULTS.json'), 'w'), indent=1)
    for r in results:
        det = {p: (v['detected'], v['keys_back']) for p, v in r['props'].items()}
        print('%s %-9s %s | %s' % (r['commit'], r['status'], det, r['subject'][:90]))
    n = [r for r in results if r['status'] == 'reverted']
    print('reverted %d, all detected: %d, conflicts: %d' % (
        len(n), sum(1 for r in n if r['props'] and all(v['detected'] for v in r['props'].values())),
        sum(1 for r in results if r['status'] == 'conflict')))


if __name__ == '__main__':
    main()
