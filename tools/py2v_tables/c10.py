"""C10 — translator entries for translate / rotate / scale / transform
(svgpathtools/path.py 199-352).

The four functions dispatch on isinstance (static when the argument is declared
as an ('obj', Class, ...)) and end in a constructor call, which py2v renders as
the list of control points (Bezier classes, return type LC) or as the tuple of
constructor arguments (Arc, return type T.ARC).  Every variant of the optional
arguments is a separate entry, so that each statically selected branch of the
source is re-checked on every run against Model/Xform.v (GenAgree/Xform.v):
  * translate on Line / Quadratic / Cubic / Arc;
  * rotate with an explicit origin and with origin=None (default: point(0.5),
    Arc: center), exp(1j*radians(degs)) = (cos_ T, sin_ T);
  * scale with sy given and with sy=None (Bezier: the whole bez2poly -> _scale ->
    correction -> poly2bez route; Arc: the sy == sx test and the refusal raise);
  * bez2poly on the three Bezier classes.
transform() is numpy matrix code (np.eye, np.array, tf.dot): outside the subset,
listed so that every run records it; Model/Xform.v + correspondence carry it."""

import py2v_table as T


def register(group):
    g = group('GenXform')
    NONE = ('static', None)
    for nm, ty in (('Line', T.LINE), ('Quad', T.QUAD), ('Cubic', T.CUBIC)):
        g.append(('gen_bez2poly_%s' % nm, 'bez2poly', [('bez', ty)], T.LC))
        g.append(('gen_translate_%s' % nm, 'translate', [('curve', ty), ('z0', 'C')], T.LC))
        g.append(('gen_rotate_%s' % nm, 'rotate', [('curve', ty), ('degs', 'R'), ('origin', 'C')], T.LC))
        g.append(('gen_rotate_%s_default' % nm, 'rotate', [('curve', ty), ('degs', 'R'), ('origin', NONE)], T.LC))
        g.append(('gen_scale_%s' % nm, 'scale', [('curve', ty), ('sx', 'R'), ('sy', 'R'), ('origin', 'C')], T.LC))
        g.append(('gen_scale_%s_uniform' % nm, 'scale', [('curve', ty), ('sx', 'R'), ('sy', NONE), ('origin', 'C')], T.LC))
    g.append(('gen_translate_Arc', 'translate', [('curve', T.ARC), ('z0', 'C')], T.ARC))
    g.append(('gen_rotate_Arc', 'rotate', [('curve', T.ARC), ('degs', 'R'), ('origin', 'C')], T.ARC))
    g.append(('gen_rotate_Arc_default', 'rotate', [('curve', T.ARC), ('degs', 'R'), ('origin', NONE)], T.ARC))
    g.append(('gen_scale_Arc', 'scale', [('curve', T.ARC), ('sx', 'R'), ('sy', NONE), ('origin', 'C')], T.ARC))
    g.append(('gen_scale_Arc_sy', 'scale', [('curve', T.ARC), ('sx', 'R'), ('sy', 'R'), ('origin', 'C')], T.ARC))
    g.append(('gen_transform_Line', 'transform', [('curve', T.LINE), ('tf', ('tuple', 'R', 9))], T.LC))
