"""C10 — translator entries for translate / rotate / scale / transform
(svgpathtools/path.py 199-352).

All four functions dispatch on isinstance (static when the argument is declared
as an ('obj', Class, ...)) and END in a constructor call
(bpoints2bezier([...]) -> Line(*bpoints) / QuadraticBezier / CubicBezier, or
Arc(...)), which is outside the translator's subset (no value for class
instances is ever built by py2v).  They are listed so that every run records
why the translator tie is unavailable; the hand model Model/Xform.v and the
correspondence check (tools/harness/c10.py) carry them.

What IS inside the subset and is tied by proof (GenAgree/Xform.v):
  * bez2poly(bez) for the three Bezier classes (first statement of
    scale_bezier),
  * polynomial2bezier / poly2bez(p, return_bpoints=True) (last statement of
    scale_bezier, before the constructor) — already in GenBezierN
    (gen_polynomial2bezier_2/3/4, agreement in GenAgree/BezierN.v),
so that the two conversion ends of scale_bezier are re-checked against the
source on every run; the middle (_scale on each coefficient, constant-term
correction) and the point maps of translate / rotate / transform are three
lines each and are covered by the exact-rational correspondence."""
import py2v_table as T


def register(group):
    g = group('GenXform')
    for nm, ty in (('Line', T.LINE), ('Quad', T.QUAD), ('Cubic', T.CUBIC)):
        g.append(('gen_bez2poly_%s' % nm, 'bez2poly', [('bez', ty)], T.LC))
        g.append(('gen_translate_%s' % nm, 'translate', [('curve', ty), ('z0', 'C')], T.LC))
        g.append(('gen_rotate_%s' % nm, 'rotate', [('curve', ty), ('degs', 'R'), ('origin', 'C')], T.LC))
        g.append(('gen_scale_%s' % nm, 'scale', [('curve', ty), ('sx', 'R'), ('sy', 'R'), ('origin', 'C')], T.LC))
    g.append(('gen_translate_Arc', 'translate', [('curve', T.ARC), ('z0', 'C')], T.ARC))
    g.append(('gen_scale_Arc', 'scale', [('curve', T.ARC), ('sx', 'R'), ('sy', ('static', None)), ('origin', 'C')], T.ARC))
    g.append(('gen_transform_Line', 'transform', [('curve', T.LINE), ('tf', ('tuple', 'R', 9))], T.LC))
