"""C04 — translator entries for the expression-level methods of Arc.
Arc._parameterize assigns to self.* (outside the translator's subset): it is
listed so that every run records why the translator tie is unavailable for it
(the hand model Model/Arc.v + correspondence carry it)."""
import py2v_table as T


def register(group):
    g = group('GenArc')
    g.append(('gen_Arc_point', 'Arc.point', [('self', T.ARC), ('t', 'R')], 'C'))
    g.append(('gen_Arc_derivative', 'Arc.derivative', [('self', T.ARC), ('t', 'R'), ('n', 'Z')],
              ('opt', 'C')))
    for n in (1, 2, 3, 4, 5, 6, 7, 8):
        g.append(('gen_Arc_derivative_%d' % n, 'Arc.derivative',
                  [('self', T.ARC), ('t', 'R'), ('n', ('static', n))], ('opt', 'C')))
    g.append(('gen_Arc_centeriso', 'Arc.centeriso', [('self', T.ARC), ('z', 'C')], 'C'))
    g.append(('gen_Arc_icenteriso', 'Arc.icenteriso', [('self', T.ARC), ('zeta', 'C')], 'C'))
    g.append(('gen_Arc_u1transform', 'Arc.u1transform', [('self', T.ARC), ('z', 'C')], 'C'))
    g.append(('gen_Arc_parameterize', 'Arc._parameterize', [('self', T.ARC)],
              ('post', '(self.radius, self.center, self.theta, self.delta)', ('tuple', ['C', 'C', 'R', 'R']))))
    # the same function cut into six slices at its comment blocks; the live variables at each cut are
    # parameters.  Each slice has its own agreement lemma with the corresponding piece of
    # Model/Arc.v (arc_zp1/arc_rc, arc_scaled_radius, arc_radical/arc_cp/arc_center, cclip of
    # arc_u1_raw/arc_u2_raw, arc_theta, arc_delta0/arc_adjust).
    P = 'Arc._parameterize'
    R4 = [('rx', 'R'), ('ry', 'R'), ('rx_sqd', 'R'), ('ry_sqd', 'R')]
    g.append(('gen_Arc_param_A', P, [('self', T.ARC)],
              ('post', '(x1p, y1p, radius_check)', ('tuple', ['R', 'R', 'R']),
               {'to': 'if radius_check > 1'})))
    g.append(('gen_Arc_param_B', P, [('self', T.ARC)] + R4 + [('radius_check', 'R')],
              ('post', '(rx, ry, self.radius, rx_sqd, ry_sqd)', ('tuple', ['R', 'R', 'C', 'R', 'R']),
               {'from': 'if radius_check > 1', 'to': 'tmp = '})))
    g.append(('gen_Arc_param_C', P, [('self', T.ARC)] + R4 +
              [('x1p', 'R'), ('y1p', 'R'), ('x1p_sqd', 'R'), ('y1p_sqd', 'R')],
              ('post', '(cp, self.center)', ('tuple', ['C', 'C']), {'from': 'tmp = ', 'to': 'u1 = (x1p'})))
    g.append(('gen_Arc_param_D', P, [('rx', 'R'), ('ry', 'R'), ('x1p', 'R'), ('y1p', 'R'), ('cp', 'C')],
              ('post', '(u1, u2)', ('tuple', ['C', 'C']), {'from': 'u1 = (x1p', 'to': 'if u1.imag > 0'})))
    g.append(('gen_Arc_param_E', P, [('self', T.ARC), ('u1', 'C')],
              ('post', 'self.theta', 'R', {'from': 'if u1.imag > 0', 'to': 'det_uv = '})))
    g.append(('gen_Arc_param_F', P, [('self', T.ARC), ('u1', 'C'), ('u2', 'C')],
              ('post', 'self.delta', 'R', {'from': 'det_uv = '})))
