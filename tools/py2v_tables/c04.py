"""C04 — translator entries for the expression-level methods of Arc.
Arc._parameterize assigns to self.* (outside the translator's subset): it is
listed so that every run records why the translator tie is unavailable for it
(the hand model Model/Arc.v + correspondence carry it)."""
import py2v_table as T


def register(group):
    g = group('GenArc')
    g.append(('gen_Arc_point', 'Arc.point', [('self', T.ARC), ('t', 'R')], 'C'))
    g.append(('gen_Arc_derivative', 'Arc.derivative', [('self', T.ARC), ('t', 'R'), ('n', 'Z')],
              ('opt', 'C')))
    for n in (1, 2, 3, 4, 5, 6, 7, 8):
        g.append(('gen_Arc_derivative_%d' % n, 'Arc.derivative',
                  [('self', T.ARC), ('t', 'R'), ('n', ('static', n))], ('opt', 'C')))
    g.append(('gen_Arc_centeriso', 'Arc.centeriso', [('self', T.ARC), ('z', 'C')], 'C'))
    g.append(('gen_Arc_icenteriso', 'Arc.icenteriso', [('self', T.ARC), ('zeta', 'C')], 'C'))
    g.append(('gen_Arc_u1transform', 'Arc.u1transform', [('self', T.ARC), ('z', 'C')], 'C'))
    g.append(('gen_Arc_parameterize', 'Arc._parameterize', [('self', T.ARC)],
              ('post', '(self.radius, self.center, self.theta, self.delta)', ('tuple', ['C', 'C', 'R', 'R']))))
