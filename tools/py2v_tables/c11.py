"""C11/C12 — translator entries for the expression-level parts of the
intersection code: the real-valued bezier2polynomial used by
bezier_by_line_intersections (bezier_point on real tuples is in GenBezierN).
(box_area, interval_intersection_width, boxes_intersect are already in group
GenBoxes; their agreement lemmas are in GenAgree/Isect.v.)
Entries outside the translator's subset are listed so that every run records
why the tie is unavailable for them (hand model + correspondence carry them)."""
import py2v_table as T


def register(group):
    g = group('GenIsect')
    # NOT listed: Line.intersect with other_seg declared a Line.  py2v resolves the
    # isinstance dispatch, but flattens BOTH objects to parameters named
    # `start`/`end_` (the second shadows the first) and renders np.isclose with
    # `<` (numpy uses `<=`): the generated definition would not mean what the
    # code means.  The Line-Line branch is therefore carried by the hand model
    # (Model/Isect.v line_line) + the exact-rational correspondence of c11.py.
    for n in (2, 3, 4):
        g.append(('gen_bezier2polynomial_real_%d' % n, 'bezier2polynomial', [('p', T.rtup(n))], T.LR))
    # exists only in the repaired tree (fixes/C12-subdivision-closed-boxes-extent.diff)
    g.append(('gen_box_extent', 'box_extent', [('xmin', 'R'), ('xmax', 'R'), ('ymin', 'R'), ('ymax', 'R')], 'R'))
    g.append(('gen_bezier_by_line_2', 'bezier_by_line_intersections',
              [('bezier', T.ctup(3)), ('line', T.ctup(2))], ('list', ('tuple', ['R', 'R']))))
