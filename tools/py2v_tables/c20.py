"""C20 — translator entries for smoothing.py.
smoothed_joint opens with two `try: v = seg.unit_tangent(1) / except:` blocks
(outside the translator's subset) and smoothed_path is a loop over a path of
symbolic length that mutates a list: they are listed so that every run records
why the translator tie is unavailable for them (the hand model Model/Smooth.v
and the in-Coq correspondence of tools/harness/c20.py carry them).
misctools.isclose — the comparison smoothed_path classifies joints with — is
expression-level and is tied by proof (GenAgree/Smooth.v)."""
import py2v_table as T


def register(group):
    g = group('GenSmooth')
    g.append(('gen_isclose_C', 'isclose', [('a', 'C'), ('b', 'C'), ('rtol', 'R'), ('atol', 'R')], 'B'))
    g.append(('gen_smoothed_joint_LL', 'smoothed_joint',
              [('seg0', T.LINE), ('seg1', T.LINE), ('maxjointsize', 'R'), ('tightness', 'R')],
              ('opt', ('tuple', [T.LC, T.LC, T.LC]))))
    g.append(('gen_smoothed_joint_LC', 'smoothed_joint',
              [('seg0', T.LINE), ('seg1', T.CUBIC), ('maxjointsize', 'R'), ('tightness', 'R')],
              ('opt', ('tuple', [T.LC, T.LC, T.LC]))))
    # the two Line methods the line-line / line-curve branches evaluate
    g.append(('gen_sm_Line_unit_tangent', 'Line.unit_tangent', [('self', T.LINE), ('t', 'R')], ('opt', 'C')))
    g.append(('gen_sm_Line_length', 'Line.length',
              [('self', T.LINE), ('t0', ('static', 0)), ('t1', ('static', 1)), ('error', ('static', None)),
               ('min_depth', ('static', None))], 'R'))
