"""C15 — translator entries for unit_tangent / normal / curvature.
bezier_unit_tangent and segment_curvature contain try/except (outside the
translator's subset): they are listed so that every run records why the
translator tie is unavailable for them (the hand model Model/Tangent.v +
correspondence carry them)."""
import py2v_table as T


def register(group):
    g = group('GenTangent')
    g.append(('gen_Line_unit_tangent', 'Line.unit_tangent', [('self', T.LINE), ('t', 'R')], ('opt', 'C')))
    g.append(('gen_Line_normal', 'Line.normal', [('self', T.LINE), ('t', 'R')], ('opt', 'C')))
    g.append(('gen_Line_curvature', 'Line.curvature', [('self', T.LINE), ('t', 'R')], 'R'))
    g.append(('gen_Arc_unit_tangent', 'Arc.unit_tangent', [('self', T.ARC), ('t', 'R')], ('opt', 'C')))
    g.append(('gen_Arc_normal', 'Arc.normal', [('self', T.ARC), ('t', 'R')], ('opt', 'C')))
    g.append(('gen_Arc_curvature', 'Arc.curvature', [('self', T.ARC), ('t', 'R')], 'R'))
    g.append(('gen_Quad_unit_tangent', 'QuadraticBezier.unit_tangent', [('self', T.QUAD), ('t', 'R')], ('opt', 'C')))
    g.append(('gen_Cubic_unit_tangent', 'CubicBezier.unit_tangent', [('self', T.CUBIC), ('t', 'R')], ('opt', 'C')))
    g.append(('gen_Quad_normal', 'QuadraticBezier.normal', [('self', T.QUAD), ('t', 'R')], ('opt', 'C')))
    g.append(('gen_Cubic_normal', 'CubicBezier.normal', [('self', T.CUBIC), ('t', 'R')], ('opt', 'C')))
    g.append(('gen_Quad_curvature', 'QuadraticBezier.curvature', [('self', T.QUAD), ('t', 'R')], 'R'))
    g.append(('gen_Cubic_curvature', 'CubicBezier.curvature', [('self', T.CUBIC), ('t', 'R')], 'R'))
