"""C14 — translator entries for the area kernel.

`Path.area` itself is outside the translator's subset (`Path(*list)`, loops over
a Path object, isinstance dispatch on a symbolic container), but the part that
carries the mathematics — the nested function `area_without_arcs` — is
expression-level once the path is a static tuple of segment objects:
    x = real(seg.poly()); dy = imag(seg.poly()).deriv(); integrand = x*dy
    integral = integrand.integ(); area_enclosed += integral(1) - integral(0)
The translator's function lookup (`py2v.find_fn`) only knows module-level
functions and methods, so this plug-in extends the lookup (from here, without
editing py2v.py) to qualified names `Class.method.nested`: the nested
FunctionDef is taken from the CURRENT source of /repo like every other entry.

One entry per segment class with a one-segment path (the translator names the
Coq parameters of an object after its attributes, so two objects of the same
class in one signature would clash), plus the empty path (the initial value 0
of the accumulator).  The fold over the segments of a longer path is the hand
model's `area_without_arcs` (Model/Area.v), checked by correspondence."""
import ast
import py2v
import py2v_table as T

_orig_find_fn = py2v.find_fn


def _find_fn(tr, qual):
    parts = qual.split('.')
    if len(parts) == 3:
        outer = tr.classes[parts[0]][parts[1]]
        for n in outer.body:
            if isinstance(n, ast.FunctionDef) and n.name == parts[2]:
                return n
        raise KeyError(qual)
    return _orig_find_fn(tr, qual)


if getattr(py2v.find_fn, '__name__', '') != '_find_fn':
    py2v.find_fn = _find_fn

# polytools.real / polytools.imag are `try: np.poly1d(z.coeffs.real) except AttributeError: z.real`.
# Inlining them always ends in Unsupported('try statement'); the translator already has the
# built-in meaning (coefficient-wise real/imaginary part of a poly1d, .real/.imag of a number),
# selected through its `no_inline` extension point.  Monotone: nothing that translated before
# could have gone through these two functions.
py2v.Translator.no_inline = set(py2v.Translator.no_inline) | {'real', 'imag'}


def register(group):
    g = group('GenArea')
    q = 'Path.area.area_without_arcs'
    g.append(('gen_area_empty', q, [('path', ('tuple', 'C', 0))], 'R'))
    g.append(('gen_area1_Line', q, [('path', ('tuple', T.LINE, 1))], 'R'))
    g.append(('gen_area1_Quad', q, [('path', ('tuple', T.QUAD, 1))], 'R'))
    g.append(('gen_area1_Cubic', q, [('path', ('tuple', T.CUBIC, 1))], 'R'))
    # the whole method: recorded so that every run states why the tie is unavailable
    g.append(('gen_Path_area_1Line', 'Path.area', [('self', ('tuple', T.LINE, 1))], 'R'))
