"""C08 / C13 — translator entries for the expression-level code of bbox and
radialrange.  Line.bbox is already in group GenBoxes (gen_Line_bbox).
bezier_real_minmax contains a symbolic `if denom != 0:` whose true branch
returns and whose false branch falls through to code that calls polyroots01
(np.roots — an oracle): it is listed so that every run records whether the
translator tie is available for it; the hand model Model/Extrema.v and the
correspondence check carry it otherwise."""
import py2v_table as T


def register(group):
    g = group('GenExtrema')
    g.append(('gen_Line_radialrange', 'Line.radialrange', [('self', T.LINE), ('origin', 'C')],
              ('tuple', [('tuple', ['R', 'R']), ('tuple', ['R', 'R'])])))
    g.append(('gen_bezier_real_minmax_4', 'bezier_real_minmax', [('p', T.rtup(4))],
              ('tuple', ['R', 'R'])))
