"""C09 — translator entries for the expression-level methods of reversed /
split / cropped.

All of them RETURN NEWLY CONSTRUCTED SEGMENT OBJECTS (`Line(a, b)`,
`QuadraticBezier(...)`, `CubicBezier(...)`, `Arc(...)`), i.e. a constructor
call in return position.  They are listed so that every run records whether
the translator tie is available; when it is not, the hand models
Model/Crop.v / Model/CropArc.v and the correspondence check carry the tie.
crop_bezier branches on `t0 == 0` / `t1 == 1` of symbolic reals and calls the
oracle radialrange: outside the translator's subset by design."""
import py2v_table as T


def register(group):
    g = group('GenCrop')
    g.append(('gen_Line_cropped', 'Line.cropped', [('self', T.LINE), ('t0', 'R'), ('t1', 'R')], T.LINE))
    g.append(('gen_Line_split', 'Line.split', [('self', T.LINE), ('t', 'R')], ('tuple', [T.LINE, T.LINE])))
    g.append(('gen_Line_reversed', 'Line.reversed', [('self', T.LINE)], T.LINE))
    g.append(('gen_Quad_reversed', 'QuadraticBezier.reversed', [('self', T.QUAD)], T.QUAD))
    g.append(('gen_Cubic_reversed', 'CubicBezier.reversed', [('self', T.CUBIC)], T.CUBIC))
    g.append(('gen_Quad_split', 'QuadraticBezier.split', [('self', T.QUAD), ('t', 'R')],
              ('tuple', [T.QUAD, T.QUAD])))
    g.append(('gen_Cubic_split', 'CubicBezier.split', [('self', T.CUBIC), ('t', 'R')],
              ('tuple', [T.CUBIC, T.CUBIC])))
    g.append(('gen_Arc_reversed', 'Arc.reversed', [('self', T.ARC)], T.ARC))
    g.append(('gen_Arc_cropped', 'Arc.cropped', [('self', T.ARC), ('t0', 'R'), ('t1', 'R')], T.ARC))
    g.append(('gen_crop_bezier_cubic', 'crop_bezier', [('seg', T.CUBIC), ('t0', 'R'), ('t1', 'R')], T.LC))
    g.append(('gen_crop_bezier_quad', 'crop_bezier', [('seg', T.QUAD), ('t0', 'R'), ('t1', 'R')], T.LC))
    g.append(('gen_crop_bezier_line', 'crop_bezier', [('seg', T.LINE), ('t0', 'R'), ('t1', 'R')], T.LC))
