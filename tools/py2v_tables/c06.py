"""C06 — translator entries for the expression-level length code.
QuadraticBezier.length reads/writes the self._length_info dict and tests
isnan(): listed so that every run records why the translator tie is
unavailable for it (hand model Model/Length.v + correspondence carry it)."""
import py2v_table as T


def register(group):
    g = group('GenLength')
    g.append(('gen_Line_length', 'Line.length',
              [('self', T.LINE), ('t0', 'R'), ('t1', 'R'), ('error', ('static', None)),
               ('min_depth', ('static', None))], 'R'))
    g.append(('gen_Quad_length', 'QuadraticBezier.length',
              [('self', T.QUAD), ('t0', 'R'), ('t1', 'R'), ('error', ('static', None)),
               ('min_depth', ('static', None))], 'R'))
