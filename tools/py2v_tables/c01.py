"""C01 — translator entries for the two is_smooth_from methods (path.py), the
only expression-level code among Path.d's decisions.  isinstance(previous, ...)
is static once `previous` is declared with its class; warning_on=False as
Path.d passes it.  Path.d itself (a loop building strings) is outside the
subset: hand model Model/Dstr.v + correspondence (tools/harness/c01.py).

py2v names the parameters of an ('obj', ...) argument after its FIELDS, so two
objects that share a field name would shadow each other in the generated
definition.  The objects are therefore declared with exactly the fields the
method reads, which are disjoint for CubicBezier.is_smooth_from
(self.start, self.control1 / previous.control2, previous.end) and for every
`else` branch (previous declared without fields).  QuadraticBezier.is_smooth_from
with a QuadraticBezier `previous` reads self.control AND previous.control: it
cannot be declared without a collision and is left to the correspondence check
(see the report: a one-line extension of py2v.mk_param, prefixing the field
parameters with the argument's name, would let it through)."""
import py2v_table as T


def register(group):
    g = group('GenDstr')
    F = ('static', False)
    SELF_C = ('obj', 'CubicBezier', [('start', 'C'), ('control1', 'C')])
    PREV_C = ('obj', 'CubicBezier', [('control2', 'C'), ('end', 'C')])
    SELF_Q = ('obj', 'QuadraticBezier', [('start', 'C'), ('control', 'C')])
    g.append(('gen_cubic_smooth_from_cubic', 'CubicBezier.is_smooth_from',
              [('self', SELF_C), ('previous', PREV_C), ('warning_on', F)], 'B'))
    for nm, cls in (('quad', 'QuadraticBezier'), ('line', 'Line'), ('arc', 'Arc')):
        g.append(('gen_cubic_smooth_from_%s' % nm, 'CubicBezier.is_smooth_from',
                  [('self', SELF_C), ('previous', ('obj', cls, [])), ('warning_on', F)], 'B'))
    g.append(('gen_cubic_smooth_from_none', 'CubicBezier.is_smooth_from',
              [('self', SELF_C), ('previous', ('static', None)), ('warning_on', F)], 'B'))
    for nm, cls in (('cubic', 'CubicBezier'), ('line', 'Line'), ('arc', 'Arc')):
        g.append(('gen_quad_smooth_from_%s' % nm, 'QuadraticBezier.is_smooth_from',
                  [('self', SELF_Q), ('previous', ('obj', cls, [])), ('warning_on', F)], 'B'))
    g.append(('gen_quad_smooth_from_none', 'QuadraticBezier.is_smooth_from',
              [('self', SELF_Q), ('previous', ('static', None)), ('warning_on', F)], 'B'))
