#!/usr/bin/env python3
"""Regenerates seeded/SUMMARY.md from seeded/*/meta.json."""
import os, json, glob
V = os.path.dirname(os.path.dirname(os.path.abspath(__file__)))
rows = []
for d in sorted(glob.glob(os.path.join(V, 'seeded', 'C*_*'))):
    try:
        m = json.load(open(os.path.join(d, 'meta.json')))
    except Exception:
        continue
    v = m.get('verification', {})
    det = []
    for p, r in sorted(v.get('props', {}).items()):
        keys = ', '.join(sorted((r.get('violation_keys') or {}).keys())[:4])
        det.append('%s: %s%s' % (p, 'DETECTED' if r.get('detected') else 'missed', (' (' + keys + ')') if keys and r.get('detected') else ''))
    rows.append((os.path.basename(d), m.get('property'), m.get('summary', '').replace('|', '/'), m.get('needs', '').replace('|', '/'),
                 'yes' if v.get('tests_baseline_ok') else str(v.get('tests', '?')),
                 '%s/%s' % (v.get('demo_clean_exit'), v.get('demo_mutated_exit')), '; '.join(det), m.get('ported', '')))
out = ['# Seeded changes and which checks catch them', '',
       'Each change was produced by an independent sub-agent that saw only the property text and a scratch worktree of /repo.',
       'Columns: demo = exit code of demo.py on the clean / changed tree; suite = the unedited test suite still gives the baseline result with the change.',
       '', '| id | property | change | needs | suite | demo | checks |', '|---|---|---|---|---|---|---|']
for r in rows:
    out.append('| %s | %s | %s | %s | %s | %s | %s |' % (r[0], r[1], r[2][:160], r[3][:160], r[4], r[5], r[6]))
n = len(rows)
det = sum(1 for r in rows if 'DETECTED' in r[6])
out += ['', '%d changes, %d detected by at least one check in their recorded run.' % (n, det), '']
open(os.path.join(V, 'seeded', 'SUMMARY.md'), 'w').write('\n'.join(out))
print(n, det)
