#!/usr/bin/env python3
"""Evaluate a HARMLESS (behaviour-preserving) change against the checks: precision side
of the seeded campaign.  The check of the property must keep exiting 0.

  tools/run_refactor.py <dir-with-patch.diff,equiv.py,meta.json> [--props C05,C16] [--keep]

Steps (scratch git worktree of /repo):
  1. equiv.py on the clean tree -> text A;
  2. apply patch.diff; test suite must be at baseline; equiv.py -> text B; A == B;
  3. ./check <prop> --tier quick with VERIF_REPO=<worktree>: exit code, VIOLATION lines,
     violation keys, whether every VIOLATION line ends with no-failing-input-found;
  4. --keep: copy to /verif/refactors/<name>/ with the result in meta.json.
"""
import sys, os, json, subprocess, shutil, argparse, time, re

VERIF = os.path.dirname(os.path.dirname(os.path.abspath(__file__)))
sys.path.insert(0, os.path.join(VERIF, 'tools'))
from run_seeded import sh, run_tests, PY


def run_equiv(tree, script):
    env = dict(os.environ, PYTHONPATH=tree, PYTHONDONTWRITEBYTECODE='1', PYTHONHASHSEED='0')
    rc, out = sh([PY, script], cwd=tree, env=env, timeout=1800)
    return rc, out


def main():
    ap = argparse.ArgumentParser()
    ap.add_argument('dir')
    ap.add_argument('--props')
    ap.add_argument('--keep', action='store_true')
    ap.add_argument('--tier', default='quick')
    a = ap.parse_args()
    d = os.path.abspath(a.dir)
    name = os.path.basename(d.rstrip('/'))
    meta = json.load(open(os.path.join(d, 'meta.json')))
    props = a.props.split(',') if a.props else [meta['property']]
    patch = os.path.join(d, 'patch.diff')
    equiv = os.path.join(d, 'equiv.py')
    res = {'name': name, 'props': {}, 'ran_at': time.strftime('%Y-%m-%d %H:%M:%S')}
    tree = '/tmp/refrun_%s_%d' % (name, os.getpid())
    rc, out = sh(['git', '-C', '/repo', 'worktree', 'add', '--detach', tree, 'HEAD'])
    if rc != 0:
        print(out); sys.exit(2)
    try:
        rc0, out0 = run_equiv(tree, equiv)
        rc, out = sh(['git', '-C', tree, 'apply', patch])
        if rc != 0:
            rc, out = sh(['git', '-C', tree, 'apply', '-3', patch])
        res['patch_applies'] = (rc == 0)
        if rc != 0:
            res['apply_error'] = out[-800:]
        else:
            tail, failed = run_tests(tree)
            res['tests'] = tail
            res['tests_baseline_ok'] = set(failed) <= {'test/test_groups.py::TestGroups::test_group_transform'}
            rc1, out1 = run_equiv(tree, equiv)
            res['equiv_exit'] = [rc0, rc1]
            res['equiv_same_output'] = (out0 == out1)
            for p in props:
                evd = tree + '_ev'
                os.makedirs(evd, exist_ok=True)
                env = dict(os.environ, VERIF_REPO=tree, VERIF_EVIDENCE_DIR=evd)
                t0 = time.time()
                rc, out = sh([os.path.join(VERIF, 'check'), p, '--tier', a.tier], cwd=VERIF, env=env, timeout=3600)
                ev = {}
                try:
                    ev = json.load(open(os.path.join(evd, p + '.json')))
                except Exception:
                    pass
                shutil.rmtree(evd, ignore_errors=True)
                vl = [l for l in out.splitlines() if l.startswith('VIOLATION')]
                res['props'][p] = {'exit': rc, 'wall_s': round(time.time() - t0, 1),
                                   'violation_lines': vl[:6], 'violation_keys': ev.get('violation_keys'),
                                   'all_no_failing_input': bool(vl) and all(l.rstrip().endswith('no-failing-input-found') for l in vl),
                                   'quiet': rc == 0 and not vl}
    finally:
        sh(['git', '-C', '/repo', 'worktree', 'remove', '--force', tree])
        shutil.rmtree(tree, ignore_errors=True)
    print(json.dumps(res, indent=1))
    if a.keep:
        dst = os.path.join(os.environ.get('VERIF_REFACTOR_OUT') or os.path.join(VERIF, 'refactors'), name)
        os.makedirs(dst, exist_ok=True)
        for f in ('patch.diff', 'equiv.py'):
            if os.path.abspath(os.path.join(d, f)) != os.path.abspath(os.path.join(dst, f)):
                shutil.copy(os.path.join(d, f), os.path.join(dst, f))
        meta['verification'] = res
        json.dump(meta, open(os.path.join(dst, 'meta.json'), 'w'), indent=1)


if __name__ == '__main__':
    main()
