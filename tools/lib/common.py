"""Shared plumbing for the per-property harnesses: building the Coq
development, regenerating Gen/, compiling agreement lemmas and case files,
exact float <-> Coq literal printing, evidence and violation reporting."""
import os, sys, re, json, time, subprocess, tempfile, shutil, hashlib, fcntl, random
from fractions import Fraction
from concurrent.futures import ThreadPoolExecutor

VERIF = os.path.dirname(os.path.dirname(os.path.dirname(os.path.abspath(__file__))))
COQ = os.path.join(VERIF, 'coq')
REPO = os.environ.get('VERIF_REPO', '/repo')
NPROC = int(os.environ.get('VERIF_JOBS', '16'))
COQFLAGS = ['-Q', COQ, 'SVP', '-w',
            '-notation-overridden,-deprecated-hint-without-locality,-deprecated-instance-without-locality,-non-recursive']

sys.path.insert(0, os.path.join(VERIF, 'tools'))


# ------------------------------------------------------------------ locking
class Lock:
    def __init__(self, name='.lock'):
        self.path = os.path.join(VERIF, name)

    def __enter__(self):
        self.f = open(self.path, 'w')
        fcntl.flock(self.f, fcntl.LOCK_EX)
        return self

    def __exit__(self, *a):
        fcntl.flock(self.f, fcntl.LOCK_UN)
        self.f.close()


def sh(cmd, timeout=3600, cwd=None, env=None):
    try:
        p = subprocess.run(cmd, stdout=subprocess.PIPE, stderr=subprocess.STDOUT,
                           timeout=timeout, cwd=cwd, env=env, text=True, errors='replace')
        return p.returncode, p.stdout
    except subprocess.TimeoutExpired as e:
        out = e.stdout if isinstance(e.stdout, str) else (e.stdout or b'').decode('utf8', 'replace')
        return 124, (out or '') + '\n[timeout after %ss]' % timeout


# ------------------------------------------------------------------- build
def ensure_build(log):
    """full .vo build of the static development (no-op when current)"""
    with Lock():
        mk = os.path.join(COQ, 'Makefile')
        cp = os.path.join(COQ, '_CoqProject')
        if not os.path.exists(mk) or os.path.getmtime(mk) < os.path.getmtime(cp):
            rc, out = sh(['coq_makefile', '-f', '_CoqProject', '-o', 'Makefile'], cwd=COQ)
            if rc != 0:
                log.append(out)
                return False
        rc, out = sh(['make', '-j%d' % NPROC], timeout=3000, cwd=COQ)
        if rc != 0:
            log.append(out[-4000:])
            return False
        return True


def hygiene():
    """no Admitted / admit / Axiom / ... anywhere in the development"""
    bad = []
    pat = re.compile(r'\b(Admitted|admit|Axiom|Axioms|Parameter|Parameters|Conjecture|Abort All|'
                     r'Admit Obligations|bypass_check|Unset Guard Checking|Unset Positivity Checking|'
                     r'Unset Universe Checking|type-in-type|impredicative-set)\b')
    listed = set()
    for line in open(os.path.join(COQ, '_CoqProject')):
        line = line.strip()
        if line.endswith('.v'):
            listed.add(os.path.normpath(os.path.join(COQ, line)))
    for root, _, files in os.walk(COQ):
        if os.path.basename(root) == 'cases':
            continue
        for fn in files:
            if fn.endswith('.v'):
                p = os.path.join(root, fn)
                # the development = files of _CoqProject + Gen/ + GenAgree/ (work in progress elsewhere is not built)
                if os.path.normpath(p) not in listed and os.path.basename(root) not in ('Gen', 'GenAgree'):
                    continue
                txt = open(p, errors='replace').read()
                txt = re.sub(r'\(\*.*?\*\)', '', txt, flags=re.S)   # comments may mention the words
                for m in pat.finditer(txt):
                    bad.append('%s: %s' % (os.path.relpath(p, VERIF), m.group(0)))
    return bad


_GEN_DIR = None


def gen_dir():
    """run-private directory holding the definitions generated from the source
    under test (logical path SVP.Gen).  Private per process, so that concurrent
    runs against different trees (VERIF_REPO) can never see each other's
    translation."""
    global _GEN_DIR
    if _GEN_DIR is None:
        import atexit
        _GEN_DIR = tempfile.mkdtemp(prefix='svpverif_gen_')
        atexit.register(lambda: shutil.rmtree(_GEN_DIR, ignore_errors=True))
        COQFLAGS.extend(['-Q', _GEN_DIR, 'SVP.Gen'])
        # stale compiled files in coq/Gen would shadow the private ones
        with Lock():
            d = os.path.join(COQ, 'Gen')
            if os.path.isdir(d):
                for fn in os.listdir(d):
                    if fn.endswith(('.vo', '.vok', '.vos', '.glob', '.aux', '.v')):
                        try:
                            os.remove(os.path.join(d, fn))
                        except OSError:
                            pass
    return _GEN_DIR


def regen(groups, log):
    """re-run the translator on the source under test for the given groups
    and compile the generated files (into the run-private Gen directory).
    Returns status per group."""
    import py2v_table
    gd = gen_dir()
    st = py2v_table.generate(gd, only=set(groups))

    def comp(g):
        v = os.path.join(gd, g + '.v')
        rc, out = sh(['coqc'] + COQFLAGS + [v], timeout=600, cwd=gd)
        return g, rc, out
    with ThreadPoolExecutor(max_workers=NPROC) as ex:
        for g, rc, out in ex.map(comp, list(groups)):
            st[g]['compiled'] = (rc == 0)
            if rc != 0:
                st[g]['compile_error'] = out[-2000:]
                log.append('Gen/%s.v failed to compile:\n%s' % (g, out[-2000:]))
    return st


def coqc_file(path, timeout=900):
    t0 = time.time()
    rc, out = sh(['coqc'] + COQFLAGS + [path], timeout=timeout, cwd=os.path.dirname(path))
    return rc, out, time.time() - t0


def coqc_many(paths, timeout=900):
    with ThreadPoolExecutor(max_workers=NPROC) as ex:
        res = list(ex.map(lambda p: coqc_file(p, timeout), paths))
    # a coqc that was KILLED (rc < 0: out-of-memory killer when many checks run at once) or ran
    # into the timeout says nothing about the file: run it again, alone
    for i, (rc, out, dt) in enumerate(res):
        if rc < 0 or rc == 124:
            res[i] = coqc_file(paths[i], timeout * 2)
    return res


def run_agree(vfile, tmpdir, skip=()):
    """Compile the agreement lemmas of GenAgree/<vfile> one by one.
    Returns {gen_name: (ok, message)}"""
    src = open(os.path.join(COQ, 'GenAgree', vfile)).read()
    head, rest = src.split('(* HEADER END *)')
    body, foot = rest.split('(* FOOTER *)')
    chunks = re.split(r'\(\* AGREE (\w+)([^*]*)\*\)', body)
    names, paths = [], []
    for i in range(1, len(chunks), 3):
        name, extra, text = chunks[i], chunks[i + 1], chunks[i + 2]
        if name in skip:
            continue
        # `(* AGREE f needs: g h *)`: the lemma also mentions the generated definitions g, h
        if 'needs:' in extra and set(re.findall(r'\w+', extra.split('needs:')[1])) & set(skip):
            continue
        p = os.path.join(tmpdir, 'agree_%s.v' % name)
        with open(p, 'w') as f:
            f.write(head + text + foot)
        names.append(name); paths.append(p)
    res = coqc_many(paths, timeout=300)
    out = {}
    for name, (rc, txt, dt) in zip(names, res):
        out[name] = (rc == 0, '' if rc == 0 else txt[-1500:])
    return out


def props_check(prop):
    """coqc Props/<prop>.v, returning (ok, theorems, axioms, output)"""
    path = os.path.join(COQ, 'Props', prop + '.v')
    src = open(path).read()
    theorems = re.findall(r'^\s*(?:Theorem|Example)\s+(\w+)', src, flags=re.M)
    # compile into a scratch copy so that the .vo of the static build is not disturbed
    rc, out, dt = coqc_file_scratch(path)
    axioms = set()
    for line in out.splitlines():
        m = re.match(r"^([A-Za-z_][\w.']*)\s*(:.*)?$", line)
        if m and m.group(1) not in ('Axioms', 'Closed', 'Warning', 'File', 'Error') and not line.startswith('Closed under') \
                and not line.startswith('New coercion'):
            axioms.add(m.group(1))
    axioms = sorted(axioms)
    return rc == 0, theorems, axioms, out


def coqc_file_scratch(path):
    d = tempfile.mkdtemp(prefix='svpverif_')
    try:
        dst = os.path.join(d, 'Scratch_' + os.path.basename(path))
        shutil.copy(path, dst)
        return coqc_file(dst)
    finally:
        shutil.rmtree(d, ignore_errors=True)


# ----------------------------------------------------------- Coq literals
def qc(x):
    """exact Coq Qc literal of a Python float / int / Fraction"""
    fr = Fraction(x)
    n, d = fr.numerator, fr.denominator
    return '(qc (%d) %d)' % (n, d)


def cq(z):
    z = complex(z)
    return '(%s, %s)' % (qc(z.real), qc(z.imag))


def coq_list(items):
    return '[' + '; '.join(items) + ']'


def coq_bool(b):
    return 'true' if b else 'false'


def parse_nat_list(out):
    """parse the result of `Eval vm_compute in (... : list nat)`; returns the
    list of lists found, in order"""
    res = []
    for m in re.finditer(r'=\s*(\[[^\]]*\]|nil)\s*(?:%nat)?\s*:\s*list nat', out, flags=re.S):
        body = m.group(1)
        res.append([int(x) for x in re.findall(r'\d+', body)])
    return res


CASE_HEADER = '''From Coq Require Import ZArith QArith Qcanon List Bool.
From SVP Require Import Base.Num Base.Cplx Base.Poly Base.CaseLib.
Import ListNotations.
Open Scope nat_scope.
'''


def run_case_files(texts, tmpdir, prefix='cases', timeout=900):
    """texts: list of Coq sources. Returns list of (rc, output, seconds)."""
    paths = []
    for i, t in enumerate(texts):
        p = os.path.join(tmpdir, '%s_%d.v' % (prefix, i))
        with open(p, 'w') as f:
            f.write(t)
        paths.append(p)
    return coqc_many(paths, timeout)


# -------------------------------------------------------------- reporting
class Report:
    def __init__(self, prop, tier, seed):
        self.prop, self.tier, self.seed = prop, tier, seed
        self.t0 = time.time()
        self.violations = []       # (what, replay dict, found_input: bool)
        self.known_hits = []
        self.cov = {'obligations': 0, 'discharged': 0, 'checker_cmd': '', 'trusted_base': [],
                    'evaluations': 0, 'distinct_nontrivial': 0, 'rule': '', 'samples': [],
                    'traces_validated_against_impl': 0}
        self.assumptions = []
        self.notes = []
        self.findings = load_known(prop)
        self.all_keys = {}
        self.known_counts = {}

    def violation(self, what, replay, found_input=True, key=None):
        """record a violation unless it matches a known finding"""
        for kf in self.findings:
            if kf.get('status') == 'known' and kf_matches(kf, key, replay):
                if kf['id'] not in [k['id'] for k in self.known_hits]:
                    self.known_hits.append(kf)
                self.known_counts[kf['id']] = self.known_counts.get(kf['id'], 0) + 1
                return False
        self.violations.append((what, replay, found_input, key))
        self.all_keys[key] = self.all_keys.get(key, 0) + 1
        return True

    def finish(self):
        evdir = os.environ.get('VERIF_EVIDENCE_DIR') or os.path.join(VERIF, 'evidence')
        os.makedirs(evdir, exist_ok=True)
        os.makedirs(os.path.join(VERIF, 'replays'), exist_ok=True)
        lines = []
        for kf in self.known_hits:
            lines.append('KNOWN-FINDING: property=%s %s' % (self.prop, kf['what']))
        seen = set()
        for what, replay, found, vkey in self.violations:
            blob = json.dumps(replay, sort_keys=True, default=str)
            h = hashlib.sha1(blob.encode()).hexdigest()[:10]
            if h in seen:
                continue
            seen.add(h)
            path = os.path.join(VERIF, 'replays', '%s-%s.json' % (self.prop, h))
            with open(path, 'w') as f:
                json.dump({'property': self.prop, 'what': what, 'key': vkey, 'replay': replay,
                           'failing_input_found': found, 'seed': self.seed, 'tier': self.tier},
                          f, indent=1, default=str)
            lines.append('VIOLATION property=%s replay=%s%s' % (
                self.prop, path, '' if found else ' no-failing-input-found'))
            if len(seen) >= 5:
                break
        ev = {'property_id': self.prop, 'tier': self.tier, 'seed': self.seed, 'level': 'proof',
              'coverage': self.cov, 'assumptions': self.assumptions,
              'wall_s': round(time.time() - self.t0, 2), 'violations': len(seen),
              'known_findings_hit': self.known_counts, 'violation_keys': self.all_keys, 'notes': self.notes}
        with open(os.path.join(evdir, self.prop + '.json'), 'w') as f:
            json.dump(ev, f, indent=1, default=str)
        for l in lines:
            print(l)
        sys.stdout.flush()
        return 1 if seen else 0


def load_known(prop):
    p = os.path.join(VERIF, 'known_findings.json')
    if not os.path.exists(p):
        return []
    return [k for k in json.load(open(p)).get('findings', []) if k.get('property') == prop]


def kf_matches(kf, key, replay):
    """a known finding matches when its selector key equals the violation's key
    and every selector field equals the replay's field"""
    sel = kf.get('selector', {})
    if sel.get('key') != key:
        return False
    for k, v in sel.get('where', {}).items():
        if replay.get(k) != v:
            return False
    return True


def mkrng(seed, salt=''):
    return random.Random('%s/%s' % (seed, salt))


def fhex(x):
    return float(x).hex()


def chex(z):
    z = complex(z)
    return [z.real.hex(), z.imag.hex()]


# ------------------------------------------------------ standard pipeline
def std_static(rep, prop, gen_groups=(), agree_files=(), tmpdir=None):
    """theorems + translator + agreement lemmas. Returns info dict."""
    info = {'agree_failed': [], 'untranslated': {}, 'props_ok': True}
    ok, thms, axioms, out = props_check(prop)
    rep.cov['obligations'] += len(thms)
    rep.cov['checker_cmd'] = 'make -C coq (coq_makefile, full .vo) && coqc -Q coq SVP coq/Props/%s.v' % prop
    rep.cov['theorems'] = thms
    tb = set(rep.cov['trusted_base'])
    tb.update(['Coq 8.16.1 kernel + vm_compute', 'tools/py2v.py translator', 'tools/harness correspondence check'])
    tb.update('axiom: ' + a for a in axioms)
    rep.cov['trusted_base'] = sorted(tb)
    if ok:
        rep.cov['discharged'] += len(thms)
    else:
        info['props_ok'] = False
        rep.violation('Props/%s.v no longer checks' % prop,
                      {'kind': 'theorem', 'file': 'coq/Props/%s.v' % prop, 'output': out[-2500:]},
                      found_input=False, key='props')
    log = []
    st = regen(list(gen_groups), log) if gen_groups else {}
    tr = {}
    for g, s in st.items():
        tr[g] = {'translated': len(s['ok']), 'unsupported': s['unsupported'], 'compiled': s.get('compiled')}
        info['untranslated'].update(s['unsupported'])
        if s['ok'] and not s.get('compiled'):
            info['untranslated'].update({n: 'generated file does not compile' for n in s['ok']})
    rep.cov['translator'] = tr
    agree = {}
    for vf in agree_files:
        skip = set(info['untranslated'].keys())
        agree.update(run_agree(vf, tmpdir, skip=skip))
    rep.cov['obligations'] += len(agree)
    for name, (aok, msg) in sorted(agree.items()):
        if aok:
            rep.cov['discharged'] += 1
        else:
            info['agree_failed'].append(name)
            info.setdefault('agree_msgs', {})[name] = msg
    rep.cov['agreement_lemmas'] = {'checked': len(agree), 'failed': info['agree_failed']}
    if info['untranslated']:
        rep.notes.append('translator tie unavailable for %s (correspondence only): %s' % (
            sorted(info['untranslated']), list(info['untranslated'].values())[:3]))
    return info


def parse_codes(out):
    ls = parse_nat_list(out)
    if not ls:
        return None
    flat = ls[-1]
    return [(flat[i], flat[i + 1]) for i in range(0, len(flat) - 1, 2)]


def run_cases(tmpdir, preamble, casetype, okdef, cases, shard=250, prefix='cases', timeout=1200):
    """cases: list of Coq terms of type casetype. okdef: Coq source defining
    `ok : casetype -> nat`. Returns (list of (case_index, code), errors)."""
    texts = []
    for s in range(0, len(cases), shard):
        chunk = cases[s:s + shard]
        texts.append(CASE_HEADER + preamble + '\n' + okdef + '\n' +
                     'Definition the_cases : list (%s) :=\n [%s].\n' % (casetype, ';\n  '.join(chunk)) +
                     'Eval vm_compute in (run_cases ok the_cases).\n')
    res = run_case_files(texts, tmpdir, prefix=prefix, timeout=timeout)
    fails, errors = [], []
    for k, (rc, out, dt) in enumerate(res):
        codes = parse_codes(out) if rc == 0 else None
        if codes is None:
            errors.append('shard %d: rc=%s %s' % (k, rc, out[-1500:]))
            continue
        for i, c in codes:
            fails.append((k * shard + i, c))
    return fails, errors


class Scratch:
    def __enter__(self):
        self.d = tempfile.mkdtemp(prefix='svpverif_')
        return self.d

    def __exit__(self, *a):
        shutil.rmtree(self.d, ignore_errors=True)


def bf(x):
    """exact Coq bigfloat literal (Base/BigF.v) of a Python float / int"""
    fr = Fraction(x)
    n, d = fr.numerator, fr.denominator
    assert d & (d - 1) == 0
    return '(bf_of (%d) (%d))' % (n, -(d.bit_length() - 1))


def cbf(z):
    z = complex(z)
    return '(%s, %s)' % (bf(z.real), bf(z.imag))


CASE_HEADER_BF = CASE_HEADER + 'From SVP Require Import Base.BigF.\n'
