"""C15 — unit_tangent, normal and curvature are the differential geometry of
the curve.  Theorems: coq/Props/C15.v.  Ties: translator (GenTangent +
GenAgree/Tangent.v: Line/Arc unit_tangent, normal, Line.curvature) and
correspondence of unit_tangent/normal/curvature with Model/Tangent.v executed
in 120-bit binary floats inside Coq (regular AND singular branch).  The
property itself is also evaluated on the implementation: modulus 1, equality
with the derivative quotient (at singular points: the quotient at t+-h inside
the interval, WITH its sign), normal = -1j*tangent, curvature formula,
covariance under translated/rotated/scaled/reversed, Path-level wrappers."""
import math, cmath, warnings, json
from fractions import Fraction
import common
from common import bf, cbf, coq_list

GEN_GROUPS = ['GenTangent']
AGREE = ['Tangent.v']
H = 1e-6          # distance inside the interval at which the quotient is sampled
TOL_SING = 1e-3
TOL_REG = 1e-9


# ------------------------------------------------------------ exact oracle
def cF(z):
    z = complex(z)
    return (Fraction(z.real), Fraction(z.imag))


def bez_deriv_exact(pts, t, n):
    """n-th derivative of the Bezier curve with control points pts at t, in
    exact rational arithmetic (hodograph + de Casteljau)."""
    P = [cF(p) for p in pts]
    t = Fraction(t)
    for _ in range(n):
        deg = len(P) - 1
        if deg <= 0:
            return (Fraction(0), Fraction(0))
        P = [(deg * (P[i + 1][0] - P[i][0]), deg * (P[i + 1][1] - P[i][1])) for i in range(deg)]
    while len(P) > 1:
        P = [((1 - t) * P[i][0] + t * P[i + 1][0], (1 - t) * P[i][1] + t * P[i + 1][1]) for i in range(len(P) - 1)]
    return P[0]


def fdir(v):
    """unit vector (complex float) of an exact vector, None when zero"""
    if v[0] == 0 and v[1] == 0:
        return None
    # scale exactly before converting so that tiny/huge vectors do not under/overflow
    m = max(abs(v[0]), abs(v[1]))
    x, y = float(v[0] / m), float(v[1] / m)
    r = math.hypot(x, y)
    return complex(x / r, y / r)


def kappa_exact(d, dd):
    num = abs(d[0] * dd[1] - d[1] * dd[0])
    n2 = d[0] * d[0] + d[1] * d[1]
    return float(num) / (math.sqrt(float(n2)) ** 3)


# ---------------------------------------------------------------- generators
DIRS8 = [cmath.exp(1j * math.pi * k / 4) for k in range(8)]


def dy(rng, lo=-64, hi=64, den=8):
    return rng.randint(lo * den, hi * den) / den


def dyc(rng, **kw):
    return complex(dy(rng, **kw), dy(rng, **kw))


def heading(rng, k, exact):
    """a vector heading into direction k*45 degrees (+ jitter inside the octant)"""
    if exact:
        base = [(1, 0), (1, 1), (0, 1), (-1, 1), (-1, 0), (-1, -1), (0, -1), (1, -1)][k]
        m = rng.choice([1, 2, 3, 0.5, 4, 6])
        v = complex(base[0] * m, base[1] * m)
        if rng.random() < 0.5:      # jitter with exact dyadics, staying off the axes' other side
            j = complex(rng.randint(-3, 3) / 8, rng.randint(-3, 3) / 8)
            if base[0] == 0: j = complex(0, j.imag) if rng.random() < 0.5 else j
            v2 = v + j * m * 0.5
            if v2 != 0:
                v = v2
        return v
    ang = math.pi * k / 4 + rng.uniform(-0.3, 0.3)
    return rng.uniform(0.5, 5) * cmath.exp(1j * ang)


def gen_singular(rng, i):
    """Bezier segments with coincident first/last control points, heading into
    each of the 8 directions.  Returns (kind, pts, t, mode)"""
    k = i % 8
    exact = (i // 8) % 3 != 2
    p = dyc(rng) if exact else complex(rng.uniform(-50, 50), rng.uniform(-50, 50))
    v = heading(rng, k, exact)
    other = dyc(rng, lo=-8, hi=8) if exact else complex(rng.uniform(-5, 5), rng.uniform(-5, 5))
    shape = rng.choice(['c01', 'c23', 'c012', 'c123', 'c01+23', 'q01', 'q12', 'c01', 'c23', 'interior2'])
    if shape == 'c01':      # P0 = P1, leaves towards v
        return 'cubic', [p, p, p + v, p + v + other], 0.0, shape + ('' if exact else '/generic')
    if shape == 'c23':      # P2 = P3, arrives travelling along v
        return 'cubic', [p - v - other, p - v, p, p], 1.0, shape + ('' if exact else '/generic')
    if shape == 'c012':
        return 'cubic', [p, p, p, p + v], 0.0, shape + ('' if exact else '/generic')
    if shape == 'c123':
        return 'cubic', [p - v, p, p, p], 1.0, shape + ('' if exact else '/generic')
    if shape == 'c01+23':
        t = rng.choice([0.0, 1.0])
        return 'cubic', [p, p, p + v, p + v], t, shape + ('' if exact else '/generic')
    if shape == 'q01':
        return 'quad', [p, p, p + v], 0.0, shape + ('' if exact else '/generic')
    if shape == 'q12':
        return 'quad', [p - v, p, p], 1.0, shape + ('' if exact else '/generic')
    # interior double zero of the derivative: gamma(t) = p + (t - 1/2)^3 * 8 v  (a straight line)
    v = heading(rng, k, True)
    p = dyc(rng)
    pts = [p - v, p + v, p - v, p + v]
    return 'cubic', pts, 0.5, 'interior2'


def gen_regular(rng, sc=None):
    kind = rng.choice(['line', 'quad', 'cubic', 'cubic', 'arc', 'arc'])
    if sc is None:
        sc = 10 ** rng.uniform(-2, 3)
    off = complex(rng.uniform(-20, 20), rng.uniform(-20, 20)) * sc

    def rnd():
        return off + complex(rng.uniform(-1, 1), rng.uniform(-1, 1)) * sc
    r = rng.random()
    t = 0.0 if r < 0.1 else 1.0 if r < 0.2 else rng.choice([0.5, 0.25, 0.75, 0.125]) if r < 0.35 else rng.random()
    if kind == 'line':
        return kind, [rnd(), rnd()], t, 'rand'
    if kind == 'quad':
        return kind, [rnd(), rnd(), rnd()], t, 'rand'
    if kind == 'cubic':
        return kind, [rnd(), rnd(), rnd(), rnd()], t, 'rand'
    start, end = rnd(), rnd()
    circle = rng.random() < 0.4
    rx = rng.uniform(0.3, 3) * sc
    ry = rx if circle else rng.uniform(0.3, 3) * sc
    rot = rng.choice([0.0, 30.0, 90.0, -45.0, rng.uniform(-180, 180)])
    return 'arc', [start, complex(rx, ry), rot, rng.random() < 0.5, rng.random() < 0.5, end], t, \
        'circle' if circle else 'ellipse'


def detect_variant():
    """which fallback bezier_unit_tangent has at a zero of the derivative, by the witness of the sign
    defect: 'pinned' when it returns the principal root (1-1j)/sqrt(2) (rational_limit + csqrt),
    'repaired' otherwise (the model with flag true and its agreement lemmas must then hold: a tree
    that is neither fails them)"""
    from svgpathtools import CubicBezier
    try:
        u = complex(CubicBezier(0j, 0j, -1 + 1j, -2 + 0j).unit_tangent(0.0))
    except Exception:
        return 'repaired'
    return 'pinned' if abs(u - complex(1, -1) / math.sqrt(2)) < 1e-9 else 'repaired'


# agreement lemmas of GenAgree/Tangent.v that are stated against the repaired model (flag true)
REPAIRED_ONLY = ('gen_Quad_unit_tangent', 'gen_Cubic_unit_tangent')


def params_of(kind, seg):
    if kind == 'arc':
        return [complex(seg.start), complex(seg.radius), float(seg.rotation), bool(seg.large_arc),
                bool(seg.sweep), complex(seg.end)]
    return [complex(p) for p in seg.bpoints()]


def gen_tiny(rng, i):
    """regular points with a tiny but non-zero derivative: segments drawn at coordinate scales
    1e-9..1e-6, scaled(1e-9) copies of ordinary segments (all kinds), and Beziers with a control
    point 1e-12..1e-9 away from an end point (8 directions), evaluated at that end"""
    which = ('tiny-scale', 'scaled-copy', 'near-end')[i % 3]
    if which == 'tiny-scale':
        kind, params, t, mode = gen_regular(rng, sc=10 ** rng.uniform(-9, -6))
        return kind, params, t, 'tiny-scale/' + mode
    if which == 'scaled-copy':
        kind, params, t, mode = gen_regular(rng)
        return kind, params_of(kind, build(kind, params).scaled(1e-9)), t, 'scaled-copy/' + mode
    k = (i // 3) % 8
    delta = cmath.exp(1j * (math.pi * k / 4 + rng.uniform(-0.3, 0.3))) * 10 ** rng.uniform(-12, -9)
    r = rng.random()
    p = 0j if r < 0.3 else dyc(rng, lo=-4, hi=4) if r < 0.7 else complex(rng.uniform(-50, 50), rng.uniform(-50, 50))
    far = lambda: p + complex(rng.uniform(-3, 3), rng.uniform(-3, 3))
    shape = rng.choice(['c1', 'c2', 'q-start', 'q-end'])
    if shape == 'c1':
        pts, t, kind = [p, p + delta, far(), far()], 0.0, 'cubic'
    elif shape == 'c2':
        pts, t, kind = [far(), far(), p - delta, p], 1.0, 'cubic'
    elif shape == 'q-start':
        pts, t, kind = [p, p + delta, far()], 0.0, 'quad'
    else:
        pts, t, kind = [far(), p - delta, p], 1.0, 'quad'
    if len(set(pts)) < len(pts):      # delta was absorbed by rounding: a genuinely singular case
        return gen_tiny(rng, i)
    return kind, pts, t, 'near-end/' + shape


def build(kind, params):
    from svgpathtools import Line, QuadraticBezier, CubicBezier, Arc
    if kind == 'line': return Line(*params)
    if kind == 'quad': return QuadraticBezier(*params)
    if kind == 'cubic': return CubicBezier(*params)
    return Arc(*params)


# ------------------------------------------------------------ observation
ST_VAL, ST_VALUEERR, ST_ASSERT, ST_SKIP = 0, 1, 2, 3


def call(f, *a):
    """(status, value, warning names)"""
    with warnings.catch_warnings(record=True) as w:
        warnings.simplefilter('always')
        try:
            v = f(*a)
            st = ST_VAL
        except ValueError as e:
            v, st = None, ST_VALUEERR
        except AssertionError:
            v, st = None, ST_ASSERT
    return st, v, [str(x.message) for x in w]


def finite(z):
    z = complex(z)
    return math.isfinite(z.real) and math.isfinite(z.imag)


def observe(kind, params, t):
    seg = build(kind, params)
    o = {'seg': seg}
    o['ut'] = call(seg.unit_tangent, t)
    o['nm'] = call(seg.normal, t)
    o['k'] = call(seg.curvature, t)
    return o


def seg_term(kind, params, seg):
    if kind == 'line': return '(SL %s %s)' % (cbf(params[0]), cbf(params[1]))
    if kind == 'quad': return '(SQ %s %s %s)' % tuple(cbf(p) for p in params)
    if kind == 'cubic': return '(SC %s %s %s %s)' % tuple(cbf(p) for p in params)
    return '(SA %s %s %s %s %s)' % (bf(seg.radius.real), bf(seg.radius.imag), bf(seg.rotation),
                                    bf(seg.theta), bf(seg.delta))


def cval(st, v):
    if st == ST_VAL and v is not None and finite(v):
        return cbf(complex(v))
    return cbf(0)


def rval(st, v):
    if st == ST_VAL and v is not None and math.isfinite(float(v)):
        return bf(float(v))
    return bf(0)


OKDEF = r'''
From SVP Require Import Model.Bezier Model.Tangent.
Definition N := NumB.
Definition T := NumTB.
(* which fallback the tree under test has at a zero of the derivative (detected by the harness
   on the witness CubicBezier(0,0,-1+1j,-2).unit_tangent(0)) *)
Definition RP : bool := @RP@.
Inductive sg := SL (s e : Cplx bf) | SQ (s c e : Cplx bf) | SC (s c1 c2 e : Cplx bf)
              | SA (rx ry rot th de : bf).
Definition tol9 : bf := bf_of 4503599627 (-52).     (* 1.0000000000e-9 *)
Definition m_ut (g : sg) (t : bf) : res (Cplx bf) :=
  match g with
  | SL s e => Val (line_unit_tangent N T s e t)
  | SQ s c e => quad_unit_tangent N T RP s c e t
  | SC s c1 c2 e => cubic_unit_tangent N T RP s c1 c2 e t
  | SA rx ry rot th de => Val (arc_unit_tangent N T rx ry rot th de t)
  end.
Definition m_nm (g : sg) (t : bf) : res (Cplx bf) :=
  match g with
  | SL s e => Val (line_normal N T s e t)
  | SQ s c e => quad_normal N T RP s c e t
  | SC s c1 c2 e => cubic_normal N T RP s c1 c2 e t
  | SA rx ry rot th de => Val (arc_normal N T rx ry rot th de t)
  end.
Definition m_k (g : sg) (t : bf) : res bf :=
  match g with
  | SL s e => Val (line_curvature N s e t)
  | SQ s c e => quad_curvature N T s c e t
  | SC s c1 c2 e => cubic_curvature N T s c1 c2 e t
  | SA rx ry rot th de => Val (arc_curvature N T rx ry rot th de t)
  end.
Definition m_d (g : sg) (t : bf) (n : Z) : Cplx bf :=
  match g with
  | SL s e => oget N (line_deriv N s e t n)
  | SQ s c e => quad_d N s c e t n
  | SC s c1 c2 e => cubic_d N s c1 c2 e t n
  | SA rx ry rot th de => if Z.eqb n 1 then arc_d1 N T rx ry rot th de t else arc_d2 N T rx ry rot th de t
  end.
(* observed status: 0 value, 1 ValueError, 2 AssertionError, 3 not compared *)
Definition st_ok {A} (st : nat) (r : res A) : bool :=
  match st, r with
  | 0, Val _ => true | 1, ErrValue => true | 2, ErrAssert => true | 3, _ => true
  | _, _ => false end%nat.
Definition cval_ok (st : nat) (tol : bf) (v : Cplx bf) (r : res (Cplx bf)) : bool :=
  match st, r with
  | 0%nat, Val m => bcclose tol v m
  | _, _ => true end.
Definition mulB := mul N. Definition addB := add N. Definition divB := div N.
Definition ktol (g : sg) (t : bf) (km : bf) : bf :=
  let d := m_d g t 1 in let dd := m_d g t 2 in
  let n2 := addB (mulB (fst d) (fst d)) (mulB (snd d) (snd d)) in
  let cond := divB (cabs T dd) n2 in
  mulB tol9 (addB (babs km) (if bf_leb (F.fromZ 0) cond then cond else F.fromZ 0)).
Definition rval_ok (st : nat) (g : sg) (t : bf) (v : bf) (r : res bf) : bool :=
  match st, r with
  | 0%nat, Val m => bclose (bmax (ktol g t m) (bf_of 1 (-900))) v m
  | _, _ => true end.
(* case: segment, t, (status, value) of unit_tangent, normal, curvature,
         path check flag, segment length, Path.curvature value *)
Definition casety : Type :=
  (sg * bf * (nat * Cplx bf) * (nat * Cplx bf) * (nat * bf) * (bool * bf * bf))%type.
Definition ok (c : casety) : nat :=
  let '(g, t, (su, vu), (sn, vn), (sk, vk), (pflag, plen, pk)) := c in
  let mu := m_ut g t in let mn := m_nm g t in let mk := m_k g t in
  first_fail
   [ (st_ok su mu, 1); (cval_ok su tol9 vu mu, 2);
     (st_ok sn mn, 3); (cval_ok sn tol9 vn mn, 4);
     (st_ok sk mk, 5); (rval_ok sk g t vk mk, 6);
     (if pflag then
        let km := path_curvature_core N T (m_d g t 1) (m_d g t 2) plen in
        bclose (bmax (mulB (bf_of 1 (-20)) (babs km)) (bf_of 1 (-900))) pk km
      else true, 7) ].
'''

OBS_NAMES = {1: 'unit_tangent: raised/returned differently from the model', 2: 'unit_tangent value vs model',
             3: 'normal: raised/returned differently from the model', 4: 'normal value vs model',
             5: 'curvature: raised/returned differently from the model', 6: 'curvature value vs model',
             7: 'Path.curvature vs model formula on derivative/length**n'}


# ------------------------------------------------------- implementation level
def exact_derivs(kind, params, seg, t):
    """(d, dd) as exact Fractions for Beziers, floats (from Arc.derivative) for arcs"""
    if kind == 'arc':
        d, dd = complex(seg.derivative(t)), complex(seg.derivative(t, 2))
        return (Fraction(d.real), Fraction(d.imag)), (Fraction(dd.real), Fraction(dd.imag))
    return bez_deriv_exact(params, t, 1), bez_deriv_exact(params, t, 2)


def inside_dirs(kind, params, t):
    """directions of the derivative quotient at t+-H inside [0,1] (Beziers)"""
    out = []
    for tt in (t + H, t - H):
        if 0 <= tt <= 1:
            out.append(fdir(bez_deriv_exact(params, Fraction(t) + Fraction(tt - t), 1)))
    return [d for d in out if d is not None]


def float_zero_tests_wrong(seg, params, t):
    """True when one of the exact zero tests `g(t0) != 0` / `f(t0) == 0` that
    rational_limit performs on (dseg_poly**2, |dseg_poly|**2) comes out differently
    in binary64 than in exact arithmetic (the derivative and hence both polynomials
    vanish exactly at t0, the float Horner sums do not)."""
    import numpy as np
    dp = seg.poly().deriv()
    f = dp ** 2
    g = np.poly1d(dp.coeffs.real) ** 2 + np.poly1d(dp.coeffs.imag) ** 2
    for j in range(1, 4):
        if bez_deriv_exact(params, t, j) != (0, 0):
            break
    order = 2 * (j - 1)      # number of derivatives of f, g that vanish exactly at t0
    for _ in range(order):
        if g(t) != 0 or f(t) != 0:
            return True
        f, g = f.deriv(), g.deriv()
    return False


def conditioning(kind, params, t):
    """sum of the magnitudes of the terms of derivative(t) divided by |derivative(t)|: the factor by
    which binary64 rounding (relative 2^-53 per term; the differences P[i+1]-P[i] are correctly
    rounded) is amplified in the direction of the derivative.  1 for lines/arcs and wherever no
    cancellation happens (in particular at the end points, however small the derivative is)."""
    if kind in ('line', 'arc'):
        return 1.0
    P = [cF(p) for p in params]
    n = len(P) - 1
    tt = Fraction(t)
    d = bez_deriv_exact(params, t, 1)
    dn = math.sqrt(float(d[0] * d[0] + d[1] * d[1]))
    if dn == 0:
        m = max(abs(d[0]), abs(d[1]))
        dn = float(m) if m else 0.0
    tot = 0.0
    for i in range(n):
        w = n * math.comb(n - 1, i) * abs(float((1 - tt) ** (n - 1 - i) * tt ** i))
        dx, dyy = P[i + 1][0] - P[i][0], P[i + 1][1] - P[i][1]
        m = max(abs(dx), abs(dyy))
        if m:
            tot += w * float(m) * math.hypot(float(dx / m), float(dyy / m))
    return tot / dn if dn else float('inf')


def scale_of(kind, params):
    if kind == 'arc':
        return max(abs(params[1].real), abs(params[1].imag), abs(params[5] - params[0]), 1e-300)
    return max([abs(p - params[0]) for p in params[1:]] + [1e-300])


def replay_of(kind, params, t, mode, extra=None):
    if kind == 'arc':
        ps = [common.chex(params[0]), common.chex(params[1]), common.fhex(params[2]), bool(params[3]),
              bool(params[4]), common.chex(params[5])]
    else:
        ps = [common.chex(p) for p in params]
    r = {'kind': 'case', 'segment': kind, 'params': ps, 't': common.fhex(t), 'mode': mode,
         'repr': '%s at t=%r' % (build(kind, params), t), 'how': './check C15 --replay <this file>'}
    if extra: r.update(extra)
    return r


def params_from_replay(r):
    kind = r['segment']
    ps = r['params']
    cx = lambda a: complex(float.fromhex(a[0]), float.fromhex(a[1]))
    if kind == 'arc':
        params = [cx(ps[0]), cx(ps[1]), float.fromhex(ps[2]), ps[3], ps[4], cx(ps[5])]
    else:
        params = [cx(p) for p in ps]
    return kind, params, float.fromhex(r['t']), r.get('mode', 'replay')


def check_impl(rep, kind, params, t, mode, o, stats):
    """the property evaluated on the implementation; returns True when the
    case is a regular point (used for the transform checks)"""
    import numpy as np
    seg = o['seg']
    d, dd = exact_derivs(kind, params, seg, t)
    sc = scale_of(kind, params)
    dnorm = math.sqrt(float(d[0] * d[0] + d[1] * d[1]))
    singular = (d[0] == 0 and d[1] == 0)
    stu, u, wu = o['ut']
    stn, nrm, wn = o['nm']
    stk, kv, wk = o['k']
    V = lambda what, key, extra=None: rep.violation('C15: ' + what, replay_of(kind, params, t, mode, extra), key=key)

    if singular:
        stats['singular'] += 1
        dirs = inside_dirs(kind, params, t) if kind != 'arc' else []
        if not dirs:                      # derivative identically zero: no direction exists
            stats['degenerate'] += 1
            return False
        bad = (stu != ST_VAL) or not finite(u) or abs(abs(complex(u)) - 1) > TOL_SING \
            or all(min(abs(complex(u) - x), abs(complex(u) + x)) > TOL_SING for x in dirs)
        if bad and float_zero_tests_wrong(seg, params, t):
            # root cause: the zero tests of rational_limit are decided by rounding noise
            V('unit_tangent(%r) %s at a zero of the derivative (limit from inside %r): rational_limit tests '
              'g(t0) != 0 / f(t0) == 0 on binary64 Horner sums that are not exactly zero'
              % (t, 'raises ValueError' if stu != ST_VAL else '= %r (modulus %r)' % (u, abs(complex(u))), dirs),
              'unit-tangent-singular-roundoff', {'got': str(u), 'status': stu, 'inside': [str(x) for x in dirs]})
            return False
        if stu != ST_VAL:
            V('unit_tangent raises at a point where the limit of derivative/|derivative| exists (%s)' % dirs,
              'unit-tangent-singular-raises', {'status': stu})
            return False
        u = complex(u)
        if not finite(u):
            V('unit_tangent is not finite (%r) at a zero of the derivative' % u, 'unit-tangent-singular-nan')
            return False
        if abs(abs(u) - 1) > TOL_SING:
            V('unit_tangent has modulus %r at a zero of the derivative (value %r, limit from inside %r)'
              % (abs(u), u, dirs), 'unit-tangent-singular-modulus', {'got': str(u), 'inside': [str(x) for x in dirs]})
        elif all(abs(u - x) > TOL_SING for x in dirs):
            if any(abs(u + x) <= TOL_SING for x in dirs):
                V('unit_tangent(%r) = %r is the NEGATIVE of derivative/|derivative| just inside the interval (%r)'
                  % (t, u, dirs), 'unit-tangent-singular-sign', {'got': str(u), 'inside': [str(x) for x in dirs]})
            else:
                V('unit_tangent(%r) = %r differs from derivative/|derivative| just inside the interval (%r)'
                  % (t, u, dirs), 'unit-tangent-singular-value', {'got': str(u), 'inside': [str(x) for x in dirs]})
        else:
            stats['singular_ok'] += 1
        if stn == ST_VAL and abs(complex(nrm) - (-1j) * u) > 1e-12:
            V('normal != -1j*unit_tangent at a singular point', 'normal-not-rot')
        # the same segment with numpy.complex128 control points must give the same answer
        seg_np = build(kind, [np.complex128(p) for p in params])
        st2, u2, w2 = call(seg_np.unit_tangent, t)
        if st2 != ST_VAL or not finite(u2) or abs(complex(u2) - u) > 1e-9:
            V('with numpy.complex128 control points unit_tangent(%r) = %r (with Python complex: %r): the '
              'ZeroDivisionError fallback is not reached for numpy scalars (nan + RuntimeWarning %s)'
              % (t, u2, u, w2[:1]), 'unit-tangent-singular-nan-numpy', {'got': str(u2), 'python_complex': str(u)})
        return False

    # regular point, however small the derivative: the direction is judged against the exact
    # derivative quotient with a tolerance that follows the conditioning of the binary64 evaluation
    cond = conditioning(kind, params, t)
    tol_u = TOL_REG + 64 * 2.0 ** -53 * cond
    if tol_u > 1e-3:          # the cancellation leaves fewer than 3 digits of the direction
        stats['near_singular_skipped'] += 1
        return False
    well = cond <= 50         # curvature / transforms / Path only where binary64 keeps ~1e-9
    stats['regular'] += 1
    if dnorm <= 1e-8: stats['regular_tiny_derivative'] += 1
    ex = fdir(d)
    if stu != ST_VAL or stn != ST_VAL or stk != ST_VAL:
        V('unit_tangent/normal/curvature raises at a regular point (statuses %s)' % ((stu, stn, stk),),
          'regular-raises')
        return False
    u, nrm, kv = complex(u), complex(nrm), float(kv)
    if abs(abs(u) - 1) > TOL_REG:
        V('|unit_tangent| = %r != 1' % abs(u), 'unit-modulus')
    if abs(u - ex) > tol_u:
        V('unit_tangent = %r but derivative/|derivative| = %r (|derivative| = %r, tolerance %.1e)'
          % (u, ex, dnorm, tol_u), 'unit-not-quotient')
    if abs(nrm - (-1j) * u) > 1e-12:
        V('normal = %r is not the unit tangent rotated by -90 degrees (%r)' % (nrm, -1j * u), 'normal-not-rot')
    if kind == 'line':
        if kv != 0:
            V('Line.curvature = %r != 0' % kv, 'line-curvature')
    elif well:
        ke = kappa_exact(d, dd)
        ddn = math.sqrt(float(dd[0] * dd[0] + dd[1] * dd[1]))
        tolk = TOL_REG * (ke + ddn / dnorm ** 2) + 1e-300
        if abs(kv - ke) > tolk:
            V("curvature = %r but |x'y''-y'x''|/|(x',y')|^3 = %r" % (kv, ke), 'curvature-formula')
        if kind == 'arc' and params[1].real == params[1].imag:
            r = seg.radius.real
            if abs(kv - 1 / r) > 1e-7 / r:
                V('curvature of a circular arc of radius %r is %r' % (r, kv), 'arc-circle-curvature')
    if kind == 'arc':       # direction of travel by central difference of point()
        h = 1e-6
        a, b = max(0.0, t - h), min(1.0, t + h)
        ch = complex(seg.point(b)) - complex(seg.point(a))
        if abs(ch) > 0 and abs(u - ch / abs(ch)) > 1e-4:
            V('Arc.unit_tangent = %r but the chord direction is %r' % (u, ch / abs(ch)), 'arc-tangent-direction')
    return well


def check_transforms(rep, rng, kind, params, t, mode, o, stats):
    seg = o['seg']
    u, kv = complex(o['ut'][1]), float(o['k'][1])
    V = lambda what, key, extra=None: rep.violation('C15: ' + what, replay_of(kind, params, t, mode, extra), key=key)
    sc = scale_of(kind, params)
    z0 = complex(rng.uniform(-3, 3), rng.uniform(-3, 3)) * sc
    deg = rng.choice([90.0, 180.0, -90.0, 45.0, rng.uniform(-180, 180)])
    lam = rng.choice([2.0, 0.5, 3.0, rng.uniform(0.1, 10)])
    org = complex(rng.uniform(-2, 2), rng.uniform(-2, 2)) * sc
    tolk = 1e-7 * (abs(kv) + 1 / sc)
    trials = [('translated', lambda s: s.translated(z0), 1.0 + 0j, 1.0, t),
              ('rotated', lambda s: s.rotated(deg, origin=org), cmath.exp(1j * math.radians(deg)), 1.0, t),
              ('scaled', lambda s: s.scaled(lam, origin=org), 1.0 + 0j, lam, t),
              # a copy drawn in tiny units (about the origin: pure multiplication, well conditioned)
              ('scaled-tiny', lambda s: s.scaled(1e-9), 1.0 + 0j, 1e-9, t)]
    for name, f, rot, scl, tt in trials:
        try:
            s2 = f(seg)
            u2, k2 = complex(s2.unit_tangent(tt)), float(s2.curvature(tt))
        except Exception as e:      # the transform itself failing is property C10's subject
            stats['transform_raised'] += 1
            stats.setdefault('transform_errors', set()).add('%s %s: %s' % (name, kind, type(e).__name__))
            continue
        stats['transform_checks'] += 1
        if abs(u2 - rot * u) > 1e-7:
            V('%s: unit_tangent = %r, expected the original rotated: %r' % (name, u2, rot * u),
              'tangent-' + name, {'transform': name, 'z0': str(z0), 'deg': deg, 'lam': lam, 'origin': str(org)})
        if abs(k2 - kv / scl) > tolk / scl:
            V('%s: curvature = %r, expected %r' % (name, k2, kv / scl),
              'curvature-' + name, {'transform': name, 'z0': str(z0), 'deg': deg, 'lam': lam, 'origin': str(org)})
    try:
        s2 = seg.reversed()
        u2, k2 = complex(s2.unit_tangent(1 - t)), float(s2.curvature(1 - t))
        stats['transform_checks'] += 1
        # 1 - t is rounded: allow for the change of the tangent over one ulp of t
        if abs(u2 + u) > 1e-7:
            V('reversed: unit_tangent(1-t) = %r, expected %r' % (u2, -u), 'tangent-reversed')
        if abs(k2 - kv) > tolk:
            V('reversed: curvature(1-t) = %r, expected %r' % (k2, kv), 'curvature-reversed')
    except Exception as e:
        stats['transform_raised'] += 1
        stats.setdefault('transform_errors', set()).add('reversed %s: %s' % (kind, type(e).__name__))


def path_obs(rep, rng, kind, params, t, mode, o, stats):
    """Path.unit_tangent / normal / curvature through T2t.  Returns (flag, L, k)"""
    from svgpathtools import Path, Line
    seg = o['seg']
    if not (0.05 < t < 0.95):
        return (False, 1.0, 0.0)
    pre = Line(seg.start - complex(1.5, 0.5) * scale_of(kind, params), seg.start)
    post = Line(seg.end, seg.end + complex(0.5, -1.25) * scale_of(kind, params))
    path = Path(pre, seg, post)
    try:
        T = path.t2T(1, t)
        k_idx, t2 = path.T2t(T)
        if k_idx != 1 or abs(t2 - t) > 1e-9:
            return (False, 1.0, 0.0)
        pu, pn, pk = complex(path.unit_tangent(T)), complex(path.normal(T)), float(path.curvature(T))
        u2, k2 = complex(seg.unit_tangent(t2)), float(seg.curvature(t2))
        L = float(seg.length())
    except Exception as e:
        rep.violation('C15: Path.unit_tangent/normal/curvature raised %s' % type(e).__name__,
                      replay_of(kind, params, t, mode, {'error': repr(e)}), key='path-raises')
        return (False, 1.0, 0.0)
    stats['path_checks'] += 1
    if abs(pu - u2) > 1e-12 or abs(pn + 1j * u2) > 1e-12:
        rep.violation('C15: Path.unit_tangent/normal differ from the segment\'s at T2t(T)',
                      replay_of(kind, params, t, mode), key='path-tangent')
    if abs(pk - k2) > 1e-6 * (abs(k2) + 1 / scale_of(kind, params)):
        rep.violation('C15: Path.curvature = %r, the segment\'s curvature there is %r' % (pk, k2),
                      replay_of(kind, params, t, mode), key='path-curvature')
    # the Coq comparison uses t2 (what T2t returned), not t
    return (True, L, pk) if t2 == t else (False, 1.0, 0.0)


# ------------------------------------------------- Path.curvature at joints
def detect_joins_variant():
    """'isclose' when QuadraticBezier/Arc.joins_smoothly_with compare tangents with a tolerance by
    default (fix C15-joins-smoothly-quad-arc), 'exact' for the pinned error=0 comparison; detected on
    the two pieces of a split quadratic whose unit tangents differ by one ulp"""
    from svgpathtools import QuadraticBezier
    a, b = QuadraticBezier(0j, 1 + 2j, 3 + 1j).split(0.4)
    try:
        if a.unit_tangent(1) == b.unit_tangent(0):
            return 'undetermined'
        return 'isclose' if b.joins_smoothly_with(a) else 'exact'
    except Exception:
        return 'undetermined'


def kind_of(seg):
    return {'Line': 'line', 'QuadraticBezier': 'quad', 'CubicBezier': 'cubic', 'Arc': 'arc'}[type(seg).__name__]


def end_dirs(seg):
    """(direction at t=0, direction at t=1) from the exact derivative (Beziers) or Arc.derivative"""
    k = kind_of(seg)
    if k == 'arc':
        a, b = complex(seg.derivative(0.0)), complex(seg.derivative(1.0))
        return (a / abs(a) if a else None), (b / abs(b) if b else None)
    ps = params_of(k, seg)
    return fdir(bez_deriv_exact(ps, 0, 1)), fdir(bez_deriv_exact(ps, 1, 1))


def joint_paths(rng, n):
    """paths with smooth joints (pieces of a split cubic / quadratic / arc, collinear lines, a line
    tangent to the following or preceding curve, smooth closed loops) and with genuine kinks.
    Yields (name, [segments])"""
    from svgpathtools import Line, QuadraticBezier, CubicBezier, Arc
    def pt(sc=10.0):
        return complex(rng.uniform(-sc, sc), rng.uniform(-sc, sc))
    def dpt():
        return dyc(rng, lo=-16, hi=16)
    def cubic():
        return CubicBezier(pt(), pt(), pt(), pt())
    shapes = ['split-cubic', 'split-cubic3', 'collinear-lines', 'collinear-lines-dyadic', 'line-cubic', 'cubic-line',
              'closed-smooth-cubics', 'closed-polygon', 'kink-lines', 'kink-cubic-line', 'kink-cubics-closed',
              'split-quad', 'split-arc', 'line-quad', 'quad-line', 'arc-arc-circle', 'cubic-arc-mixed',
              'kink-line-quad', 'kink-quad-arc', 'small-kink-line', 'small-kink-cubic', 'small-kink-quad',
              'small-kink-arc']
    for i in range(n):
        sh = shapes[i % len(shapes)]
        t0 = rng.choice([0.5, 0.25, 0.75, rng.uniform(0.1, 0.9)])
        if sh == 'split-cubic':
            segs = list(cubic().split(t0))
        elif sh == 'split-cubic3':
            a, b = cubic().split(t0)
            b1, b2 = b.split(rng.choice([0.5, rng.uniform(0.2, 0.8)]))
            segs = [a, b1, b2]
        elif sh in ('collinear-lines', 'collinear-lines-dyadic'):
            a = dpt() if sh.endswith('dyadic') else pt()
            v = heading(rng, i % 8, True) if sh.endswith('dyadic') else pt(3)
            l1, l2 = rng.choice([1, 2, 0.5, 3]), rng.choice([1, 2, 0.5, 4])
            b = a + v * l1
            c = b + (b - a) * l2
            segs = [Line(a, b), Line(b, c)]
            if rng.random() < 0.5:
                segs.append(Line(c, c + (c - b) * 0.5))
        elif sh == 'line-cubic':
            a, b = pt(), pt()
            segs = [Line(a, b), CubicBezier(b, b + (b - a) * rng.uniform(0.2, 2), pt(), pt())]
        elif sh == 'cubic-line':
            c = cubic()
            segs = [c, Line(c.end, c.end + (c.end - c.control2) * rng.uniform(0.2, 2))]
        elif sh == 'closed-smooth-cubics':
            p, q, v, w = pt(), pt(), pt(4), pt(4)
            segs = [CubicBezier(p, p + v, q - w, q), CubicBezier(q, q + w, p - v, p)]
        elif sh == 'closed-polygon':
            a, b, c = pt(), pt(), pt()
            segs = [Line(a, b), Line(b, c), Line(c, a)]
        elif sh == 'kink-lines':
            a, b = pt(), pt()
            c = b + (b - a) * cmath.exp(1j * rng.choice([1, -1]) * rng.uniform(0.3, 2.8))
            segs = [Line(a, b), Line(b, c)]
        elif sh == 'kink-cubic-line':
            c = cubic()
            d = (c.end - c.control2) * cmath.exp(1j * rng.choice([1, -1]) * rng.uniform(0.3, 2.8))
            segs = [c, Line(c.end, c.end + d)] if rng.random() < 0.5 else [Line(c.start - d, c.start), c]
        elif sh == 'kink-cubics-closed':
            p, q = pt(), pt()
            segs = [CubicBezier(p, pt(), pt(), q), CubicBezier(q, pt(), pt(), p)]
        elif sh == 'kink-line-quad':
            a, b = pt(), pt()
            d = (b - a) * cmath.exp(1j * rng.choice([1, -1]) * rng.uniform(0.3, 2.8))
            segs = [Line(a, b), QuadraticBezier(b, b + d, pt())]
        elif sh == 'kink-quad-arc':
            q = QuadraticBezier(pt(), pt(), pt())
            segs = [q, Arc(q.end, complex(3, 2), 0.0, False, rng.random() < 0.5, q.end + pt(3))]
            da, db = end_dirs(segs[0])[1], end_dirs(segs[1])[0]
            if abs(da - db) < 0.1:      # accidentally tangent: turn it into a plain kink
                segs[1] = Arc(q.end, complex(3, 2), 0.0, False, not segs[1].sweep, segs[1].end)
        elif sh.startswith('small-kink'):
            # a kink of 1e-3 .. 3e-2 rad: far above the np.isclose tolerance (~1e-5) of joins_smoothly_with
            a, b = pt(), pt()
            d = (b - a) * cmath.exp(1j * rng.choice([1, -1]) * 10 ** rng.uniform(-3, -1.5))
            if sh.endswith('line'):
                nxt = Line(b, b + d)
            elif sh.endswith('cubic'):
                nxt = CubicBezier(b, b + d, pt(), pt())
            elif sh.endswith('quad'):
                nxt = QuadraticBezier(b, b + d, pt())
            else:
                # circle arc leaving b in direction d/|d|: centre to the left of the direction of travel
                u = d / abs(d)
                r = rng.uniform(1, 4)
                c0 = b + 1j * u * r
                ang = rng.uniform(0.3, 2.0)
                nxt = Arc(b, complex(r, r), 0.0, False, True, c0 + (b - c0) * cmath.exp(1j * ang))
            segs = [Line(a, b), nxt]
        elif sh == 'split-quad':
            segs = list(QuadraticBezier(pt(), pt(), pt()).split(t0))
        elif sh == 'split-arc':
            r = rng.uniform(1, 5)
            arc = Arc(pt(), complex(r, r * rng.choice([1, 1, rng.uniform(0.5, 2)])), rng.choice([0.0, 30.0, rng.uniform(-90, 90)]),
                      rng.random() < 0.5, rng.random() < 0.5, pt())
            segs = list(arc.split(t0))
        elif sh == 'line-quad':
            a, b = pt(), pt()
            segs = [Line(a, b), QuadraticBezier(b, b + (b - a) * rng.uniform(0.2, 2), pt())]
        elif sh == 'quad-line':
            q = QuadraticBezier(pt(), pt(), pt())
            segs = [q, Line(q.end, q.end + (q.end - q.control) * rng.uniform(0.2, 2))]
        elif sh == 'arc-arc-circle':
            c0, r = pt(), rng.uniform(1, 5)
            a0, a1, a2 = sorted(rng.uniform(0, 2 * math.pi) for _ in range(3))
            P = [c0 + r * cmath.exp(1j * a) for a in (a0, a1, a2)]
            segs = [Arc(P[0], complex(r, r), 0.0, (a1 - a0) > math.pi, True, P[1]),
                    Arc(P[1], complex(r, r), 0.0, (a2 - a1) > math.pi, True, P[2])]
        else:   # a cubic leaving an arc tangentially (later segment is a cubic) and an arc after a line
            a0 = pt()
            arc = Arc(a0, complex(3, 3), 0.0, False, True, a0 + complex(2, 2))
            d = complex(arc.derivative(1.0))
            segs = [arc, CubicBezier(arc.end, arc.end + d / abs(d) * rng.uniform(0.5, 2), pt(), pt())]
        yield sh, segs


def seg_hex(seg):
    k = kind_of(seg)
    ps = params_of(k, seg)
    if k == 'arc':
        return [k, [common.chex(ps[0]), common.chex(ps[1]), common.fhex(ps[2]), ps[3], ps[4], common.chex(ps[5])]]
    return [k, [common.chex(q) for q in ps]]


def segs_from_hex(lst):
    out = []
    cx = lambda a: complex(float.fromhex(a[0]), float.fromhex(a[1]))
    for k, ps in lst:
        if k == 'arc':
            out.append(build(k, [cx(ps[0]), cx(ps[1]), float.fromhex(ps[2]), ps[3], ps[4], cx(ps[5])]))
        else:
            out.append(build(k, [cx(q) for q in ps]))
    return out


def check_joints(rep, name, segs, stats):
    """Path.curvature at T = 0, 1 and exactly on every joint: the finite curvature of the segment
    T2t resolves to when the joint is smooth (same point, unit tangents equal to within np.isclose:
    the contract of joins_smoothly_with), inf only at genuine kinks"""
    import numpy as np
    from svgpathtools import Path
    path = Path(*segs)
    n = len(segs)
    closed = path.end == path.start
    Ts = [('T=0', 0), ('T=1', 1), ('T=0.0', 0.0), ('T=1.0', 1.0)]
    for i in range(n - 1):
        Ts.append(('t2T(%d,1)' % i, path.t2T(i, 1)))
        Ts.append(('t2T(%d,0)' % (i + 1), path.t2T(i + 1, 0)))
    dirs = [end_dirs(sg) for sg in segs]
    for label, T in Ts:
        rp = {'kind': 'path-joint', 'shape': name, 'segments': [seg_hex(sg) for sg in segs],
              'T': common.fhex(T), 'label': label, 'repr': '%r .curvature(%r) [%s]' % (path, T, label),
              'how': './check C15 --replay <this file>'}
        try:
            k, t = path.T2t(T)
            val = float(path.curvature(T))
        except Exception as e:
            rep.violation('C15: Path.curvature(%r) raised %s on %s' % (T, type(e).__name__, name),
                          dict(rp, error=repr(e)), key='path-curvature-raises')
            continue
        stats['joint_evals'] += 1
        t = float(t)
        # which joint (if any) the code has to examine, per its own rule
        jt = None
        if np.isclose(t, 0) and (k != 0 or closed):
            jt = ((k - 1) % n, k)
        elif np.isclose(t, 1) and (k != n - 1 or closed):
            jt = (k, (k + 1) % n)
        seg = segs[k]
        kk = kind_of(seg)
        if kk == 'arc':
            expect = float(seg.curvature(t))
        elif kk == 'line':
            expect = 0.0
        else:
            ps = params_of(kk, seg)
            expect = kappa_exact(bez_deriv_exact(ps, t, 1), bez_deriv_exact(ps, t, 2))
        tol = 1e-6 * (abs(expect) + 1e-3)
        if jt is None:
            stats['joint_open_ends'] += 1
            if not (abs(val - expect) <= tol):
                rep.violation('C15: Path.curvature(%r) = %r at an end of an open path, the segment\'s curvature is %r'
                              % (T, val, expect), rp, key='path-curvature-end-value')
            continue
        a, b = jt
        da, db = dirs[a][1], dirs[b][0]
        same_pt = segs[a].end == segs[b].start
        if da is None or db is None:
            continue
        dev = abs(da - db)
        if same_pt and dev <= 1e-9:
            stats['joint_smooth'] += 1
            later = type(segs[b]).__name__
            if math.isinf(val):
                if later in ('QuadraticBezier', 'Arc'):
                    rep.violation('C15: Path.curvature(%r) = inf at a SMOOTH joint (%s, unit tangents differ by %.1e): '
                                  '%s.joins_smoothly_with compares the unit tangents with error=0 (exact equality)'
                                  % (T, name, dev, later), dict(rp, later=later),
                                  key='path-curvature-inf-at-smooth-quad-arc-joint')
                else:
                    rep.violation('C15: Path.curvature(%r) = inf at a SMOOTH joint (%s; resolved to segment %d, t=%r; '
                                  'unit tangents differ by %.1e); expected the finite curvature %r'
                                  % (T, name, k, t, dev, expect), dict(rp, later=later),
                                  key='path-curvature-inf-at-smooth-joint')
            elif not (abs(val - expect) <= tol):
                rep.violation('C15: Path.curvature(%r) = %r at a smooth joint (%s), the curvature of segment %d there is %r'
                              % (T, val, name, k, expect), rp, key='path-curvature-joint-value')
        elif (not same_pt) or dev > 5e-4:     # np.isclose on unit tangents tolerates ~1.001e-5
            stats['joint_kink'] += 1
            if not math.isinf(val):
                rep.violation('C15: Path.curvature(%r) = %r at a kink (%s: directions %r -> %r), expected inf'
                              % (T, val, name, da, db), rp, key='path-curvature-finite-at-kink')


# ------------------------------------------- covariance under similarity transforms
def detect_scale_variant():
    """'control-points' when scaled() of a Bezier keeps coincident control points coincident (the
    affine map is applied to the control points), 'power-basis' for the pinned detour through
    bez2poly/poly2bez, which loses control2 == end to rounding"""
    from svgpathtools import CubicBezier
    try:
        lost = 0
        for sc_ in (0.3, 1.7, 0.7, 3.3):
            c = CubicBezier(0j, 1 + 2j, 3 + 1j, 3 + 1j).scaled(sc_)
            lost += (c.control2 != c.end)
        return 'power-basis' if lost else 'control-points'
    except Exception:
        return 'undetermined'


def true_dir(kind, params, seg, t):
    """exact oracle of the direction of travel at t: derivative/|derivative|, at a zero of the
    derivative its limit from inside [0,1] (first non-vanishing derivative, sign (-1)^(n-1) at
    t = 1).  Returns (direction or None, singular, cusp) -- cusp: interior zero of odd order, where
    the two one-sided limits differ and reversal cannot be judged"""
    if kind == 'arc':
        d = complex(seg.derivative(t))
        return (d / abs(d) if d else None), False, False
    for n in range(1, len(params)):
        d = bez_deriv_exact(params, t, n)
        if d != (0, 0):
            u = fdir(d)
            if n > 1 and t == 1 and n % 2 == 0:
                u = -u
            return u, n > 1, (n % 2 == 0 and 0 < t < 1)
    return None, True, False


def similarity_transforms(rng, sc, bezier):
    """[(name, apply, tangent map, curvature factor, reverses)] -- base transforms"""
    z0 = complex(rng.uniform(-3, 3), rng.uniform(-3, 3)) * sc
    deg = rng.choice([90.0, 180.0, -90.0, 45.0, 30.0, rng.uniform(-180, 180)])
    rot = cmath.exp(1j * math.radians(deg))
    org = complex(rng.uniform(-2, 2), rng.uniform(-2, 2)) * sc
    s1 = rng.choice([0.3, 1.7, 2.0, 0.5, 3.0, rng.uniform(0.1, 10)])
    s2 = rng.choice([0.3, 1.7, 0.7, rng.uniform(0.1, 10)])
    L = [('translated', lambda g: g.translated(z0), lambda u: u, 1.0, False),
         ('rotated', lambda g: g.rotated(deg, origin=org), lambda u: u * rot, 1.0, False),
         ('scaled(s>0)', lambda g: g.scaled(s1), lambda u: u, 1 / s1, False),
         ('scaled(s>0,origin)', lambda g: g.scaled(s2, origin=org), lambda u: u, 1 / s2, False),
         ('scaled(s<0)', lambda g: g.scaled(-s2), lambda u: -u, 1 / s2, False),
         ('scaled(s<0,origin)', lambda g: g.scaled(-s1, origin=org), lambda u: -u, 1 / s1, False),
         ('reversed', lambda g: g.reversed(), lambda u: u, 1.0, True)]
    if bezier:      # reflections are similarities too: z -> s conj(z), z -> -s conj(z)
        L += [('scaled(s,-s)', lambda g: g.scaled(s1, -s1), lambda u: u.conjugate(), 1 / s1, False),
              ('scaled(-s,s,origin)', lambda g: g.scaled(-s2, s2, origin=org), lambda u: -u.conjugate(), 1 / s2, False)]
    return L, {'z0': str(z0), 'deg': deg, 'origin': str(org), 's1': s1, 's2': s2}


def compose(a, b):
    return (a[0] + ' then ' + b[0], lambda g: b[1](a[1](g)), lambda u: b[2](a[2](u)), a[3] * b[3], a[4] != b[4])


def check_covariance(rep, rng, kind, params, t, mode, stats):
    seg = build(kind, params)
    T0, singular, cusp = true_dir(kind, params, seg, t)
    if T0 is None:
        return
    if singular and 0 < t < 1:
        # an interior zero of the derivative exists through exact cancellation between the control
        # points, not through coincident control points: no floating-point map of the control points
        # preserves it (the image is a curve with a near-cusp there): not a covariance question
        stats['cov_interior_singular_skipped'] += 1
        return
    if not singular and conditioning(kind, params, t) > 50:
        stats['cov_ill_conditioned_skipped'] += 1
        return
    sc = scale_of(kind, params)
    base, tparams = similarity_transforms(rng, sc, kind != 'arc')
    chain = list(base)
    for _ in range(4):
        chain.append(compose(rng.choice(base), rng.choice(base)))
    k0 = None
    if not singular:
        try: k0 = float(seg.curvature(t))
        except Exception: k0 = None
    stats['cov_cases'] += 1
    from svgpathtools import Path, Line
    for name, f, tmap, kfac, rev in chain:
        if rev and cusp:
            continue
        ti = 1 - t if rev else t
        E = tmap(T0) * (-1 if rev else 1)
        rp = lambda extra=None: replay_of(kind, params, t, mode, dict({'stream': 'covariance', 'transform': name,
                                                                       'transform_params': tparams}, **(extra or {})))
        try:
            img = f(seg)
            got = complex(img.unit_tangent(ti))
            nrm = complex(img.normal(ti))
            kimg = float(img.curvature(ti)) if k0 is not None else None
        except Exception as e:
            rep.violation('C15: %s of the segment, then unit_tangent/normal/curvature(%r) raised %s'
                          % (name, ti, type(e).__name__), rp({'error': repr(e)}), key='cov-raises')
            continue
        stats['cov_checks'] += 1
        if not (finite(got) and abs(got - E) <= 1e-7):
            key = 'cov-tangent'
            what = ''
            if singular and 'scaled' in name and kind in ('quad', 'cubic'):
                ik = kind_of(img)
                if ik in ('quad', 'cubic') and bez_deriv_exact(params_of(ik, img), ti, 1) != (0, 0):
                    key = 'scaled-singular-bezier-tangent-from-noise'
                    what = (' -- scaled() went through the power basis: the coincident control points of the original '
                            'are no longer equal in the image (%r), so the derivative there is rounding noise'
                            % (list(img.bpoints()),))
            rep.violation('C15: %s: unit_tangent(%r) of the image = %r, expected the mapped direction of travel %r%s'
                          % (name, ti, got, E, what), rp({'got': str(got), 'expected': str(E)}), key=key)
            continue
        if abs(nrm - (-1j) * got) > 1e-12:
            rep.violation('C15: %s: normal of the image is not -1j*unit_tangent' % name, rp(), key='cov-normal')
        if k0 is not None and kimg is not None:
            if abs(kimg - k0 * kfac) > 1e-6 * (abs(k0) + 1 / sc) * kfac:
                rep.violation('C15: %s: curvature(%r) of the image = %r, expected %r' % (name, ti, kimg, k0 * kfac),
                              rp({'got': kimg, 'expected': k0 * kfac}), key='cov-curvature')
    # Path level: the same segment inside a path, the transform applied to the path
    pre = Line(seg.start - complex(1.5, 0.5) * sc, seg.start)
    post = Line(seg.end, seg.end + complex(0.5, -1.25) * sc)
    path = Path(pre, seg, post)
    for name, f, tmap, kfac, rev in rng.sample(base, 4):
        if rev and cusp:
            continue
        ti = 1 - t if rev else t
        E = tmap(T0) * (-1 if rev else 1)
        try:
            ip = f(path)
            Tm = ip.t2T(1, ti)
            kk, tt = ip.T2t(Tm)
            if kk != 1 or tt != ti:
                stats['cov_path_unresolved'] += 1
                continue
            got = complex(ip.unit_tangent(Tm))
            kimg = float(ip.curvature(Tm)) if (k0 is not None and 0.05 < ti < 0.95) else None
        except Exception as e:
            rep.violation('C15: Path.%s then Path.unit_tangent/curvature raised %s' % (name, type(e).__name__),
                          replay_of(kind, params, t, mode, {'stream': 'covariance-path', 'transform': name,
                                                            'transform_params': tparams, 'error': repr(e)}),
                          key='cov-path-raises')
            continue
        stats['cov_path_checks'] += 1
        if not (finite(got) and abs(got - E) <= 1e-7):
            key = 'cov-path-tangent'
            if singular and 'scaled' in name and kind in ('quad', 'cubic'):
                ik = kind_of(ip[1])
                if ik in ('quad', 'cubic') and bez_deriv_exact(params_of(ik, ip[1]), ti, 1) != (0, 0):
                    key = 'scaled-singular-bezier-tangent-from-noise'
            rep.violation('C15: Path.%s: Path.unit_tangent at the mapped T = %r, expected %r' % (name, got, E),
                          replay_of(kind, params, t, mode, {'stream': 'covariance-path', 'transform': name,
                                                            'transform_params': tparams, 'got': str(got), 'expected': str(E)}),
                          key=key)
        elif kimg is not None and abs(kimg - k0 * kfac) > 1e-6 * (abs(k0) + 1 / sc) * kfac:
            rep.violation('C15: Path.%s: Path.curvature at the mapped T = %r, expected %r' % (name, kimg, k0 * kfac),
                          replay_of(kind, params, t, mode, {'stream': 'covariance-path', 'transform': name,
                                                            'transform_params': tparams}), key='cov-path-curvature')


def covariance_stream(rng, n):
    """segments of every kind including the singular ones (coincident first/last control points, 8
    headings, exact and generic coordinates), t in {0, 1, interior dyadic grid}"""
    grid = [0.0, 1.0, 0.0, 1.0, 0.25, 0.5, 0.75, 0.125, 0.875]
    for i in range(n):
        if i % 5 < 3:
            kind, params, t, mode = gen_singular(rng, rng.randrange(10 ** 6))
            if rng.random() < 0.3:
                t = rng.choice(grid)
        else:
            kind, params, t, mode = gen_regular(rng)
            t = rng.choice(grid)
        yield kind, params, t, 'cov/' + mode


def case_term(kind, params, t, o, pobs, singular=False, generic=False):
    seg = o['seg']
    (su, u, _), (sn, n, _), (sk, k, _) = o['ut'], o['nm'], o['k']
    if not singular:
        # the model is exact to ~1e-30, binary64 only to 2^-53 * conditioning: where cancellation eats
        # the 1e-9 margin the value is judged at implementation level (conditioning-aware tolerance)
        cond = conditioning(kind, params, t)
        if 64 * 2.0 ** -53 * cond > 1e-10: su = sn = ST_SKIP
        if cond > 50: sk = ST_SKIP
    # curvature at a zero of the derivative is outside the property ("at regular points"); its
    # fallback works with degree-12 polynomials whose binary64 coefficients are rounded, so the
    # exact zero tests agree with the model only at t0 = 0 (Horner returns the last coefficient) and
    # for dyadic coordinates (for generic doubles the cross-product polynomial of a straight-line
    # cubic is rounding noise instead of 0 and the implementation raises "Limit does not exist.")
    if singular and (t != 0.0 or generic): sk = ST_SKIP
    # a non-finite value cannot be written as a float literal: judged at implementation level only
    if su == ST_VAL and not finite(u): su = ST_SKIP
    if sn == ST_VAL and not finite(n): sn = ST_SKIP
    if sk == ST_VAL and not math.isfinite(float(k)): sk = ST_SKIP
    return '(%s, %s, (%d, %s), (%d, %s), (%d, %s), (%s, %s, %s))' % (
        seg_term(kind, params, seg), bf(t), su, cval(su, u), sn, cval(sn, n), sk, rval(sk, k),
        common.coq_bool(pobs[0]), bf(pobs[1]), bf(pobs[2]))


def run(rep, tier, seed, replay=None):
    warnings.simplefilter('ignore')
    rng = common.mkrng(seed, 'C15')
    with common.Scratch() as tmp:
        repaired = detect_variant() == 'repaired'
        # the lemmas about the repaired fallback are skipped for a pinned tree, checked for any other
        run_agree = common.run_agree
        if not repaired:
            common.run_agree = lambda vf, td, skip=(): run_agree(vf, td, skip=set(skip) | set(REPAIRED_ONLY))
        try:
            info = common.std_static(rep, 'C15', GEN_GROUPS, AGREE, tmp)
        finally:
            common.run_agree = run_agree
        if not repaired:
            rep.notes.append('pinned fallback detected: agreement lemmas %s (repaired model) skipped' % (REPAIRED_ONLY,))
        rep.cov['variant_joins_smoothly_quad_arc'] = detect_joins_variant()
        rep.cov['variant'] = ('repaired fallback (direction of the first non-vanishing derivative): model flag true'
                              if repaired else 'pinned fallback (rational_limit + principal sqrt): model flag false')
        n_reg, n_sing, n_tiny = (420, 144, 192) if tier == 'quick' else (4200, 1440, 1920)
        if info['agree_failed']:
            n_reg *= 4
        todo = []
        jstats = {k: 0 for k in ('joint_paths', 'joint_evals', 'joint_smooth', 'joint_kink', 'joint_open_ends',
                                 'cov_cases', 'cov_checks', 'cov_path_checks', 'cov_path_unresolved',
                                 'cov_ill_conditioned_skipped', 'cov_interior_singular_skipped')}
        rep.cov['variant_scale_bezier'] = detect_scale_variant()
        if replay and json.load(open(replay))['replay'].get('kind') == 'path-joint':
            r = json.load(open(replay))['replay']
            check_joints(rep, r.get('shape', 'replay'), segs_from_hex(r['segments']), jstats)
        elif replay and json.load(open(replay))['replay'].get('stream', '').startswith('covariance'):
            kind, params, t, mode = params_from_replay(json.load(open(replay))['replay'])
            for rseed in range(8):      # the transform parameters are drawn: try several draws
                check_covariance(rep, common.mkrng(seed, 'C15-cov-replay%d' % rseed), kind, params, t, mode, jstats)
        elif replay:
            r = json.load(open(replay))['replay']
            todo.append(params_from_replay(r))
        else:
            crng = common.mkrng(seed, 'C15-covariance')
            for kind, params, t, mode in covariance_stream(crng, 260 if tier == 'quick' else 2600):
                try:
                    check_covariance(rep, crng, kind, params, t, mode, jstats)
                except Exception:
                    import traceback
                    rep.violation('C15: covariance check crashed', {'kind': 'harness-exception',
                                                                    'traceback': traceback.format_exc()[-1500:]},
                                  found_input=False, key='harness-exception')
            for name, segs in joint_paths(common.mkrng(seed, 'C15-joints'), 230 if tier == 'quick' else 2300):
                jstats['joint_paths'] += 1
                try:
                    check_joints(rep, name, segs, jstats)
                except Exception:
                    import traceback
                    rep.violation('C15: joint check crashed', {'kind': 'harness-exception', 'shape': name,
                                                              'traceback': traceback.format_exc()[-1500:]},
                                  found_input=False, key='harness-exception')
            # corpus: the design's witness first
            todo.append(('cubic', [0j, 0j, -1 + 1j, -2 + 0j], 0.0, 'corpus'))
            todo.append(('cubic', [2 + 0j, 1 + 1j, 0j, 0j], 1.0, 'corpus'))
            todo.append(('quad', [1 + 0j, 0j, 1 + 0j], 0.5, 'corpus-cusp'))
            todo.append(('cubic', [1 + 1j, 1 + 1j, 1 + 1j, 1 + 1j], 0.5, 'corpus-degenerate'))
            for i in range(n_sing):
                todo.append(gen_singular(rng, i))
            for i in range(n_reg):
                todo.append(gen_regular(rng))
            for i in range(n_tiny):
                todo.append(gen_tiny(rng, i))
        stats = {k: 0 for k in ('singular', 'singular_ok', 'degenerate', 'regular', 'regular_tiny_derivative',
                                'near_singular_skipped',
                                'transform_checks', 'transform_raised', 'path_checks', 'coq_skipped_generic_t1')}
        cases, meta, modes, kinds = [], [], {}, {}
        nontrivial = set()
        for kind, params, t, mode in todo:
            modes[mode] = modes.get(mode, 0) + 1
            kinds[kind] = kinds.get(kind, 0) + 1
            try:
                o = observe(kind, params, t)
            except Exception as e:
                rep.violation('C15: implementation raised %s' % type(e).__name__,
                              replay_of(kind, params, t, mode, {'error': repr(e)}), key='impl-exception')
                continue
            try:
                regular = check_impl(rep, kind, params, t, mode, o, stats)
                pobs = (False, 1.0, 0.0)
                # near-end cases: a transform's own rounding moves a control point that sits 1e-12 from
                # its neighbour, which is not the tangent code's doing: no transform checks there
                if regular and not mode.startswith('near-end'):
                    check_transforms(rep, rng, kind, params, t, mode, o, stats)
                    pobs = path_obs(rep, rng, kind, params, t, mode, o, stats)
            except Exception as e:
                import traceback
                rep.violation('C15: property evaluation crashed: %s' % type(e).__name__,
                              replay_of(kind, params, t, mode, {'error': traceback.format_exc()[-1500:]}),
                              found_input=False, key='harness-exception')
                continue
            nontrivial.add((kind, tuple(map(str, params)), t))
            # generic (non-dyadic) coordinates with the zero at t > 0: the zero tests g(t0) == 0 of
            # rational_limit are decided by rounding noise both in binary64 and in the 120-bit model:
            # judged at implementation level only
            # (the repaired fallback has no polynomial zero tests: compared like every other case)
            if mode.endswith('/generic') and t != 0.0 and not repaired:
                stats['coq_skipped_generic_t1'] += 1
                continue
            is_sing = kind != 'arc' and kind != 'line' and bez_deriv_exact(params, t, 1) == (0, 0)
            cases.append(case_term(kind, params, t, o, pobs, singular=is_sing, generic=mode.endswith('/generic')))
            meta.append((kind, params, t, mode, o))
        fails, errors = common.run_cases(tmp, 'From SVP Require Import Base.BigF.\n', 'casety',
                                         OKDEF.replace('@RP@', 'true' if repaired else 'false'), cases,
                                         shard=40, timeout=1500)
        for e in errors:
            rep.violation('correspondence case file failed to evaluate', {'kind': 'cases', 'error': e},
                          found_input=False, key='cases-error')
        for idx, code in fails:
            kind, params, t, mode, o = meta[idx]
            rep.violation('C15: %s (model executed in 120-bit floats, tolerance 1e-9)' % OBS_NAMES.get(code, code),
                          replay_of(kind, params, t, mode,
                                    {'observation': OBS_NAMES.get(code, str(code)),
                                     'observed': {k: [o[k][0], str(o[k][1])] for k in ('ut', 'nm', 'k')}}),
                          key='corr-%d' % code)
        if 'transform_errors' in stats:
            rep.notes.append('transform methods raised (subject of C10, not judged here): %s'
                             % sorted(stats.pop('transform_errors')))
        rep.cov['evaluations'] = len(cases) * 7 + stats['transform_checks'] * 2 + stats['path_checks'] * 3 \
            + stats['regular'] * 4 + stats['singular'] * 3
        rep.cov['traces_validated_against_impl'] = len(cases)
        rep.cov['distinct_nontrivial'] = len(nontrivial)
        rep.cov['rule'] = ('cases = (segment, t); singular cases: Beziers with P0=P1 / P2=P3 / three coincident points / '
                           'interior double zero heading into each of the 8 directions k*45deg (2/3 exact dyadic, 1/3 generic '
                           'doubles); regular cases: random Line/Quadratic/Cubic/Arc (40% circles), scale 1e-2..1e3, offset up to '
                           '20x; tiny-derivative regular cases: segments at scale 1e-9..1e-6, scaled(1e-9) copies (all kinds), Beziers with a '
                           'control point 1e-12..1e-9 from an end point in 8 directions; distinct (segment, t) pairs counted; each case: 3 observations compared inside Coq with the model '
                           'in 120-bit floats (1e-9), the property on the implementation (modulus, quotient at t / t+-1e-6 with '
                           'sign, normal, curvature formula, circle 1/r), 5 transforms incl. scaled(1e-9), Path wrappers; Path.curvature at T=0, 1 and exactly on the joints of paths with '
                           'smooth joints (split cubic/quad/arc, collinear lines, tangent line-curve, closed smooth loops) and kinks; covariance stream: '
                           'every kind incl. singular Beziers, t in {0,1,dyadic grid}: translated/rotated/scaled(s>0,s<0,+-origin)/reflections/reversed and '
                           'compositions of two, segment and Path level, judged against the exact direction of travel of the original')
        stats.update(jstats)
        rep.cov['input_distribution'] = {'kinds': kinds, 'modes': modes, 'stats': stats}
        rep.cov['samples'] = [{'segment': str(m[4]['seg']), 't': m[2], 'unit_tangent': str(m[4]['ut'][1]),
                               'curvature': str(m[4]['k'][1])} for m in meta[:3]]
        if info['agree_failed'] and not rep.violations:
            rep.violation('agreement lemma(s) %s no longer check: generated code differs from the model'
                          % info['agree_failed'],
                          {'kind': 'agreement', 'lemmas': info['agree_failed'],
                           'file': 'coq/GenAgree/Tangent.v', 'messages': info.get('agree_msgs', {})},
                          found_input=False, key='agree')
    # one violation of every class first (the CLI prints the first five replays)
    cnt, order = {}, []
    for v in rep.violations:
        k = v[3] if len(v) > 3 else None
        order.append((cnt.get(k, 0), len(order), v))
        cnt[k] = cnt.get(k, 0) + 1
    rep.violations[:] = [v for _, _, v in sorted(order, key=lambda x: (x[0], x[1]))]
    rep.assumptions += ['120-bit float execution of the model (Base/BigF.v) is accurate to far better than 1e-9 (unverified enclosure)',
                        'numpy poly1d arithmetic (polymul/polyadd/polyder/polyval) is the textbook one (oracle, sampled)',
                        'Arc.derivative is the derivative of Arc.point (property C04); Path.T2t (property C05)',
                        'binary64 rounding: the tangent direction at a regular point is judged with tolerance 1e-9 + 64*2^-53*cond '
                        '(cond = sum|terms of derivative(t)|/|derivative(t)|) however small the derivative; not judged only when that exceeds 1e-3; '
                        'curvature/transform/Path checks where cond <= 50']
