"""C16 — observations after any mutation history equal those of a freshly built
object.  Theorems: coq/Props/C16.v (model coq/Model/PathCache.v).

What runs here
  1. Props/C16.v is re-checked (std_static).
  2. The property itself, on the implementation: every history of <= 3 (quick)
     / <= 4 (thorough) events over a fixed alphabet of 17 mutations and 6
     cache-touching queries, from 3 initial paths, followed by a battery of 14
     queries; plus random histories of 5..60 events; in both configurations
     (svgpathtools.path._quad_available True / False).  Every query answer of
     the mutated Path is compared — floats bitwise, exceptions by class — with
     the answer of a NEW Path built from fresh copies of the current segments.
     Every mutation is also compared with what a plain list does (does it
     raise?).  Segment-level histories (reassign control points, length with
     several tolerances, reversed()) and equal-implies-equal-hash are checked
     the same way.
  3. The tie of the Coq model to the code: for a deterministic sample of those
     histories (all of depth <= 2, a stride sample of the deeper ones, all
     random ones) the events, every observed outcome and the observed final
     private state (_segments data, per-segment caches, _start, _end, _length)
     are written into Coq case files; `check_case` (Model/PathCacheCase.v) runs
     the model — with len_of instantiated by a table measured on FRESH segments
     — and compares inside Coq.  So the model has to predict which cached
     (possibly stale) value the implementation returns.
"""
import os, sys, copy, json, time, warnings, itertools, multiprocessing
from fractions import Fraction
import common
from common import qc, cq, coq_list, coq_bool

DEPS = ['Model/PathCache.v', 'Model/PathCacheExec.v', 'Model/PathCacheCase.v',
        'Proofs/PathCache.v', 'Proofs/PathCacheSeg.v', 'Proofs/PathCacheRefute.v']

# ------------------------------------------------------------------ pools
POOL = {
    'L': ('L', (0j, 2 + 1j)),
    'C': ('C', (2 + 1j, 2.5 + 1.5j, 3.5 + 0.5j, 4 + 1j)),
    'A': ('A', (4 + 1j, 3 + 2j, 20.0, False, True, 5 + 2.5j)),
    'Q': ('Q', (5 + 2.5j, 6 + 3j, 6.5 + 2j)),
    # only used by the random histories
    'L2': ('L', (6.5 + 2j, 1 - 1j)),
    'C2': ('C', (1 - 1j, 0.5 + 0.25j, -1 + 1j, 0j)),
    'A2': ('A', (0j, 2 + 1.5j, -35.0, True, False, 1.5 + 0.5j)),
    # segment-level only: coordinates whose reassignment partner has the SAME Python hash
    # (hash(-1.0) == hash(-2.0); hash(1j) == hash(1000003))
    'Lh': ('L', (-1 + 0j, 3 - 1j)),
    'Qh': ('Q', (-1 + 0j, 1j, 3 - 1j)),
    'Ch': ('C', (-1 + 0j, 1 - 1j, 2 + 2j, 3 - 1j)),
    'Ch2': ('C', (-1 + 0j, 1j, 2 + 2j, 3 - 1j)),
}
PATH_POOL = ['L', 'C', 'A', 'Q', 'L2', 'C2', 'A2']
# for each hash-colliding kind: the values an attribute toggles between (first = the partner)
HVALS = {'Lh': {'start': [-2 + 0j, -1 + 0j], 'end': [3 - 2j, 3 - 1j]},
         'Qh': {'start': [-2 + 0j, -1 + 0j], 'c1': [1000003 + 0j, 1j], 'end': [3 - 2j, 3 - 1j]},
         'Ch': {'start': [-2 + 0j, -1 + 0j], 'c1': [1 - 2j, 1 - 1j], 'end': [3 - 2j, 3 - 1j]},
         'Ch2': {'start': [-2 + 0j, -1 + 0j], 'c1': [1000003 + 0j, 1j], 'end': [3 - 2j, 3 - 1j]}}
PTS = {'z0': 0j, 'z1': 7 + 3j, 'z2': 1 - 1j, 'z3': -2 + 0.5j, 'z4': 2 + 1j}
TOLS = {'T0': (1e-12, 5), 'T1': (1e-2, 5), 'T2': (1e-3, 8)}      # T0 = (LENGTH_ERROR, LENGTH_MIN_DEPTH)
INITS = {'I0': [], 'I1': ['L'], 'I2': ['L', 'C', 'A']}

ALPHABET = [
    ['setitem', 0, 'Q'], ['setitem', -1, 'C'], ['setitem', 2, 'L'],
    ['setslice', 0, 1, ['A', 'L']], ['setslice', None, None, []], ['setslice', 1, None, ['Q']],
    ['insert', 0, 'A'], ['insert', -1, 'C'], ['append', 'Q'], ['extend', ['C', 'L']],
    ['delitem', 0], ['delslice', 1, None], ['pop', -1], ['reverse'],
    ['setstart', 'z1'], ['setend', 'z0'], ['remove', 'L'],
    ['qlength', 'T0'], ['qlength', 'T1'], ['qlength', 'T2'], ['qt2t', 0.3], ['qstart'], ['qend'],
    ['qhash'], ['qeq'],
]
BATTERY = [['qlen'], ['qeq'], ['qhash'], ['qd', False], ['qd', True], ['qbbox'], ['qstart'], ['qend'],
           ['qlength', 'T0'], ['qt2t', 0.3], ['qpoint', 0.3], ['qpoint', 0.7], ['qt2t', 1.0], ['qpoint', 0.0]]
LENGTH_QUERIES = ('qlength', 'qt2t', 'qpoint')
EXN = {'IndexError': 'IndexError', 'ValueError': 'ValueError', 'RuntimeError': 'RuntimeError',
       'Exception': 'BugException', 'AssertionError': 'AssertionError'}

_P = None


def impl():
    global _P
    if _P is None:
        import svgpathtools.path as P
        _P = P
    return _P


def build(name):
    P = impl()
    k, a = POOL[name]
    return {'L': P.Line, 'Q': P.QuadraticBezier, 'C': P.CubicBezier, 'A': P.Arc}[k](*a)


def seg_data(s):
    """current control data of a segment object: (kind, start, end, pay)"""
    P = impl()
    if isinstance(s, P.Line):
        return ('L', complex(s.start), complex(s.end), ())
    if isinstance(s, P.QuadraticBezier):
        return ('Q', complex(s.start), complex(s.end), (complex(s.control),))
    if isinstance(s, P.CubicBezier):
        return ('C', complex(s.start), complex(s.end), (complex(s.control1), complex(s.control2)))
    return ('A', complex(s.start), complex(s.end),
            (complex(s.radius), float(s.rotation), bool(s.large_arc), bool(s.sweep)))


def fresh_copy(s):
    """a fresh segment with the current control data: rebuilt by the
    constructor for the Bezier classes; for an Arc a shallow copy with the
    length cache cleared (reassigning an Arc's end points is outside the
    property: its derived parameters are kept as they are)"""
    P = impl()
    if isinstance(s, P.Line):
        return P.Line(s.start, s.end)
    if isinstance(s, P.QuadraticBezier):
        return P.QuadraticBezier(s.start, s.control, s.end)
    if isinstance(s, P.CubicBezier):
        return P.CubicBezier(s.start, s.control1, s.control2, s.end)
    c = copy.copy(s)
    c.segment_length_hash = None
    c.segment_length = None
    return c


def fresh_path(p):
    return impl().Path(*[fresh_copy(s) for s in p._segments])


def canon(v):
    """canonical, exactly comparable form of a returned value"""
    import numpy as np
    if isinstance(v, (bool, np.bool_)):
        return ('b', bool(v))
    if isinstance(v, (int, np.integer)):
        return ('f', float(v).hex())
    if isinstance(v, (float, np.floating)):
        return ('f', float(v).hex())
    if isinstance(v, (complex, np.complexfloating)):
        return ('c', float(v.real).hex(), float(v.imag).hex())
    if v is None:
        return ('none',)
    if isinstance(v, str):
        return ('s', v)
    if isinstance(v, (tuple, list)):
        return ('t',) + tuple(canon(x) for x in v)
    return ('repr', repr(v))


def eq3(a, b):
    return (a == b) and (b == a) and not (a != b)


def eq_everyone(p, other):
    """`==` of path p with every kind of path that has equal segments: a new
    Path (other), new Paths that went through DIFFERENT query histories (their
    length cached with other tolerances, their point/T2t asked), and p itself
    (a deep copy) after further queries.  By the property the answer is that of
    newly constructed Paths of the current segments: they are all equal.  The
    comparands are separate objects: p itself is not touched.  Returns the
    conjunction; eq_everyone.detail names the first comparison that failed."""
    P = impl()
    eq_everyone.detail = None
    comparands = [('a new Path of fresh copies of the segments', lambda: other)]
    for tn in ('T1', 'T2'):
        e, d = TOLS[tn]
        def mk(e=e, d=d):
            o = fresh_path(p)
            o.length(error=e, min_depth=d)
            return o
        comparands.append(('an equal Path whose length was asked with error=%g, min_depth=%d' % (e, d), mk))
    if P._quad_available:          # the default tolerance is only affordable with quadrature
        def mk_t2t():
            o = fresh_path(p)
            if len(o) > 0:
                o.T2t(0.3)
                o.point(0.6)
            return o
        comparands.append(('an equal Path whose T2t()/point() were asked', mk_t2t))
    def mk_self():
        o = copy.deepcopy(p)
        o.length(error=TOLS['T2'][0], min_depth=TOLS['T2'][1])
        o.length(error=TOLS['T1'][0], min_depth=TOLS['T1'][1])
        return o
    comparands.append(('the path itself (deep copy) after two more length queries', mk_self))
    ok = True
    for name, mk in comparands:
        o = mk()
        if not eq3(p, o):
            ok = False
            if eq_everyone.detail is None:
                eq_everyone.detail = name
    return ok


eq_everyone.detail = None


def ask(p, ev, other=None):
    """the value (canonical) of query ev on path p, raw value too"""
    k = ev[0]
    try:
        if k == 'qlen':
            r = len(p)
        elif k == 'qstart':
            r = p.start
        elif k == 'qend':
            r = p.end
        elif k == 'qlength':
            e, d = TOLS[ev[1]] if isinstance(ev[1], str) else ev[1]
            r = p.length(error=e, min_depth=d)
        elif k == 'qpoint':
            r = p.point(ev[1])
        elif k == 'qt2t':
            r = p.T2t(ev[1])
        elif k == 'qeq':
            r = eq_everyone(p, other)
        elif k == 'qhash':
            h = hash(p)
            segs = tuple(p._segments)
            r = 'closed=False' if h == hash((segs, False)) else ('closed=True' if h == hash((segs, True)) else 'other')
        elif k == 'qd':
            r = p.d(use_closed_attrib=ev[1])
        elif k == 'qbbox':
            r = p.bbox()
        else:
            raise KeyError(k)
        return canon(r), r
    except Exception as e:        # noqa: the class is the observation
        return ('EXC', type(e).__name__), e


def mutate(target, ev, is_path=True):
    """apply mutation ev to a Path (or, is_path=False, to a plain list: the
    reference for whether the operation raises).  Returns ('ok',) /
    ('seg', data) / ('EXC', class)"""
    k = ev[0]
    try:
        if k == 'setitem':
            target[ev[1]] = build(ev[2])
        elif k == 'setslice':
            target[ev[1]:ev[2]] = [build(n) for n in ev[3]]
        elif k == 'insert':
            target.insert(ev[1], build(ev[2]))
        elif k == 'append':
            target.append(build(ev[1]))
        elif k == 'extend':
            target.extend([build(n) for n in ev[1]])
        elif k == 'delitem':
            del target[ev[1]]
        elif k == 'delslice':
            del target[ev[1]:ev[2]]
        elif k == 'pop':
            s = target.pop(ev[1])
            return ('seg', seg_data(s))
        elif k == 'reverse':
            target.reverse()
        elif k == 'remove':
            target.remove(build(ev[1]))
        elif k == 'setstart':
            if is_path:
                target.start = PTS[ev[1]]
        elif k == 'setend':
            if is_path:
                target.end = PTS[ev[1]]
        else:
            raise KeyError(k)
        return ('ok',)
    except Exception as e:        # noqa
        return ('EXC', type(e).__name__)


def is_query(ev):
    return ev[0].startswith('q')


def seg_cache(s):
    P = impl()
    if isinstance(s, P.CubicBezier):
        try:
            li = s._length_info
            if li['length'] is None:
                return None
            b = li['bpoints']
            return ('C', ('C', complex(b[0]), complex(b[3]), (complex(b[1]), complex(b[2]))),
                    (float(li['error']), int(li['min_depth'])), float(li['length']))
        except Exception as e:      # noqa: a cache the model does not know; reported, not fatal
            return ('?', '%s: %r' % (type(e).__name__, getattr(s, '_length_info', None)))
    if isinstance(s, P.Arc):
        try:
            if s.segment_length_hash is None:
                return None
            h = s.segment_length_hash
            if isinstance(h, tuple):       # repaired variant: (hash, error, min_depth)
                h = h[0]
            return ('A', h == hash(s), float(s.segment_length))
        except Exception as e:      # noqa
            return ('?', '%s' % type(e).__name__)
    return None


def state_of(p):
    return {'segs': [(seg_data(s), seg_cache(s)) for s in p._segments],
            'start': None if p._start is None else complex(p._start),
            'end': None if p._end is None else complex(p._end),
            'length': None if p._length is None else Fraction(float(p._length))}


# ------------------------------------------------------- classification
def classify_length(cfg, init, prefix, qev):
    """why does the mutated path answer a length-type query differently from a
    fresh one?  Replays the prefix, tracking which query filled the path-level
    cache (with which tolerance) and whether a setter ran since; if the
    path-level cache is not the cause, looks into the segment caches."""
    P = impl()
    p = P.Path(*[build(n) for n in INITS[init]]) if isinstance(init, str) else P.Path(*[build(n) for n in init])
    fill_tol, setter_since = None, None
    for i, ev in enumerate(prefix):
        if is_query(ev):
            was_none = p._length is None
            ask(p, ev, fresh_path(p) if ev[0] == 'qeq' else None)
            if was_none and p._length is not None:
                fill_tol = TOLS[ev[1]] if ev[0] == 'qlength' else TOLS['T0']
                setter_since = None
        else:
            had = p._length is not None
            mutate(p, ev)
            if ev[0] in ('setstart', 'setend') and had and p._length is not None and setter_since is None:
                setter_since = ev[0]
    asked = TOLS[qev[1]] if qev[0] == 'qlength' else TOLS['T0']
    if p._length is not None:
        # is it the path-level cache that answers?  A new Path of the SAME segment objects
        # (deep copy, segment caches kept) tells: if it answers differently, the stale value
        # comes from the path's own _length/_lengths
        real, _ = ask(copy.deepcopy(p), qev)
        same, _ = ask(P.Path(*copy.deepcopy(p._segments)), qev)
        if real != same:
            if setter_since == 'setstart':
                return 'start-setter-stale-length'
            if setter_since == 'setend':
                return 'end-setter-stale-length'
            if fill_tol != asked:
                return 'calc-lengths-ignores-tolerance'
            return 'unclassified-path-cache'
        # otherwise a segment cache is the cause: fall through to the segment-level analysis
    e, d = TOLS[qev[1]] if qev[0] == 'qlength' else TOLS['T0']
    for s in copy.deepcopy(p._segments):
        c = seg_cache(s)
        if c is None:
            continue
        got = s.length(error=e, min_depth=d)
        want = fresh_copy(s).length(error=e, min_depth=d)
        if canon(got) != canon(want):
            if c[0] == 'A':
                return 'arc-cache-ignores-tolerance'
            if c[0] == '?':
                return 'segment-length-cache-unknown'
            ce, cd = c[2]
            # a value computed with a LOOSER error reused: the inverted test; otherwise a value
            # computed with stricter arguments (deeper min_depth / tighter error) is reused
            return 'cubic-cache-error-test-inverted' if ce > e else 'cubic-cache-deeper-min-depth-reused'
    return 'unclassified-length'


# ------------------------------------------------------------ one history
def run_history(cfg, init, events, battery, want_case):
    """returns (violations [(key, what, failing event index)], case dict or None, stats)"""
    P = impl()
    P._quad_available = cfg
    names = INITS[init] if isinstance(init, str) else init
    p = P.Path(*[build(n) for n in names])
    init_data = [seg_data(s) for s in p._segments]
    viols, outs, stats = [], [], {'cache_hits': 0, 'fills': 0, 'queries': 0}
    slice_raised = False
    emptied_setter = False
    allev = list(events) + list(battery)
    fr_bat = None
    eq_others = []
    datas = set(init_data)
    for idx, ev in enumerate(allev):
        if is_query(ev):
            in_bat = idx >= len(events)
            if in_bat:
                if fr_bat is None:
                    fr_bat = fresh_path(p)
                fr = fr_bat
            else:
                fr = fresh_path(p)
            other = fresh_path(p) if ev[0] == 'qeq' else None
            if ev[0] == 'qeq':
                eq_others.append([seg_data(s) for s in other._segments])
            had = p._length is not None
            len_before = p._length
            stats['queries'] += 1
            got, raw = ask(p, ev, other)
            eq_detail = eq_everyone.detail if ev[0] == 'qeq' else None
            want, _ = ask(fr, ev, fresh_path(fr) if ev[0] == 'qeq' else None)
            if ev[0] in LENGTH_QUERIES:
                if had:
                    stats['cache_hits'] += 1
                elif p._length is not None:
                    stats['fills'] += 1
            outs.append(('q', ev, got, raw))
            if got != want:
                if ev[0] in LENGTH_QUERIES:
                    key = classify_length(cfg, init, allev[:idx], ev)
                elif slice_raised:
                    key = 'slice-assign-empty-raises'
                elif emptied_setter and len(p) == 0:
                    key = 'setter-on-empty-path'
                elif ev[0] == 'qhash':
                    key = 'path-eq-hash-closed' if got == ('s', 'closed=True') else 'path-hash-stale'
                elif ev[0] == 'qeq':
                    key = 'path-eq-depends-on-cache'
                else:
                    key = 'unclassified-' + ev[0]
                what = '%s answers %r, a new Path of the current segments answers %r' % (ev, got, want)
                if ev[0] == 'qeq' and eq_detail:
                    what = ('%s: the path (cached _length %r) compares UNEQUAL to %s; newly constructed Paths of '
                            'the same segments compare equal' % (ev, len_before, eq_detail))
                viols.append((key, what, idx))
        else:
            ref = mutate(list(p._segments), ev, is_path=False)
            empty_before = len(p) == 0
            out = mutate(p, ev)
            outs.append(('m', ev, out, None))
            for s in p._segments:
                datas.add(seg_data(s))
            # equal => equal hash, against a fresh Path, after every mutation (on a copy: asking
            # the path itself would be a query, and queries are events of their own)
            try:
                q = copy.deepcopy(p)
                f = fresh_path(q)
                if q == f and hash(q) != hash(f):
                    viols.append(('path-hash-stale', 'after %s the path equals a new Path of its segments but '
                                  'hashes differently' % (ev,), idx))
            except Exception as e:      # noqa
                viols.append(('path-eq-hash-raises', 'after %s: == / hash raised %s' % (ev, type(e).__name__), idx))
            if ev[0] in ('setstart', 'setend') and empty_before:
                emptied_setter = True
            if out[0] == 'EXC' and ref[0] != 'EXC':
                key = 'slice-assign-empty-raises' if ev[0] == 'setslice' else 'mutation-raises-' + ev[0]
                if ev[0] == 'setslice':
                    slice_raised = True
                viols.append((key, '%s raises %s after mutating (a list accepts it)' % (ev, out[1]), idx))
            elif (out[0] == 'EXC') != (ref[0] == 'EXC') or (out[0] == 'EXC' and out[1] != ref[1]):
                viols.append(('mutation-exception-differs-' + ev[0], '%s: Path %r, list %r' % (ev, out, ref), idx))
    case = None
    if want_case and not all_finite(outs, p):
        stats['nonfinite'] = 1
        want_case = False
    if want_case:
        case = {'init': init_data, 'events': allev, 'outs': [(o[0], o[2]) for o in outs],
                'raws': [raw_for_coq(o) for o in outs], 'eq_others': eq_others,
                'final': state_of(p), 'datas': datas}
    return viols, case, stats


def all_finite(outs, p):
    import math
    def fin(x):
        if isinstance(x, complex):
            return math.isfinite(x.real) and math.isfinite(x.imag)
        try:
            return math.isfinite(float(x))
        except (TypeError, ValueError):
            return True
    for kind, ev, got, raw in outs:
        if got[0] == 'EXC' or raw is None or isinstance(raw, (str, bool)):
            continue
        vals = raw if isinstance(raw, (tuple, list)) else [raw]
        if not all(fin(v) for v in vals):
            return False
    if p._length is not None and not fin(p._length):
        return False
    for s in p._segments:
        c = seg_cache(s)
        if c is not None and c[0] != '?' and not fin(c[-1]):
            return False
    return True


def raw_for_coq(o):
    """observed outcome in the form the Coq comparison takes"""
    kind, ev, got, raw = o
    if got[0] == 'EXC':
        return ('err', got[1])
    if kind == 'm':
        return ('seg', got[1]) if got[0] == 'seg' else ('ok',)
    k = ev[0]
    if k == 'qlen':
        return ('nat', int(raw))
    if k == 'qeq':
        return ('bool', bool(raw))
    if k in ('qstart', 'qend'):
        return ('pt', None if raw is None else complex(raw))
    if k == 'qlength':
        return ('num', Fraction(float(raw)))
    if k == 'qt2t':
        return ('idxt', int(raw[0]), Fraction(float(raw[1])))
    if k == 'qpoint':
        return ('point', complex(raw))
    if k == 'qhash':
        return ('hash', raw)
    if k == 'qd':
        return ('d', raw.endswith('Z') or raw.endswith('z'))
    if k == 'qbbox':
        return ('bbox',)
    raise KeyError(k)


# ------------------------------------------------- which variant is running
FLAG_ORDER = ['setter', 'calc', 'cubic', 'arc', 'hash', 'slice', 'rev']


def detect_fixes():
    """probe the implementation with the witness history of each _refuted
    theorem of Props/C16.v: which of the repaired behaviours does it show?
    Returns ({flag: bool}, [problems]).  false = the pinned behaviour."""
    P = impl()
    from svgpathtools import parse_path
    saved = P._quad_available
    P._quad_available = False            # subdivision: tolerances are visible in the values
    fx, problems = {}, []
    try:
        # setters: [length(); start = z] -> length()
        res = []
        for which in ('start', 'end'):
            p = P.Path(build('L'), build('Q'))
            p.length(error=1e-6)
            setattr(p, which, PTS['z1'])
            res.append(canon(p.length(error=1e-6)) == canon(fresh_path(p).length(error=1e-6)))
        fx['setter'] = res[0]
        if res[0] != res[1]:
            problems.append('start and end setters behave differently (start repaired: %s, end repaired: %s)' % tuple(res))
        # _calc_lengths: a stand-in segment whose length IS the error it is asked with
        class Probe(object):
            start, end = 0j, 1 + 0j
            def length(self, t0=0, t1=1, error=None, min_depth=None):
                return float(error) + float(min_depth)
        p = P.Path(Probe())
        p.length(error=1e-2, min_depth=5)
        second = p.length(error=1e-3, min_depth=5)
        third = p.length(error=1e-3, min_depth=7)
        fx['calc'] = (second == 1e-3 + 5)
        if fx['calc'] and third != 1e-3 + 7:
            problems.append('_calc_lengths compares error but not min_depth')
        # cubic reuse test: loose then tight / tight then loose
        lo, ti = (1e-2, 5), (1e-6, 5)
        c = build('C'); c.length(error=lo[0], min_depth=lo[1])
        loose_then_tight_fresh = canon(c.length(error=ti[0], min_depth=ti[1])) == canon(build('C').length(error=ti[0], min_depth=ti[1]))
        c = build('C'); tv = c.length(error=ti[0], min_depth=ti[1])
        tight_then_loose_reused = canon(c.length(error=lo[0], min_depth=lo[1])) == canon(tv)
        fx['cubic'] = loose_then_tight_fresh
        if loose_then_tight_fresh and not tight_then_loose_reused:
            problems.append('CubicBezier.length reuses neither a looser nor a tighter cached value: a variant the model does not have')
        # arc cache
        a = build('A'); a.length(error=lo[0], min_depth=lo[1])
        fx['arc'] = canon(a.length(error=ti[0], min_depth=ti[1])) == canon(build('A').length(error=ti[0], min_depth=ti[1]))
        # hash
        x, y = P.Path(P.Line(0, 1 + 1j), P.Line(1 + 1j, 0)), parse_path('M0,0 L1,1 Z')
        fx['hash'] = (x == y) and hash(x) == hash(y)
        # slice assignment emptying the path
        p = P.Path(build('L'), build('C'))
        try:
            p[:] = []
            fx['slice'] = True
        except IndexError:
            fx['slice'] = False
        # reversed()
        c = build('C'); c.length(error=ti[0], min_depth=ti[1]); c.start = PTS['z1']
        r = c.reversed()
        fx['rev'] = canon(r.length(error=ti[0], min_depth=ti[1])) == canon(fresh_copy(r).length(error=ti[0], min_depth=ti[1])) \
            and r._length_info is not c._length_info
    finally:
        P._quad_available = saved
    return fx, problems


def fx_term(fx):
    return '(mkFx %s)' % ' '.join(coq_bool(fx[k]) for k in FLAG_ORDER)


# ---------------------------------------------------------- Coq printing
def zlit(i):
    return '(%d)%%Z' % i


def ozlit(i):
    return 'None' if i is None else '(Some %s)' % zlit(i)


class Names:
    """names for segment data used in a shard: d0, d1, ..."""
    def __init__(self):
        self.d = {}

    def sd(self, data):
        if data not in self.d:
            self.d[data] = 'd%d' % len(self.d)
        return self.d[data]

    def defs(self):
        out = []
        for data, n in self.d.items():
            out.append('Definition %s : SD := %s.' % (n, sd_term(data)))
        return '\n'.join(out)


def sd_term(data):
    k, s, e, pay = data
    kind = {'L': 'KLine', 'Q': 'KQuad', 'C': 'KCubic', 'A': 'KArc'}[k]
    if k == 'A':
        r, rot, la, sw = pay
        nums = [qc(r.real), qc(r.imag), qc(rot), qc(int(la)), qc(int(sw))]
    else:
        nums = []
        for z in pay:
            nums += [qc(z.real), qc(z.imag)]
    return '(mkSD %s %s %s %s)' % (kind, cq(s), cq(e), coq_list(nums))


def tol_term(t):
    for n, v in list(TOLS.items()) + list(SEG_TOLS.items()):
        if v == tuple(t):
            return n
    return '(%s, %s)' % (qc(t[0]), zlit(t[1]))


def ev_term(ev, nm, eq_other=None):
    k = ev[0]
    seg = lambda n: '(fresh_seg %s)' % nm.sd(seg_data(build(n)))
    if k == 'setitem':
        return 'EOp (SetItem %s %s)' % (zlit(ev[1]), seg(ev[2]))
    if k == 'setslice':
        return 'EOp (SetSlice %s %s %s)' % (ozlit(ev[1]), ozlit(ev[2]), coq_list([seg(n) for n in ev[3]]))
    if k == 'insert':
        return 'EOp (Insert %s %s)' % (zlit(ev[1]), seg(ev[2]))
    if k == 'append':
        return 'EOp (Append %s)' % seg(ev[1])
    if k == 'extend':
        return 'EOp (Extend %s)' % coq_list([seg(n) for n in ev[1]])
    if k == 'delitem':
        return 'EOp (DelItem %s)' % zlit(ev[1])
    if k == 'delslice':
        return 'EOp (DelSlice %s %s)' % (ozlit(ev[1]), ozlit(ev[2]))
    if k == 'pop':
        return 'EOp (Pop %s)' % zlit(ev[1])
    if k == 'reverse':
        return 'EOp Reverse'
    if k == 'remove':
        return 'EOp (Remove %s)' % seg(ev[1])
    if k == 'setstart':
        return 'EOp (SetStart %s)' % cq(PTS[ev[1]])
    if k == 'setend':
        return 'EOp (SetEnd %s)' % cq(PTS[ev[1]])
    if k == 'qlen':
        return 'EQ QLen'
    if k == 'qstart':
        return 'EQ QStart'
    if k == 'qend':
        return 'EQ QEnd'
    if k == 'qlength':
        return 'EQ (QLength %s)' % tol_term(TOLS[ev[1]] if isinstance(ev[1], str) else ev[1])
    if k == 'qpoint':
        return 'EQ (QPoint %s)' % qc(ev[1])
    if k == 'qt2t':
        return 'EQ (QT2t %s)' % qc(ev[1])
    if k == 'qeq':
        return 'EQ (QEq %s)' % coq_list([nm.sd(d) for d in eq_other])
    if k == 'qhash':
        return 'EQ QHash'
    if k == 'qd':
        return 'EQ (QD %s)' % coq_bool(ev[1])
    if k == 'qbbox':
        return 'EQ QBbox'
    raise KeyError(k)


def oval_term(r, nm):
    k = r[0]
    if k == 'err':
        return '(OErr %s)' % EXN[r[1]] if r[1] in EXN else 'OOther'
    if k == 'ok':
        return 'OOk'
    if k == 'seg':
        return '(OSeg %s)' % nm.sd(r[1])
    if k == 'nat':
        return '(ONat %d)' % r[1]
    if k == 'bool':
        return '(OBool %s)' % coq_bool(r[1])
    if k == 'pt':
        return '(OPt None)' if r[1] is None else '(OPt (Some %s))' % cq(r[1])
    if k == 'num':
        return '(ONum %s)' % qc(r[1])
    if k == 'idxt':
        return '(OIdxT %s %s)' % (zlit(r[1]), qc(r[2]))
    if k == 'point':
        return '(OPoint %s)' % cq(r[1])
    if k == 'hash':
        return {'closed=False': '(OHash false)', 'closed=True': '(OHash true)'}.get(r[1], 'OOther')
    if k == 'd':
        return '(OD %s)' % coq_bool(r[1])
    if k == 'bbox':
        return 'OBbox'
    raise KeyError(k)


def cache_term(c, nm):
    if c is None:
        return 'ONoC'
    if c[0] == '?':
        return 'OCacheOther'
    if c[0] == 'C':
        return '(OCubic %s %s %s)' % (nm.sd(c[1]), tol_term(c[2]), qc(c[3]))
    return '(OArc %s %s)' % (coq_bool(c[1]), qc(c[2]))


def case_term(case, nm):
    eqs = list(case['eq_others'])
    evs = []
    for ev in case['events']:
        evs.append(ev_term(ev, nm, eqs.pop(0) if ev[0] == 'qeq' else None))
    obs = [oval_term(r, nm) for r in case['raws']]
    f = case['final']
    segs = coq_list(['(%s, %s)' % (nm.sd(d), cache_term(c, nm)) for d, c in f['segs']])
    opt = lambda z: 'None' if z is None else '(Some %s)' % cq(z)
    fin = '(%s, %s, %s, %s)' % (segs, opt(f['start']), opt(f['end']),
                                 'None' if f['length'] is None else '(Some %s)' % qc(f['length']))
    return '(%s, %s, %s, %s)' % (coq_list([nm.sd(d) for d in case['init']]), coq_list(evs), coq_list(obs), fin)


_TABLE = {}


def table_value(cfg, data_obj, t):
    """length of a FRESH segment with this control data at tolerance t, in configuration cfg"""
    raise NotImplementedError


def measure_table(cfg, cases):
    """len_of, measured on fresh implementation segments, for every control
    data that occurs in the cases x every tolerance in the pool"""
    P = impl()
    P._quad_available = cfg
    tb = {}
    for case in cases:
        for data in case['datas']:
            for tn, t in TOLS.items():
                key = (data, t)
                if key in tb or (cfg, key) in _TABLE:
                    tb[key] = _TABLE.get((cfg, key), tb.get(key))
                    continue
                s = seg_from_data(data)
                import math
                fv = float(s.length(error=t[0], min_depth=t[1]))
                if not math.isfinite(fv):
                    continue
                v = Fraction(fv)
                tb[key] = v
                _TABLE[(cfg, key)] = v
    return tb


_ARCS = {}


def seg_from_data(data):
    """a fresh segment object with this control data.  Arc data whose end
    points were reassigned keep the derived parameters of the pool arc they
    come from (identified by radius/rotation/flags)."""
    P = impl()
    k, s, e, pay = data
    if k == 'L':
        return P.Line(s, e)
    if k == 'Q':
        return P.QuadraticBezier(s, pay[0], e)
    if k == 'C':
        return P.CubicBezier(s, pay[0], pay[1], e)
    if not _ARCS:
        for n, (kk, a) in POOL.items():
            if kk == 'A':
                o = build(n)
                _ARCS[seg_data(o)[3]] = n
    o = build(_ARCS[pay])
    o.start, o.end = s, e
    return o


PREAMBLE = '''From SVP Require Import Model.PathCache Model.PathCacheExec Model.PathCacheCase.
Import Ex.
Definition T0 : Tol := t_default.
Definition T1 : Tol := (qc 1 100, 5%Z).
Definition T2 : Tol := (qc 1 1000, 8%Z).
Definition S0 : Tol := (qc 1 1000000, 5%Z).
Definition S1 : Tol := T1.
Definition S2 : Tol := T2.
Definition S3 : Tol := (qc 1 1000000, 9%Z).
'''


def coq_check_seg(tmp, cfg, scases, tag, fx):
    """segment-level cases: exact comparison inside Coq"""
    if not scases:
        return [], []
    P = impl()
    P._quad_available = cfg
    import math
    fails, errors, texts = [], [], []
    shard = 400
    memo = {}
    for s0 in range(0, len(scases), shard):
        chunk = scases[s0:s0 + shard]
        nm = Names()
        terms, used = [], set()
        for case, kind, ops in chunk:
            used |= case['datas']
            ot = []
            for o, a in case['ops']:
                if o == 'len':
                    ot.append('SLength %s' % tol_term(a))
                elif o in ('start', 'c1', 'end'):
                    ot.append('%s %s' % ({'start': 'SStart', 'c1': 'SC1', 'end': 'SEnd'}[o], cq(a)))
                else:
                    ot.append('SRev' if o == 'rev' else 'SRevKeep')
            terms.append('(%s, %s, %s)' % (nm.sd(case['init']), coq_list(ot), coq_list([qc(x) for x in case['obs']])))
        rows = []
        for data in used:
            for tn, t in SEG_TOLS.items():
                if (data, t) not in memo:
                    fv = float(seg_from_data(data).length(error=t[0], min_depth=t[1]))
                    memo[(data, t)] = fv
                fv = memo[(data, t)]
                if math.isfinite(fv):
                    rows.append('(%s, %s, %s)' % (nm.sd(data), tn, qc(fv)))
        pre = PREAMBLE + 'Definition fx : fixes := %s.\n' % fx_term(fx) + nm.defs() + \
            '\nDefinition tb : Table :=\n %s.\n' % coq_list(rows)
        okdef = 'Definition ok (c : segcasety) : nat := check_seg_case fx tb c.\n'
        texts.append(common.CASE_HEADER + pre + okdef +
                     'Definition the_cases : list segcasety :=\n [%s].\n' % ';\n  '.join(terms) +
                     'Eval vm_compute in (run_cases ok the_cases).\n')
    res = common.run_case_files(texts, tmp, prefix='c16s_' + tag, timeout=1200)
    for k, (rc, out, dt) in enumerate(res):
        codes = common.parse_codes(out) if rc == 0 else None
        if codes is None:
            errors.append('segment shard %s/%d: rc=%s %s' % (tag, k, rc, out[-1500:]))
            continue
        for i, c in codes:
            fails.append((k * shard + i, c))
    return fails, errors


def coq_check(tmp, cfg, cases, tag, fx):
    """returns (list of (case index, code), errors)"""
    if not cases:
        return [], []
    fails, errors = [], []
    shard = 150
    tb = measure_table(cfg, cases)
    texts = []
    for s0 in range(0, len(cases), shard):
        chunk = cases[s0:s0 + shard]
        nm = Names()
        terms = [case_term(c, nm) for c in chunk]
        used = set()
        for c in chunk:
            used |= c['datas']
        rows = []
        for (data, t), v in tb.items():
            if data in used:
                rows.append('(%s, %s, %s)' % (nm.sd(data), tol_term(t), qc(v)))
        pre = PREAMBLE + 'Definition fx : fixes := %s.\n' % fx_term(fx) + nm.defs() + \
            '\nDefinition tb : Table :=\n %s.\n' % coq_list(rows)
        okdef = 'Definition ok (c : casety) : nat := check_case fx tb c.\n'
        texts.append(common.CASE_HEADER + pre + okdef +
                     'Definition the_cases : list casety :=\n [%s].\n' % ';\n  '.join(terms) +
                     'Eval vm_compute in (run_cases ok the_cases).\n')
    res = common.run_case_files(texts, tmp, prefix='c16_' + tag, timeout=1200)
    for k, (rc, out, dt) in enumerate(res):
        codes = common.parse_codes(out) if rc == 0 else None
        if codes is None:
            errors.append('shard %s/%d: rc=%s %s' % (tag, k, rc, out[-1500:]))
            continue
        for i, c in codes:
            fails.append((k * shard + i, c))
    return fails, errors


# ------------------------------------------------------------ generation
def histories(depth):
    for n in range(depth + 1):
        for h in itertools.product(range(len(ALPHABET)), repeat=n):
            yield h


def gen_random_history(rng):
    n = rng.randint(5, 60)
    init = rng.choice(list(INITS))
    evs = []
    size = len(INITS[init])
    names = list(PATH_POOL)
    for _ in range(n):
        r = rng.random()
        idx = lambda: rng.randint(-size - 2, size + 2)
        oidx = lambda: None if rng.random() < 0.3 else idx()
        if r < 0.42:        # queries
            q = rng.choice(['qlength', 'qlength', 'qlength', 'qt2t', 'qpoint', 'qstart', 'qend', 'qlen', 'qeq',
                            'qhash', 'qd', 'qbbox'])
            if q == 'qlength':
                ev = [q, rng.choice(['T0', 'T0', 'T1', 'T2'])]
            elif q in ('qt2t', 'qpoint'):
                ev = [q, rng.choice([0.0, 1.0, 0.5, 0.25, rng.uniform(0.02, 0.98), rng.uniform(0.02, 0.98)])]
            elif q == 'qd':
                ev = [q, rng.random() < 0.5]
            else:
                ev = [q]
        else:
            big = size >= 6
            ops = ['setitem', 'setslice', 'insert', 'append', 'extend', 'delitem', 'delslice', 'pop', 'reverse',
                   'remove', 'setstart', 'setend']
            if big:
                ops += ['delitem', 'delslice', 'pop', 'pop', 'delslice']
            k = rng.choice(ops)
            if big and k in ('extend', 'append', 'insert'):
                k = 'pop'
            if k == 'setitem':
                ev = [k, idx(), rng.choice(names)]
            elif k == 'setslice':
                ev = [k, oidx(), oidx(), [rng.choice(names) for _ in range(rng.choice([0, 0, 1, 1, 2]))]]
            elif k == 'insert':
                ev = [k, idx(), rng.choice(names)]
            elif k == 'append':
                ev = [k, rng.choice(names)]
            elif k == 'extend':
                ev = [k, [rng.choice(names) for _ in range(rng.choice([0, 1, 2]))]]
            elif k == 'delitem':
                ev = [k, idx()]
            elif k == 'delslice':
                ev = [k, oidx(), oidx()]
            elif k == 'pop':
                ev = [k, rng.choice([-1, -1, idx()])]
            elif k == 'reverse':
                ev = [k]
            elif k == 'remove':
                ev = [k, rng.choice(names)]
            else:
                ev = [k, rng.choice(list(PTS))]
            # track the size with a plain list of placeholders
            ref = [0] * size
            try:
                if k == 'setitem':
                    ref[ev[1]] = 0
                elif k == 'setslice':
                    ref[ev[1]:ev[2]] = [0] * len(ev[3])
                elif k == 'insert':
                    ref.insert(ev[1], 0)
                elif k == 'append':
                    ref.append(0)
                elif k == 'extend':
                    ref.extend([0] * len(ev[1]))
                elif k == 'delitem':
                    del ref[ev[1]]
                elif k == 'delslice':
                    del ref[ev[1]:ev[2]]
                elif k == 'pop':
                    ref.pop(ev[1])
            except IndexError:
                pass
            size = len(ref)     # 'remove' may shrink it by one more: only a bias, harmless
        evs.append(ev)
    return init, evs


def better_path(a, b):
    """is witness a = (cfg, init, events, what, idx) preferable to b: shorter, then scipy configuration"""
    return b is None or (len(a[2]), a[4], not a[0], a[1], json.dumps(a[2])) < (len(b[2]), b[4], not b[0], b[1], json.dumps(b[2]))


def better_seg(a, b):
    return b is None or (len(a[2]), a[1] != 'C', not a[0], a[1], a[2]) < (len(b[2]), b[1] != 'C', not b[0], b[1], b[2])


def new_agg():
    return {'n_hist': {True: 0, False: 0}, 'op_kinds': {}, 'hits': 0, 'fills': 0, 'queries': 0, 'nonfinite': 0,
            'nontrivial': 0, 'counts': {}, 'minimal': {}, 'cases': [], 'samples': [],
            'n_seg': 0, 'seg_counts': {}, 'seg_min': {}, 'seg_cases': []}


def merge(a, b):
    for c in (True, False):
        a['n_hist'][c] += b['n_hist'][c]
    for k, v in b['op_kinds'].items():
        a['op_kinds'][k] = a['op_kinds'].get(k, 0) + v
    for k in ('hits', 'fills', 'queries', 'nonfinite', 'nontrivial', 'n_seg'):
        a[k] += b[k]
    for k, v in b['counts'].items():
        a['counts'][k] = a['counts'].get(k, 0) + v
    for k, v in b['seg_counts'].items():
        a['seg_counts'][k] = a['seg_counts'].get(k, 0) + v
    for k, v in b['minimal'].items():
        if better_path(v, a['minimal'].get(k)):
            a['minimal'][k] = v
    for k, v in b['seg_min'].items():
        if better_seg(v, a['seg_min'].get(k)):
            a['seg_min'][k] = v
    a['cases'] += b['cases']
    a['seg_cases'] += b['seg_cases']
    if len(a['samples']) < 3:
        a['samples'] += b['samples'][:3 - len(a['samples'])]
    return a


def work(job):
    """one worker job: a list of ('path', cfg, init, events, want_case, battery) / ('seg', cfg, kind, ops, want_case);
    returns the aggregate of the chunk"""
    warnings.simplefilter('ignore')
    import math
    g = new_agg()
    for item in job:
        if item[0] == 'seg':
            _, cfg, kind, ops, want = item
            g['n_seg'] += 1
            run_seg_history.case = None
            try:
                sviols = run_seg_history(cfg, kind, ops)
            except Exception as e:     # noqa: report, never crash
                import traceback
                sviols = [('segment-history-raises', '%s %s: %s' % (kind, ops, traceback.format_exc()[-800:]), len(ops) - 1)]
            for key, what, i in sviols:
                if i != len(ops) - 1:
                    continue              # reported by the shorter history
                g['seg_counts'][key] = g['seg_counts'].get(key, 0) + 1
                w = (cfg, kind, ops, what)
                if better_seg(w, g['seg_min'].get(key)):
                    g['seg_min'][key] = w
            case = run_seg_history.case if want else None
            if case is not None and all(math.isfinite(x) for x in case['obs']):
                g['seg_cases'].append((cfg, case, kind, ops))
            continue
        _, cfg, init, events, want_case, battery = item
        try:
            viols, case, st = run_history(cfg, init, events, battery, want_case)
        except Exception as e:     # noqa
            import traceback
            viols, case, st = [('harness-exception', traceback.format_exc()[-1500:], -1)], None, {}
        g['n_hist'][cfg] += 1
        g['hits'] += st.get('cache_hits', 0)
        g['fills'] += st.get('fills', 0)
        g['nonfinite'] += st.get('nonfinite', 0)
        g['queries'] += st.get('queries', 0)
        for ev in events:
            g['op_kinds'][ev[0]] = g['op_kinds'].get(ev[0], 0) + 1
        if any(not is_query(e) for e in events):
            g['nontrivial'] += 1
        if len(g['samples']) < 3 and len(events) >= 3:
            g['samples'].append({'quad_available': cfg, 'init': init, 'events': events[:6],
                                 'violations': sorted(set(v[0] for v in viols))})
        seen = set()
        for key, what, idx in viols:
            if key in seen:
                continue
            seen.add(key)
            g['counts'][key] = g['counts'].get(key, 0) + 1
            w = (cfg, init, events, what, idx)
            if better_path(w, g['minimal'].get(key)):
                g['minimal'][key] = w
        if case is not None:
            g['cases'].append((cfg, case, init, events))
    return g


# ------------------------------------------------------- segment level
SEG_TOLS = {'S0': (1e-6, 5), 'S1': (1e-2, 5), 'S2': (1e-3, 8), 'S3': (1e-6, 9)}
SEG_OPS = ['start', 'c1', 'end', 'lenS0', 'lenS1', 'lenS2', 'lenS3', 'len10', 'rev', 'revkeep', 'obs']
SEG_OPS_H = ['start', 'c1', 'end', 'lenS0', 'lenS1', 'rev', 'obs']       # hash-colliding kinds
SEG_QUERIES = [
    ('point', lambda x: x.point(0.3)),
    ('poly', lambda x: [complex(c) for c in x.poly(return_coeffs=True)]),
    ('poly-eval', lambda x: complex(x.poly()(0.3))),
    ('points', lambda x: [complex(z) for z in x.points([0.2, 0.7])]),
    ('derivative', lambda x: x.derivative(0.4)),
    ('derivative2', lambda x: x.derivative(0.4, 2)),
    ('bbox', lambda x: x.bbox()),
    ('bpoints', lambda x: x.bpoints()),
    ('unit_tangent', lambda x: x.unit_tangent(0.6)),
]


def seg_observe(s):
    out = {}
    for name, fn in SEG_QUERIES:
        try:
            out[name] = canon(fn(s))
        except Exception as e:      # noqa
            out[name] = ('EXC', type(e).__name__)
    return out


def run_seg_history(cfg, kind, ops):
    """reassign control points / length with several tolerances / reversed() /
    the other queries (op 'obs': point, poly, points, derivative, bbox, bpoints,
    ==, hash) on one segment; every answer is compared with a fresh segment's."""
    P = impl()
    P._quad_available = cfg
    k0 = kind[0]
    s = build(kind)
    viols = []
    inherited = False          # s is a reversed() copy still holding the entry it was given
    stale_at_rev = False       # ... and that entry was already out of date for the original
    zs = [3 - 2j, 0.5 + 4j, -1 - 1j]
    zi = 0
    hcount = {}
    # (arguments, canonical value, control data at that time) of the previous length call on this
    # object.  A stale KEY is judged by the control points: the same value coming back for the same
    # arguments although the control points now differ from those it was obtained for.  Reassigning a
    # control point away and back restores them: that is a legitimate cache hit.
    last_len = None
    cops, cobs, cdatas = [], [], {seg_data(s)}
    init_data = seg_data(s)

    def length_info(x):
        li = getattr(x, '_length_info', None)
        return li if isinstance(li, dict) else {}

    for i, o in enumerate(ops):
        cdatas.add(seg_data(s))
        if o in ('start', 'c1', 'end'):
            if kind in HVALS:
                vals = HVALS[kind].get(o)
                if vals is None:
                    continue
                z = vals[hcount.get(o, 0) % 2]
                hcount[o] = hcount.get(o, 0) + 1
            else:
                z = zs[zi % 3]
                zi += 1
            if o == 'c1' and k0 not in ('Q', 'C'):
                continue
            cops.append((o, z))
            if o == 'start':
                s.start = z
            elif o == 'end':
                s.end = z
            elif k0 == 'Q':
                s.control = z
            elif k0 == 'C':
                s.control1 = z
        elif o == 'obs':
            if k0 == 'A':
                continue
            f = fresh_copy(s)
            got, want = seg_observe(s), seg_observe(f)
            for name, _ in SEG_QUERIES:
                if got[name] != want[name]:
                    viols.append(('segment-%s-stale' % name, '%s %s: %s = %r, fresh segment %r'
                                  % (kind, list(ops[:i + 1]), name, got[name], want[name]), i))
            try:
                if not (s == f and f == s) or (s != f):
                    viols.append(('segment-eq-stale', '%s %s: the segment does not compare equal to a fresh '
                                  'segment with its control points' % (kind, list(ops[:i + 1])), i))
                elif hash(s) != hash(f):
                    viols.append(('segment-hash-stale', '%s %s: equal to a fresh segment but hash differs'
                                  % (kind, list(ops[:i + 1])), i))
            except Exception as e:      # noqa
                viols.append(('segment-eq-hash-raises', '%s %s: ==/hash raised %s' % (kind, list(ops[:i + 1]), type(e).__name__), i))
        elif o.startswith('len'):
            if o == 'len10':
                if k0 == 'A':
                    continue
                a, kw = (1, 0), {}
            else:
                e, d = SEG_TOLS[o[3:]]
                a, kw = (0, 1), {'error': e, 'min_depth': d}
            f = fresh_copy(s)
            c = seg_cache(s)
            before = dict(length_info(s)) if k0 in ('C', 'Q') else None
            rawlen = s.length(*a, **kw)
            got = canon(rawlen)
            if kw:
                cops.append(('len', (kw['error'], kw['min_depth'])))
                cobs.append(float(rawlen))
            want = canon(f.length(*a, **kw))
            recomputed = before is not None and dict(length_info(s)) != before
            if got != want:
                known = c is not None and c[0] == 'C'
                same_tol = (not kw) or not known or c[2] == (kw['error'], kw['min_depth'])
                if not inherited and (
                        (known and kw and c[1] != seg_data(s) and canon(c[3]) == got) or
                        (not known and last_len is not None and last_len[:2] == ((a, tuple(sorted(kw.items()))), got)
                         and last_len[2] != seg_data(s))):
                    # the entry is for OTHER control points than the current ones, yet it was used
                    key = 'segment-length-cache-key-stale'
                elif c is not None and c[0] == '?':
                    key = 'segment-length-cache-unknown'
                elif inherited and not recomputed and (stale_at_rev or same_tol):
                    key = 'reversed-rekeys-stale-length' if stale_at_rev else 'reversed-copy-inherits-length-cache'
                elif k0 == 'A':
                    key = 'arc-cache-ignores-tolerance'
                elif k0 == 'C' and known and kw and c[1] != seg_data(s):
                    key = 'cubic-cache-key-stale'        # the entry is for other control points, yet it was used
                elif k0 == 'C' and known and kw:
                    key = 'cubic-cache-error-test-inverted' if c[2][0] > kw['error'] else 'cubic-cache-deeper-min-depth-reused'
                else:
                    key = 'unclassified-segment-length'
                viols.append((key, '%s %s: length%r %r = %r, fresh segment %r' % (kind, list(ops[:i + 1]), a, kw, got, want), i))
            if recomputed:
                inherited = False
            last_len = ((a, tuple(sorted(kw.items()))), got, seg_data(s))
        elif o in ('rev', 'revkeep'):
            stale = False
            if k0 in ('C', 'Q'):
                li = length_info(s)
                stale = bool(li.get('length')) and li.get('bpoints') != s.bpoints()
            was_inherited = inherited
            r = s.reversed()
            if k0 != 'A':
                cops.append((o, None))
                cdatas.add(seg_data(r))
            if o == 'rev':
                s = r
                last_len = None
                if k0 in ('C', 'Q') and bool(length_info(r).get('length')):
                    stale_at_rev = stale or (was_inherited and stale_at_rev)
                    inherited = True
                else:
                    inherited = False
    cdatas.add(seg_data(s))
    run_seg_history.case = {'init': init_data, 'ops': cops, 'obs': cobs, 'datas': cdatas, 'kind': kind}
    return viols


def seg_depth(tier, cfg):
    if tier == 'quick':
        return 4 if cfg else 3
    return 5 if cfg else 4


def seg_jobs(tier):
    jobs = []
    n = 0
    for cfg in (True, False):
        depth = seg_depth(tier, cfg)
        kinds = ['L', 'Q', 'C', 'A', 'Lh', 'Qh', 'Ch'] + (['Ch2'] if cfg else [])   # Ch2: huge control point, quadrature only
        for kind in kinds:
            ops_k = SEG_OPS_H if kind in HVALS else (SEG_OPS if kind != 'A' else ['lenS0', 'lenS1', 'lenS2', 'lenS3', 'revkeep'])
            for d in range(1, depth + 1):
                for ops in itertools.product(ops_k, repeat=d):
                    if ops[-1].startswith('len') or ops[-1] == 'obs':
                        n += 1
                        jobs.append(('seg', cfg, kind, list(ops),
                                     kind in ('C', 'A', 'Ch') and ops[-1] != 'obs'
                                     and (d <= 3 or (d == 4 and (tier != 'quick' or n % 3 == 0)))))
    return jobs


def eq_hash_check(rng, n):
    """objects that compare equal have equal hashes"""
    P = impl()
    bad, cnt = [], 0
    def variants(z):
        z = complex(z)
        out = [z]
        if z.imag == 0:
            out += [z.real, int(z.real)] if z.real == int(z.real) else [z.real]
        if z.real == 0:
            out.append(complex(-0.0, z.imag))
        return out
    for _ in range(n):
        pts = [complex(rng.randint(-3, 3), rng.choice([0, 0, rng.randint(-3, 3)])) for _ in range(4)]
        if pts[0] == pts[3]:
            pts[3] += 1
        a = [rng.choice(variants(z)) for z in pts]
        b = [rng.choice(variants(z)) for z in pts]
        pairs = [(P.Line(a[0], a[3]), P.Line(b[0], b[3])),
                 (P.QuadraticBezier(a[0], a[1], a[3]), P.QuadraticBezier(b[0], b[1], b[3])),
                 (P.CubicBezier(*a), P.CubicBezier(*b)),
                 (P.Arc(a[0], 2 + 1j, 30, 0, 1, a[3]), P.Arc(b[0], 2.0 + 1.0j, 30.0, False, True, b[3]))]
        for x, y in pairs:
            cnt += 1
            if x == y and hash(x) != hash(y):
                bad.append(('segment-eq-hash', '%r == %r but the hashes differ' % (x, y)))
        x, y = P.Path(*[p[0] for p in pairs]), P.Path(*[p[1] for p in pairs])
        cnt += 1
        if x == y and hash(x) != hash(y):
            bad.append(('path-eq-hash', '%r == %r but the hashes differ' % (x, y)))
    x = P.Path(P.Line(0, 1 + 1j), P.Line(1 + 1j, 0))
    from svgpathtools import parse_path
    y = parse_path('M0,0 L1,1 Z')
    cnt += 1
    if x == y and hash(x) != hash(y):
        bad.append(('path-eq-hash-closed',
                    "Path(Line(0,1+1j), Line(1+1j,0)) == parse_path('M0,0 L1,1 Z') but the hashes differ "
                    "(_closed %r vs %r)" % (x._closed, y._closed)))
    return cnt, bad


# ------------------------------------------------------------------ main
def ensure_deps(rep):
    """the C16 files are compiled here when the static build does not know them yet"""
    with common.Lock():
        for f in DEPS:
            v = os.path.join(common.COQ, f)
            vo = v + 'o'
            if os.path.exists(vo) and os.path.getmtime(vo) >= os.path.getmtime(v):
                continue
            rc, out = common.sh(['coqc'] + common.COQFLAGS + [v], timeout=900, cwd=common.COQ)
            if rc != 0:
                rep.violation('coq/%s does not compile' % f, {'kind': 'build', 'file': f, 'output': out[-2500:]},
                              found_input=False, key='build')
                return False
    return True


def chunks(l, n):
    for i in range(0, len(l), n):
        yield l[i:i + n]


def run(rep, tier, seed, replay=None):
    warnings.simplefilter('ignore')
    rng = common.mkrng(seed, 'C16')
    impl()
    t_start = time.time()
    if not ensure_deps(rep):
        return
    with common.Scratch() as tmp:
        info = common.std_static(rep, 'C16', (), (), tmp)
        t_static = time.time() - t_start
        fx, fx_problems = detect_fixes()
        rep.cov['implementation_variant'] = {k: ('repaired' if fx[k] else 'pinned') for k in FLAG_ORDER}
        rep.cov['model_flags'] = fx_term(fx)
        for pr in fx_problems:
            rep.violation('C16: the implementation shows a behaviour that is neither the pinned nor the repaired variant '
                          'of the model: ' + pr, {'kind': 'variant', 'what': pr, 'flags': fx},
                          found_input=False, key='model-variant-unknown')
        depth = None
        stride_false = case_stride = 1
        if replay:
            r = json.load(open(replay))['replay']
            if r.get('kind') == 'segment-history':
                for key, what, i in run_seg_history(r['quad_available'], r['segment'], r['ops']):
                    rep.violation('C16 (segment): ' + what, r, key=key)
                return
            if r.get('kind') != 'history':
                rep.notes.append('replay of kind %r is not re-runnable' % r.get('kind'))
                return
            todo = [('path', r['quad_available'], r['init'], r['events'], True, BATTERY)]
        else:
            depth = 3 if tier == 'quick' else 4
            todo = []
            # configuration True (scipy quadrature): exhaustive to `depth`.  Configuration False
            # (recursive subdivision, ~70 ms per default-tolerance length): exhaustive to depth-1,
            # the deepest level by a deterministic stride.
            stride_false = 17 if tier == 'quick' else 29
            case_stride = 47 if tier == 'quick' else 197
            k = 0
            for h in histories(depth):
                evs = [ALPHABET[i] for i in h]
                for init in INITS:
                    k += 1
                    want = len(h) <= 2 or (k % case_stride == 0)
                    todo.append(('path', True, init, evs, want, BATTERY))
                    if len(h) < depth or (k % stride_false == 0):
                        todo.append(('path', False, init, evs,
                                     len(h) <= 1 or (len(h) == 2 and (tier != 'quick' or k % 2 == 0))
                                     or k % (case_stride * stride_false) == 0, BATTERY))
            n_rand = 60 if tier == 'quick' else 400
            for i in range(n_rand):
                init, evs = gen_random_history(rng)
                for cfg in (True, False):
                    todo.append(('path', cfg, init, evs, True, []))
            todo += seg_jobs(tier)
        # heavy (configuration False) jobs first, so that the pool stays busy
        todo.sort(key=lambda t: (t[1], 0 if t[0] == 'path' else 1, -len(t[3])))
        ctx = multiprocessing.get_context('fork')
        agg = new_agg()
        with ctx.Pool(common.NPROC) as pool:
            slow = [t for t in todo if not t[1] and t[0] == 'path']
            fast = [t for t in todo if t[1] or t[0] != 'path']
            for out in pool.imap_unordered(work, list(chunks(slow, 25)) + list(chunks(fast, 400)), chunksize=1):
                merge(agg, out)
        t_impl = time.time() - t_start - t_static
        counts, minimal = agg['counts'], agg['minimal']
        seg_counts, seg_min, n_seg = agg['seg_counts'], agg['seg_min'], agg['n_seg']
        op_kinds, n_hist = agg['op_kinds'], agg['n_hist']
        hits, fills, n_queries, nonfinite = agg['hits'], agg['fills'], agg['queries'], agg['nonfinite']
        samples = agg['samples']
        cases = {True: [], False: []}
        casemeta = {True: [], False: []}
        for cfg, case, init, events in agg['cases']:
            cases[cfg].append(case)
            casemeta[cfg].append((init, events))
        seg_cases = {True: [], False: []}
        for cfg, case, kind, ops in agg['seg_cases']:
            seg_cases[cfg].append((case, kind, ops))
        # ---- model vs implementation, inside Coq
        coq_fail = 0
        n_cases = 0
        for cfg in (True, False):
            fails, errors = coq_check(tmp, cfg, cases[cfg], 'q%d' % int(cfg), fx)
            n_cases += len(cases[cfg])
            for e in errors:
                rep.violation('C16 case file failed to evaluate', {'kind': 'cases', 'error': e},
                              found_input=False, key='cases-error')
            coq_fail += len(fails)
            for i, code in fails[:3]:
                init, events = casemeta[cfg][i]
                where = ('outcome of event %d' % (code - 100)) if code >= 100 else \
                    {1: 'final segments', 2: 'final _start', 3: 'final _end', 4: 'final _length',
                     5: 'a segment cache', 6: 'number of outcomes'}.get(code, str(code))
                rep.violation('C16: the model (coq/Model/PathCache.v) does not predict the implementation: %s' % where,
                              {'kind': 'history', 'quad_available': cfg, 'init': init, 'events': events,
                               'code': code, 'how': './check C16 --replay <this file>'},
                              found_input=False, key='model-mismatch')
        n_seg_cases = 0
        for cfg in (True, False):
            fails, errors = coq_check_seg(tmp, cfg, seg_cases[cfg], 'q%d' % int(cfg), fx)
            n_seg_cases += len(seg_cases[cfg])
            for e in errors:
                rep.violation('C16 case file failed to evaluate', {'kind': 'cases', 'error': e},
                              found_input=False, key='cases-error')
            coq_fail += len(fails)
            for i, code in fails[:3]:
                case, kind, ops = seg_cases[cfg][i]
                rep.violation('C16: the segment model (seg_length / seg_reversed) does not predict the implementation '
                              'at operation %d' % (code - 100),
                              {'kind': 'segment-history', 'quad_available': cfg, 'segment': kind, 'ops': ops, 'code': code},
                              found_input=False, key='model-mismatch-segment')
        t_coq = time.time() - t_start - t_static - t_impl
        n_eq, eq_bad = eq_hash_check(rng, 200 if tier == 'quick' else 2000) if not replay else (0, [])
        # ---- report: one witness (the shortest) per defect class
        witnesses = {}
        for key in sorted(minimal):
            cfg, init, events, what, idx = minimal[key]
            allev = list(events) + list(BATTERY)
            witnesses[key] = {'quad_available': cfg, 'init': init, 'history': allev[:idx + 1], 'what': what}
            rep.violation('C16: %s  [history %s from %s, _quad_available=%s]' % (what, allev[:idx + 1], init, cfg),
                          {'kind': 'history', 'quad_available': cfg, 'init': init, 'events': events,
                           'failing_event': idx, 'what': what, 'how': './check C16 --replay <this file>'},
                          key=key)
        for key in sorted(seg_min):
            cfg, kind, ops, what = seg_min[key]
            witnesses[key + ' (segment)'] = {'quad_available': cfg, 'segment': kind, 'ops': ops, 'what': what}
            rep.violation('C16 (segment): ' + what,
                          {'kind': 'segment-history', 'quad_available': cfg, 'segment': kind, 'ops': ops, 'what': what},
                          key=key)
        eq_counts = {}
        for key, what in eq_bad:
            eq_counts[key] = eq_counts.get(key, 0) + 1
            if eq_counts[key] == 1:
                witnesses[key + ' (eq/hash)'] = {'what': what}
                rep.violation('C16 (eq/hash): ' + what, {'kind': 'eq-hash', 'what': what}, key=key)
        rep.cov['evaluations'] = n_queries + n_seg + n_eq
        rep.cov['traces_validated_against_impl'] = n_cases + n_seg_cases
        rep.cov['traces'] = {'path_histories': n_cases, 'segment_histories': n_seg_cases}
        rep.cov['distinct_nontrivial'] = agg['nontrivial']
        rep.cov['rule'] = ('histories over the alphabet %s from the initial paths %s; non-trivial = contains at least one '
                           'mutation; each followed by the battery %s; every query answer compared bitwise with a new Path '
                           'of fresh copies of the current segments' % (ALPHABET, INITS, BATTERY))
        if depth is not None:
            rep.cov['exhaustive'] = True
            rep.cov['exhaustive_scope'] = (
                '_quad_available=True: ALL histories of <= %d events (%d templates, 3 initial paths); '
                '_quad_available=False: ALL of <= %d events and every %d-th (deterministic stride) of the %d-event ones; '
                'segment-level: ALL histories of <= %s operations (_quad_available True/False) over %s; '
                'Coq model comparison: all histories of <= 2 events (quick: every 2nd of the 2-event ones in the '
                '_quad_available=False configuration), every %d-th deeper one, all random ones; segment histories '
                'of <= 3 operations, and of 4 (quick: every 3rd)'
                % (depth, len(ALPHABET), depth - 1, stride_false, depth, '%d/%d' % (seg_depth(tier, True), seg_depth(tier, False)), SEG_OPS, case_stride))
        rep.cov['histories_run'] = {'quad_available_true': n_hist[True], 'quad_available_false': n_hist[False]}
        rep.cov['input_distribution'] = {'event_kinds': op_kinds,
                                         'path_cache_hits': hits, 'path_cache_fills': fills,
                                         'segment_histories': n_seg, 'eq_hash_pairs': n_eq,
                                         'cases_skipped_nonfinite': nonfinite}
        vc = dict(counts)
        vc.update({k + ' (segment)': v for k, v in seg_counts.items()})
        vc.update({k + ' (eq/hash)': v for k, v in eq_counts.items()})
        rep.cov['violation_classes'] = dict(sorted(vc.items()))
        rep.cov['violation_witnesses'] = witnesses
        rep.cov['samples'] = samples
        rep.cov['model_mismatches'] = coq_fail
        rep.cov['wall_s'] = {'static': round(t_static, 1), 'implementation': round(t_impl, 1),
                             'coq_cases': round(t_coq, 1), 'total': round(time.time() - t_start, 1)}
    rep.assumptions += [
        'segments put into a path are distinct objects (no aliasing of one segment object at two positions; extend(self) excluded)',
        "Python == on control points identifies them (signed zeros / NaN control points outside the model)",
        'length of a segment is a deterministic function of its control data, the tolerance and the configuration (sampled: table measured on fresh segments)',
        'reassigning the end points of an Arc does not re-derive its centre/angles: the fresh Arc compared with is a copy with cleared cache',
        'Coq comparison of numbers to within 2^-46 relative (float summation order / rounding is not modelled)']
