"""C11 — every reported intersection is a real one, in range, with coherent
parameters.  Theorems: coq/Props/C11.v (models: coq/Model/Isect.v).

Ties:
  * translator: box helpers, real bezier2polynomial / bezier_point, halve_bezier
    (GenAgree/Isect.v);
  * correspondence, computed INSIDE Coq on the exact binary64 values:
      P  for every pair (t1,t2) the implementation returns (all 16 ordered kind
         pairs; crossing / touching / disjoint / near-miss / random
         configurations): range, residual |seg1(t1) - seg2(t2)|^2 <= (tol*size)^2
         (exact rationals for Bezier pairs; 120-bit bigfloats with the arc
         evaluator of Model/Isect.v when an arc is involved), operand-swap symmetry;
      G1 Line-Line: model `intersect` (prefilter + Cramer) vs implementation;
      G2 Bezier-Line / Line-Bezier: model `intersect` with the raw np.roots output
         handed over from a wrapper (polyroots01 de-dup as coded, set, x-range test,
         y-polynomial coefficients) vs implementation;
      G3 Quadratic-Quadratic: the BPair worklist machine in exact rationals vs
         implementation (dyadic parameters compared exactly);
      G4 Path.intersect: T = t2T(index, t) from path._lengths, membership,
         point coherence.
"""
import math, warnings, json, collections
import common
from common import qc, cq, bf, cbf, coq_list
from harness import isect_common as ic

GEN_GROUPS = ['GenBoxes', 'GenIsect', 'GenBezierN']
AGREE = ['Isect.v']
CONFIGS = ['crossing', 'touching', 'disjoint', 'nearmiss', 'random']
ARC_SUBS = ['circ', 'ell', 'circ-rot', 'ell-rot']

CHK = r'''
From SVP Require Import Model.Bezier Model.Isect.
Section Chk.
  Context {K : Type} (N : Num K) (T : NumT K).
  Definition resid_ok (s1 s2 : seg K) (tolsize : K) (tt : K * K) : bool :=
    let d := csub N (seg_point_T N T s1 (fst tt)) (seg_point_T N T s2 (snd tt)) in
    leb N (cnorm2 N d) (mul N tolsize tolsize).
  Definition range_ok (tt : K * K) : bool := in01 N (fst tt) && in01 N (snd tt).
  Definition close_in (eps : K) (tt : K * K) (l : list (K * K)) : bool :=
    existsb (fun uu => leb N (nabs N (sub N (fst tt) (fst uu))) eps
                       && leb N (nabs N (sub N (snd tt) (snd uu))) eps) l.
  Definition same_set (eps : K) (l1 l2 : list (K * K)) : bool :=
    forallb (fun tt => close_in eps tt l2) l1 && forallb (fun tt => close_in eps tt l1) l2.
  (* case: seg1, seg2, tol*size, seg1.intersect(seg2), seg2.intersect(seg1), eps of the swap comparison *)
  (* strict: the two operand orders must return the same NUMBER of pairs and the same pairs up to
     eps0 (required of Bezier-Bezier pairs: the subdivision is symmetric in its operands) *)
  Definition pcase : Type := (seg K * seg K * K * list (K * K) * list (K * K) * K * K * bool)%type.
  Definition pok (c : pcase) : nat :=
    let '(s1, s2, tolsize, r12, r21, eps, eps0, strict) := c in
    first_fail
      [ (forallb range_ok r12, 1);                      (* 0 <= t1,t2 <= 1 *)
        (forallb (resid_ok s1 s2 tolsize) r12, 2);      (* the two points coincide within tol*size *)
        (forallb range_ok r21, 3);
        (forallb (resid_ok s2 s1 tolsize) r21, 4);
        (same_set eps r12 (map swap r21), 5);           (* same crossings, parameters exchanged *)
        (negb strict || (Nat.eqb (length r12) (length r21) && same_set eps0 r12 (map swap r21)), 6) ].
End Chk.
Definition no_bbK {K} (a b : list (Cplx K)) : ires (list (K * K)) := IException.
Definition no_arcK {K} (a : arc K) (s : seg K) : ires (list (K * K)) := IException.
'''

OK_Q = CHK + r'''
Definition TQ : NumT Qc :=
  mkNumT (fun x => x) (fun x => x) (fun x => x) (fun x => x) (fun x => x) (fun x => x)
         (fun x => x) (fun x => x) (Q2Qc 0) (fun x y => x) (fun x => x) (fun x => x).
Definition casety : Type := pcase (K:=Qc).
Definition ok (c : casety) : nat := pok NumQ TQ c.
'''

OK_B = 'From SVP Require Import Base.BigF.\n' + CHK + r'''
Definition casety : Type := pcase (K:=bf).
Definition ok (c : casety) : nat := pok NumB NumTB c.
'''

# ---- G1: Line-Line model tie (exact rationals)
OK_G1 = CHK + r'''
Definition atol8 : Qc := @ATOL@.
Definition two40 : Qc := two_pow_neg 40.
Definition casety : Type := (Cplx Qc * Cplx Qc * Cplx Qc * Cplx Qc * nat * list (Qc * Qc))%type.
Definition sumabs (l : list (Cplx Qc)) : Qc := sum_abs1 l.
Definition near01 (eps t : Qc) : bool := qle (qabs t) eps || qle (qabs (t - 1)%Qc) eps.
Definition ok (c : casety) : nat :=
  let '(p0, p1, q0, q1, okind, obs) := c in
  let m := intersect NumQ atol8 (fun _ _ => Q2Qc 1) (fun _ => []) no_bbK no_arcK (SLine p0 p1) (SLine q0 q1) in
  let d := line_line_denom NumQ p0 p1 q0 q1 in
  let M := sumabs [p0; p1; q0; q1] in
  let eps := if Qc_eq_bool d (Q2Qc 0) then two40 else (two40 * (Q2Qc 1 + M * M / qabs d))%Qc in
  let border :=
      qle (qabs (qabs d - atol8)%Qc) (two40 * atol8)%Qc
      || near01 eps (line_line_t1 NumQ p0 p1 q0 q1) || near01 eps (line_line_t2 NumQ p0 p1 q0 q1) in
  match m with
  | IOk l => if Nat.eqb okind 0
             then (if lclose (pclose (qclose eps) (qclose eps)) l obs then 0 else if border then 0 else 1)
             else 2
  | IAssert => if Nat.eqb okind 1 then 0 else 3
  | _ => 4
  end.
'''
G1_NAMES = {1: 'Line.intersect(Line) result differs from the Cramer model', 2: 'implementation raised, model returns a list',
            3: 'model asserts, implementation did not', 4: 'model failed'}

# ---- G2: Bezier-Line model tie (bigfloats: the line length needs a square root)
OK_G2 = 'From SVP Require Import Base.BigF.\n' + CHK + r'''
Definition rtol5 : bf := @RTOL@.
Definition atol8 : bf := @ATOL@.
Definition eps9 : bf := bf_of 1 (-30).
Definition tiny : bf := bf_of 1 (-40).
Definition blen (l0 l1 : Cplx bf) : bf :=
  hypot_ NumTB (re (csub NumB l1 l0)) (im (csub NumB l1 l0)).
(* case: seg1, seg2, np.roots output, coefficients given to np.roots, kind of outcome, returned pairs *)
Definition casety : Type := (seg bf * seg bf * list (Cplx bf) * list bf * nat * list (bf * bf))%type.
Definition near01 (t : bf) : bool := bf_leb (babs t) eps9 || bf_leb (babs (F.sub_UP bprec t bf_one)) eps9.
Definition border (tt : bf * bf) : bool := near01 (fst tt) || near01 (snd tt).
Definition core (l : list (bf * bf)) := filter (fun tt => negb (border tt)) l.
Definition sumabsB (l : list (Cplx bf)) : bf :=
  fold_left (fun a z => add NumB a (add NumB (babs (fst z)) (babs (snd z)))) l (F.fromZ 0).
Definition ok (c : casety) : nat :=
  let '(s1, s2, raw, coeffs, okind, obs) := c in
  let m := intersect NumB atol8 blen (fun _ => polyroots01_of NumB @DEDUP@ rtol5 atol8 raw) no_bbK no_arcK s1 s2 in
  let '(bez, l0, l1) := match s1, s2 with
                        | SLine a b, _ => (bpoints s2, a, b)
                        | _, SLine a b => (bpoints s1, a, b)
                        | _, _ => ([], (F.fromZ 0, F.fromZ 0), (F.fromZ 0, F.fromZ 0)) end in
  let mc := bl_coeffs_y NumB (blen l0 l1) bez l0 l1 in
  let ctol := mul NumB tiny (sumabsB (map (fun z => csub NumB z l0) bez)) in
  let coef_ok := match coeffs with [] => true | _ => lclose (bclose ctol) mc coeffs end in
  match m with
  | IOk l =>
      if negb (Nat.eqb okind 0) then 2
      else if negb coef_ok then 5
      else if forallb (fun tt => close_in NumB eps9 tt obs) (core l)
              && forallb (fun tt => close_in NumB eps9 tt l) (core obs) then 0 else 1
  | IAssert => if Nat.eqb okind 1 then 0 else 3
  | IValueErr => if Nat.eqb okind 2 then 0 else 3
  | IException => 4
  end.
'''
G2_NAMES = {1: 'bezier_by_line result differs from the model (roots from np.roots handed over)',
            2: 'implementation raised, model returns a list', 3: 'model raises, implementation did not',
            4: 'model failed', 5: 'y-polynomial coefficients given to np.roots differ from the model'}

# ---- G3: the worklist machine on Quadratic-Quadratic pairs (exact rationals)
OK_G3 = CHK + r'''
Definition atol8 : Qc := @ATOL@.
Definition tol12 : Qc := @TOL@.
Definition ext0 : Qc := @EXT0@.      (* sqrt(tol_deC) as computed in binary64 *)
Definition eps40 : Qc := @EPS40@.
Definition casety : Type := (seg Qc * seg Qc * nat * nat * list (Qc * Qc))%type.
Definition eps6 : Qc := two_pow_neg 20.
Definition ok (c : casety) : nat :=
  let '(s1, s2, maxits, okind, obs) := c in
  let m := intersect NumQ atol8 (fun _ _ => Q2Qc 1) (fun _ => [])
             (fun b1 b2 => bezier_intersections NumQ @RMFIX@ @BXFIX@ @MGFIX@ (bbox_quad NumQ) tol12 tol12
                              (eff_extent NumQ @RELFIX@ ext0 eps40 (bbox_quad NumQ) b1 b2) b1 maxits b2) no_arcK s1 s2 in
  match m with
  | IOk l => if negb (Nat.eqb okind 0) then 3
             else if lclose (pclose Qc_eq_bool Qc_eq_bool) l obs then 0      (* identical dyadic parameters, same order *)
             else if same_set NumQ eps6 l obs then 1 else 2
  | IException => if Nat.eqb okind 3 then 0 else 4
  | _ => 5
  end.
'''

# ---- G4: Path.intersect T values
OK_G4 = r'''
From SVP Require Import Model.Bezier Model.Isect.
Definition casety : Type := (list Qc * nat * Qc * Qc)%type.
Definition ok (c : casety) : nat :=
  let '(lens, idx, t, Tobs) := c in
  if qclose (two_pow_neg 40) (t2T NumQ lens idx t) Tobs then 0 else 1.
'''


# ---- G5: the control-polygon pre-filter (exact: only comparisons of the input floats)
OK_G5 = r'''
From SVP Require Import Model.Bezier Model.Isect.
(* case: seg1, seg2, did seg1.intersect(seg2) get past the pre-filter (reach its core routine)? *)
Definition casety : Type := (seg Qc * seg Qc * bool)%type.
Definition ok (c : casety) : nat :=
  let '(s1, s2, reached) := c in
  if Bool.eqb (negb (prefilter_rejects NumQ (bpoints s1) (bpoints s2))) reached then 0 else 1.
'''


class Reached(Exception):
    pass


def reaches_core(s1, s2):
    """True iff s1.intersect(s2) gets past the control-polygon pre-filter, observed by
    wrapping the three core routines (bezier_by_line_intersections, bezier_intersections,
    and np.isclose for the inline Line-Line branch) from the harness"""
    import numpy, svgpathtools.path as sp
    def stop(*a, **k):
        raise Reached()
    saved = (sp.bezier_by_line_intersections, sp.bezier_intersections, numpy.isclose)
    try:
        sp.bezier_by_line_intersections = stop
        sp.bezier_intersections = stop
        numpy.isclose = stop
        try:
            s1.intersect(s2)
            return False
        except Reached:
            return True
    finally:
        sp.bezier_by_line_intersections, sp.bezier_intersections, numpy.isclose = saved


def gen_box_touch(rng, per):
    """Bezier kind pairs whose control-polygon boxes touch exactly on an edge (contact
    of the curves on that edge; exactly representable coordinates), both operand orders"""
    out = []
    for k1 in 'LQC':
        for k2 in 'LQC':
            for i in range(per):
                r = ic.box_touch_pair(rng, k1, k2)
                if r is None:
                    continue
                d1, d2, meta = r
                out.append((d1, d2, meta))
    return out


def tie_prefilter(rng, K, tmp, touch_pairs, n_random):
    cases, meta = [], []
    items = []
    for d1, d2, m in touch_pairs:
        items.append((d1, d2, m))
        # the same pair moved by a tiny exact amount: boxes overlap slightly / are separated slightly
        eps = m['scale'] * 2.0 ** -30
        for v in (eps, -eps, 1j * eps, -1j * eps):
            items.append((d1, ic.shift_desc(d2, v), dict(m, config='box-touch-shifted')))
    for i in range(n_random):
        k1, k2 = rng.choice('LQC'), rng.choice('LQC')
        r = ic.config_pair(rng, k1, k2, rng.choice(['crossing', 'touching', 'disjoint', 'random']))
        if r:
            items.append(r)
    for d1, d2, m in items:
        if d1 == d2:
            continue
        for a, b in ((d1, d2), (d2, d1)):
            s1, s2 = ic.mkseg(a), ic.mkseg(b)
            try:
                reached = reaches_core(s1, s2)
            except Exception:
                continue            # assertion etc.: not about the pre-filter
            cases.append('(%s, %s, %s)' % (ic.seg_term(s1), ic.seg_term(s2), common.coq_bool(reached)))
            meta.append((a, b, m, reached))
    fails, errors = common.run_cases(tmp, '', 'casety', OK_G5, cases, shard=400, prefix='g5')
    for idx, code in fails:
        a, b, m, reached = meta[idx]
        K.add('model-prefilter-%s' % ic.KNAME[a[0]],
              'C11 model tie: %s.intersect(%s): the control-polygon pre-filter %s, the model (inclusive comparisons, '
              'identical in Line/Quadratic/CubicBezier.intersect) says the opposite (%s)'
              % (ic.KNAME[a[0]], ic.KNAME[b[0]], 'lets the pair through' if reached else 'rejects the pair', m.get('config')),
              pair_replay(a, b, m, {'tie': 'prefilter', 'reached_core': reached}), ic.pair_size(ic.mkseg(a), ic.mkseg(b)))
    return len(cases), errors


def outcome(st, val):
    """(kind code, list) of a guarded call"""
    if st == 'ok':
        return 0, ic.norm_result(val)
    if st == 'timeout':
        return 9, []
    if isinstance(val, AssertionError): return 1, []
    if isinstance(val, ValueError): return 2, []
    return 3, []


def tol_factor(d1, d2):
    return 1e-3 if 'A' in (d1[0], d2[0]) else 1e-5


def arcarc_tolerated(d1, d2):
    return d1[0] == 'A' and d2[0] == 'A' and not (ic.is_circ_unrot(d1) and ic.is_circ_unrot(d2))


def kinds_label(d1, d2):
    def lab(d):
        return ic.KNAME[d[0]] + (('[%s]' % ic.arc_kind(d)) if d[0] == 'A' else '')
    return lab(d1) + '-' + lab(d2)


def core_of(d1, d2):
    a, b = d1[0], d2[0]
    if a == 'L' and b == 'L': return 'line-line'
    if 'A' in (a, b): return 'arc'
    if 'L' in (a, b): return 'bezier-line'
    return 'subdivision'


def resid_key(core, size, meta):
    if core == 'subdivision':
        # bezier_intersections stops on an ABSOLUTE box area (tol = 1e-12): the
        # accuracy it delivers does not scale with the curves (pinned variant only)
        if size < 0.1:
            return ic.pinned_key('subdivision-residual-small-scale', ic.detect_variants()['rel_fixed'])
        return 'subdivision-residual'
    if core == 'arc':
        return 'residual-arc-%s' % ('nearmiss' if meta.get('config') == 'nearmiss' else 'other')
    return 'residual-%s' % core


class Keyed:
    """one representative violation per key (the smallest), counts for all"""
    def __init__(self, rep):
        self.rep, self.best, self.count = rep, {}, collections.Counter()

    def add(self, key, what, replay, weight=0.0):
        # representative of a class: pair-level before path-level, sizes near 1 first
        try:
            weight = abs(math.log10(weight)) if weight > 0 else 0.0
        except Exception:
            weight = 0.0
        if replay.get('kind') == 'path':
            weight += 100.0
        self.count[key] += 1
        if key not in self.best or weight < self.best[key][2]:
            self.best[key] = (what, replay, weight)

    def flush(self):
        for key in sorted(self.best):
            what, replay, _ = self.best[key]
            replay = dict(replay); replay['occurrences_in_this_run'] = self.count[key]
            self.rep.violation(what, replay, key=key)
        self.rep.cov['violations_by_key'] = dict(self.count)
        # rep.finish() prints at most five replays: keep a one-line summary and a reproducer of every class here
        self.rep.cov['violation_classes'] = {
            key: {'what': self.best[key][0], 'occurrences': self.count[key],
                  'reproducer': {k: v for k, v in self.best[key][1].items()
                                 if k in ('seg1_repr', 'seg2_repr', 'path1_repr', 'path2_repr', 'tol', 'crossing', 'returned', 'pair')}}
            for key in sorted(self.best)}


def gen_pairs(rng, per):
    """the pair stream: every ordered kind pair x configuration, `per` cases each"""
    out = []
    for k1 in ic.KINDS:
        for k2 in ic.KINDS:
            for cfg in CONFIGS:
                for i in range(per):
                    sub1 = rng.choice(ARC_SUBS) if k1 == 'A' else None
                    sub2 = rng.choice(ARC_SUBS) if k2 == 'A' else None
                    if k1 == 'A' and k2 == 'A' and rng.random() < 0.5:
                        sub1 = sub2 = 'circ'
                    r = None
                    for _ in range(6):
                        try:
                            r = ic.config_pair(rng, k1, k2, cfg, sub1, sub2)
                        except Exception:
                            r = None
                        if r is not None:
                            break
                    if r is None:
                        continue
                    d1, d2, meta = r
                    if d1 == d2:
                        continue
                    meta = dict(meta); meta['config'] = cfg
                    out.append((d1, d2, meta))
    return out


HALF_TURN_ROTATIONS = [180.0, -180.0, 540.0, 360.0, -360.0, 90.0, 270.0, -90.0]


def gen_half_turn(rng, per):
    """Arcs whose rotation is a multiple of 90 degrees other than 0 (the ellipse as a point set is
    axis-parallel, the parameterisation is not the unrotated one) against a Line through an
    interior point of the arc, both operand orders; own rng stream (seeded change C11_8)."""
    out = []
    for rot in HALF_TURN_ROTATIONS:
        for large in (False, True):
            for i in range(per):
                scale = ic.gen_scale(rng)
                d = None
                for _ in range(30):
                    s = ic.rnd_c(rng, scale)
                    e = s + ic.unit(rng) * rng.uniform(0.3, 1.5) * scale
                    half = abs(e - s) / 2
                    rx = half * rng.uniform(1.05, 3.0)
                    ry = rx if rng.random() < 0.25 else half * rng.uniform(1.05, 3.0)
                    try:
                        a = ic.mkseg(('A', s, complex(rx, ry), rot, large, rng.random() < 0.5, e))
                        P = complex(a.point(rng.uniform(0.15, 0.85)))
                    except Exception:
                        continue
                    d = ('A', a.start, a.radius, a.rotation, a.large_arc, a.sweep, a.end)
                    break
                if d is None:
                    continue
                u = ic.unit(rng)
                ln = ('L', P - u * scale * rng.uniform(0.2, 1.0), P + u * scale * rng.uniform(0.2, 1.0))
                meta = {'config': 'half-turn-arc', 'scale': scale}
                out.append((d, ln, meta) if i % 2 == 0 else (ln, d, meta))
    return out


def impl_pair(d1, d2, secs):
    s1, s2 = ic.mkseg(d1), ic.mkseg(d2)
    o12 = outcome(*ic.guarded(lambda: s1.intersect(s2), secs))
    o21 = outcome(*ic.guarded(lambda: s2.intersect(s1), secs))
    return s1, s2, o12, o21


def pair_replay(d1, d2, meta, extra=None):
    r = {'kind': 'pair', 'seg1': ic.desc_hex(d1), 'seg2': ic.desc_hex(d2),
         'kinds': kinds_label(d1, d2), 'core': core_of(d1, d2),
         'config': meta.get('config'), 'seg1_repr': repr(ic.mkseg(d1)), 'seg2_repr': repr(ic.mkseg(d2)),
         'how': './check C11 --replay <this file>'}
    if extra:
        r.update(extra)
    return r


def run_pairs(rep, K, tmp, pairs, secs):
    """the property-level check P on a list of (d1, d2, meta)"""
    qcases, qmeta, bcases, bmeta = [], [], [], []
    stats = collections.Counter()
    nontriv = 0
    for d1, d2, meta in pairs:
        s1, s2, (k12, r12), (k21, r21) = impl_pair(d1, d2, secs)
        lab = kinds_label(d1, d2)
        stats['pairs'] += 1
        stats['cfg:' + meta.get('config', '?')] += 1
        stats['kinds:' + d1[0] + d2[0]] += 1
        tol_ok = arcarc_tolerated(d1, d2)
        for which, k in (('seg1.intersect(seg2)', k12), ('seg2.intersect(seg1)', k21)):
            if k == 9:
                stats['timeouts'] += 1
            elif k != 0:
                if tol_ok:
                    stats['arc-arc exceptions tolerated'] += 1
                else:
                    K.add('intersect-exception-%s-%s' % (core_of(d1, d2), {1: 'AssertionError', 2: 'ValueError', 3: 'Exception'}[k]),
                          'C11: %s raised on a %s pair (%s configuration)' % (which, lab, meta.get('config')),
                          pair_replay(d1, d2, meta, {'call': which}), ic.pair_size(s1, s2))
        if k12 == 0 and k21 == 0:
            pass
        elif k12 == 0 or k21 == 0:
            # one order returns, the other raises / times out
            if not tol_ok and 9 not in (k12, k21):
                K.add('swap-asymmetry-exception-%s' % core_of(d1, d2),
                      'C11: one operand order returns a list, the other raises (%s)' % lab,
                      pair_replay(d1, d2, meta), ic.pair_size(s1, s2))
        size = ic.pair_size(s1, s2)
        tolsize = tol_factor(d1, d2) * size
        a12 = r12 if k12 == 0 else [(b, a) for a, b in r21] if k21 == 0 else []
        a21 = r21 if k21 == 0 else [(b, a) for a, b in r12] if k12 == 0 else []
        if a12 or a21:
            nontriv += 1
        stats['reported_pairs'] += len(a12) + len(a21)
        arc = 'A' in (d1[0], d2[0])
        if arc:
            term = '(%s, %s, %s, %s, %s, %s, %s, false)' % (ic.seg_term(s1, cbf, bf), ic.seg_term(s2, cbf, bf), bf(tolsize),
                                                            ic.pairs_term(a12, bf), ic.pairs_term(a21, bf), bf(1e-4), bf(2.0 ** -40))
            bcases.append(term); bmeta.append((d1, d2, meta, a12, a21, size))
        else:
            strict = core_of(d1, d2) == 'subdivision' and k12 == 0 and k21 == 0
            term = '(%s, %s, %s, %s, %s, %s, %s, %s)' % (ic.seg_term(s1), ic.seg_term(s2), qc(tolsize),
                                                         ic.pairs_term(a12), ic.pairs_term(a21), qc(1e-4), qc(2.0 ** -40),
                                                         common.coq_bool(strict))
            qcases.append(term); qmeta.append((d1, d2, meta, a12, a21, size))
    nfail = 0
    for cases, metas, okdef, pre, name in ((qcases, qmeta, OK_Q, '', 'pq'), (bcases, bmeta, OK_B, '', 'pb')):
        if not cases:
            continue
        fails, errors = common.run_cases(tmp, pre, 'casety', okdef, cases, shard=60, prefix=name)
        for e in errors:
            rep.violation('C11 case file failed to evaluate', {'kind': 'cases', 'error': e},
                          found_input=False, key='cases-error')
        for idx, code in fails:
            nfail += 1
            d1, d2, meta, a12, a21, size = metas[idx]
            s1, s2 = ic.mkseg(d1), ic.mkseg(d2)
            lab = kinds_label(d1, d2)
            core = core_of(d1, d2)
            if code in (1, 3):
                K.add('out-of-range-%s' % core, 'C11: a reported parameter is outside [0,1] (%s)' % lab,
                      pair_replay(d1, d2, meta, {'returned': (a12 if code == 1 else a21)[:6]}), size)
            elif code in (2, 4):
                lst, A, B = (a12, s1, s2) if code == 2 else (a21, s2, s1)
                worst = max(lst, key=lambda tt: abs(A.point(tt[0]) - B.point(tt[1])))
                res = abs(A.point(worst[0]) - B.point(worst[1]))
                key = resid_key(core, size, meta)
                K.add(key, 'C11: reported pair is not a common point: |seg1(t1)-seg2(t2)| = %.3g = %.3g x size (tolerance %g x size) (%s, %s)'
                      % (res, res / size, tol_factor(d1, d2), lab, meta.get('config')),
                      pair_replay(d1, d2, meta, {'pair': list(worst), 'residual': res, 'size': size,
                                                 'order': 'seg1.intersect(seg2)' if code == 2 else 'seg2.intersect(seg1)'}),
                      size)
            elif code in (5, 6):
                skey = 'swap-asymmetry-%s' % (ic.arc_branch(d1, d2) if core == 'arc' else core)
                if skey == 'swap-asymmetry-arc-arc-subdivision' and size < 0.1:
                    # seen at small scale only: the absolute stopping tolerance again
                    skey = ic.pinned_key(skey, ic.detect_variants()['rel_fixed'])
                if core == 'subdivision':
                    # one operand order loses a crossing to the remove-while-iterating loop (same
                    # cause as C12 subdivision-missed-crossing): pinned variant only
                    skey = ic.pinned_key(skey, ic.detect_variants()['rm_fixed'])
                K.add(skey,
                      'C11: seg1.intersect(seg2) and seg2.intersect(seg1) do not report the same %s (%s, %s): %d pairs %s vs %d pairs %s'
                      % ('crossings' if code == 5 else 'pairs (the subdivision is symmetric in its operands: same number, '
                         'same parameters exchanged)', lab, meta.get('config'), len(a12), a12[:4], len(a21), a21[:4]),
                      pair_replay(d1, d2, meta, {'r12': a12[:8], 'r21': a21[:8]}), size)
    return stats, nontriv, len(qcases), len(bcases), nfail


# ------------------------------------------------------------------ model ties
def tie_lineline(rng, K, tmp, n):
    cases, meta = [], []
    for i in range(n):
        cfg = rng.choice(['crossing', 'random', 'touching', 'nearmiss', 'disjoint', 'parallel'])
        if cfg == 'parallel':
            sc = ic.gen_scale(rng)
            a = ic.rnd_c(rng, sc); d = ic.unit(rng) * sc
            eps = rng.choice([0.0, 1e-9, 1e-8, 1e-7, 1e-5])
            d1 = ('L', a, a + d)
            b = ic.rnd_c(rng, sc)
            d2 = ('L', b, b + d * rng.uniform(0.5, 2) + d * 1j * eps)
        else:
            r = ic.config_pair(rng, 'L', 'L', cfg)
            if r is None:
                continue
            d1, d2, _ = r
        if d1 == d2:
            continue
        s1, s2 = ic.mkseg(d1), ic.mkseg(d2)
        k, res = outcome(*ic.guarded(lambda: s1.intersect(s2), 10))
        cases.append('(%s, %s, %s, %s, %d, %s)' % (cq(d1[1]), cq(d1[2]), cq(d2[1]), cq(d2[2]), k, ic.pairs_term(res)))
        meta.append((d1, d2, {'config': cfg}, res))
    fails, errors = common.run_cases(tmp, '', 'casety', OK_G1.replace('@ATOL@', qc(1e-8)), cases, shard=100, prefix='g1')
    for idx, code in fails:
        d1, d2, m, res = meta[idx]
        K.add('model-line-line-%d' % code, 'C11 model tie: %s' % G1_NAMES.get(code, code),
              pair_replay(d1, d2, m, {'returned': res}), ic.pair_size(ic.mkseg(d1), ic.mkseg(d2)))
    return len(cases), errors


def tie_bezline(rng, K, tmp, n):
    cases, meta = [], []
    for i in range(n):
        kb = rng.choice(['Q', 'C'])
        cfg = rng.choice(['crossing', 'crossing', 'random', 'touching', 'nearmiss', 'disjoint'])
        order = rng.random() < 0.5
        k1, k2 = (kb, 'L') if order else ('L', kb)
        r = ic.config_pair(rng, k1, k2, cfg)
        if r is None:
            continue
        d1, d2, _ = r
        s1, s2 = ic.mkseg(d1), ic.mkseg(d2)
        with ic.RootsSpy() as spy:
            k, res = outcome(*ic.guarded(lambda: s1.intersect(s2), 10))
        if len(spy.calls) > 1:
            continue
        coeffs, raw = spy.calls[0] if spy.calls else ([], [])
        cases.append('(%s, %s, %s, %s, %d, %s)' % (
            ic.seg_term(s1, cbf, bf), ic.seg_term(s2, cbf, bf), coq_list([cbf(z) for z in raw]),
            coq_list([bf(c.real) for c in coeffs]), k, ic.pairs_term(res, bf)))
        meta.append((d1, d2, {'config': cfg}, res, raw))
    okdef = OK_G2.replace('@RTOL@', bf(1e-5)).replace('@ATOL@', bf(1e-8)).replace(
        '@DEDUP@', common.coq_bool(ic.detect_variants()['dedup_fixed']))
    fails, errors = common.run_cases(tmp, '', 'casety', okdef, cases, shard=60, prefix='g2')
    for idx, code in fails:
        d1, d2, m, res, raw = meta[idx]
        K.add('model-bezier-line-%d' % code, 'C11 model tie: %s' % G2_NAMES.get(code, code),
              pair_replay(d1, d2, m, {'returned': res, 'np_roots': [str(z) for z in raw]}),
              ic.pair_size(ic.mkseg(d1), ic.mkseg(d2)))
    return len(cases), errors


def quad_maxits(s1, s2, tol=1e-12):
    longer = max(s1.length(), s2.length())
    mi = int(math.ceil(1 - math.log(tol / longer) / math.log(2)))
    if ic.detect_variants()['rel_fixed']:
        # the repaired variant adds levels for curves smaller than one unit
        from svgpathtools.bezier import bezier_bounding_box
        def ext(b):
            return max(b[1] - b[0], b[3] - b[2])
        size = max(ext(bezier_bounding_box(s1)), ext(bezier_bounding_box(s2)))
        if 0 < size < 1:
            mi += int(math.ceil(-math.log(size) / math.log(2)))
    return mi


def tie_worklist(rng, K, tmp, n, rep):
    cases, meta = [], []
    for i in range(n):
        cfg = rng.choice(['crossing', 'crossing', 'random', 'disjoint'])
        r = ic.config_pair(rng, 'Q', 'Q', cfg)
        if r is None:
            continue
        d1, d2, _ = r
        s1, s2 = ic.mkseg(d1), ic.mkseg(d2)
        st, val = ic.guarded(lambda: s1.intersect(s2), 10)
        k, res = outcome(st, val)
        if k == 9:
            continue
        try:
            mi = quad_maxits(s1, s2)
        except Exception:
            continue
        if mi < 1 or mi > 80:
            continue
        cases.append('(%s, %s, %d, %d, %s)' % (ic.seg_term(s1), ic.seg_term(s2), mi, k, ic.pairs_term(res)))
        meta.append((d1, d2, {'config': cfg}, res))
    okdef = OK_G3.replace('@ATOL@', qc(1e-8)).replace('@TOL@', qc(1e-12)).replace(
        '@RMFIX@', common.coq_bool(ic.detect_variants()['rm_fixed'])).replace(
        '@BXFIX@', common.coq_bool(ic.detect_variants()['bx_fixed'])).replace(
        '@MGFIX@', common.coq_bool(ic.detect_variants()['mg_fixed'])).replace(
        '@RELFIX@', common.coq_bool(ic.detect_variants()['rel_fixed'])).replace(
        '@EXT0@', qc(math.sqrt(1e-12))).replace('@EPS40@', qc(2.0 ** -40))
    fails, errors = common.run_cases(tmp, '', 'casety', okdef, cases, shard=8, prefix='g3', timeout=600)
    div1 = [f for f in fails if f[1] == 1]
    hard = [f for f in fails if f[1] != 1]
    rep.cov['worklist_machine'] = {'cases': len(cases), 'identical_parameter_lists': len(cases) - len(fails),
                                   'same_crossings_different_representatives': len(div1),
                                   'different_crossing_sets': len(hard)}
    # the machine runs in exact rationals, the code in binary64: a box test decided
    # differently by one rounding changes the run.  A few divergent runs are expected;
    # a systematic divergence means the code no longer does what the model does.
    if cases and len(hard) > max(2, 0.08 * len(cases)):
        idx, code = hard[0]
        d1, d2, m, res = meta[idx]
        K.add('model-worklist', 'C11 model tie: the BPair worklist machine disagrees with bezier_intersections on %d of %d '
              'Quadratic-Quadratic pairs (code %d on this one)' % (len(hard), len(cases), code),
              pair_replay(d1, d2, m, {'returned': res}), 0)
    return len(cases), errors


# ------------------------------------------------------------------ paths
def gen_path_pair(rng, dup=False):
    """two paths of 1..4 segments; path2 segments are built to cross segments of path1"""
    scale = ic.gen_scale(rng)
    n1, n2 = rng.randint(1, 4), rng.randint(1, 4)
    p1 = []
    for i in range(n1):
        k = rng.choice(ic.KINDS)
        p1.append(ic.random_seg(rng, k, scale, rng.choice(['circ', 'ell']) if k == 'A' else None))
    p2 = []
    for j in range(n2):
        k2 = rng.choice(['L', 'L', 'Q', 'C', 'A'])
        tgt = rng.choice(p1)
        t1 = rng.uniform(0.1, 0.9)
        s1 = ic.mkseg(tgt)
        P = s1.point(t1)
        if k2 == 'A':
            r = ic.arc_through(rng, P, scale, 'circ')
            if r is None:
                continue
            p2.append(r[0])
        else:
            tan = s1.derivative(t1)
            if abs(tan) == 0:
                continue
            dirn = tan / abs(tan) * complex(math.cos(1.0), math.sin(1.0) * rng.choice([1, -1]))
            p2.append(ic.bezier_through(rng, k2, P, rng.uniform(0.1, 0.9), dirn / abs(dirn), scale))
    if not p2:
        p2 = [ic.random_seg(rng, 'L', scale)]
    return p1, p2, scale


def dup_path_case():
    """a closed triangle that traverses its first edge a second time, and a probe
    crossing that edge (hand-picked edge case, always run)"""
    p1 = [('L', 0j, 3 + 0j), ('L', 3 + 0j, 3 + 4j), ('L', 3 + 4j, 0j), ('L', 0j, 3 + 0j)]
    p2 = [('L', 1 - 1j, 1 + 1j)]
    return p1, p2, 4.0


def is_zero_line(d):
    return d[0] == 'L' and d[1] == d[2]


def gen_zero_length_path_pair(rng):
    """path1: a chain of 1..3 Line/Quadratic/Cubic segments with zero-length Lines inserted
    (leading, at interior joints, several in a row — what "M 0,0 L 0,0 L 100,0" or an explicit
    Line(p, p) leaves behind); path2: segments built through interior points of path1's proper
    segments, optionally with a leading zero-length Line of its own"""
    scale = rng.choice([1.0, 10.0, 100.0])
    n = rng.randint(1, 3)
    pts = [ic.rnd_c(rng, scale)]
    real = []
    for i in range(n):
        nxt = pts[-1] + ic.unit(rng) * scale * rng.uniform(0.5, 1.5)
        k = rng.choice(['L', 'L', 'Q', 'C'])
        if k == 'L':
            real.append(('L', pts[-1], nxt))
        elif k == 'Q':
            real.append(('Q', pts[-1], (pts[-1] + nxt) / 2 + ic.rnd_c(rng, 0.3 * scale), nxt))
        else:
            real.append(('C', pts[-1], pts[-1] + ic.rnd_c(rng, 0.4 * scale), nxt + ic.rnd_c(rng, 0.4 * scale), nxt))
        pts.append(nxt)
    where = rng.choice(['leading', 'interior', 'several', 'leading+interior'])
    p1 = []
    for i, d in enumerate(real):
        z = ('L', pts[i], pts[i])
        if i == 0 and where in ('leading', 'several', 'leading+interior'):
            p1.append(z)
            if where == 'several':
                p1.append(z)
        if i > 0 and where in ('interior', 'several', 'leading+interior'):
            p1.append(z)
        p1.append(d)
    if not any(is_zero_line(d) for d in p1):
        p1.insert(0, ('L', pts[0], pts[0]))
    p2 = []
    for j in range(rng.randint(1, 2)):
        tgt = rng.choice(real)
        s1 = ic.mkseg(tgt)
        t1 = rng.uniform(0.25, 0.75)
        P = s1.point(t1); tan = s1.derivative(t1)
        if abs(tan) == 0:
            continue
        ang = math.radians(rng.choice([1, -1]) * rng.uniform(40, 90))
        dirn = tan / abs(tan) * complex(math.cos(ang), math.sin(ang))
        p2.append(ic.bezier_through(rng, rng.choice(['L', 'L', 'Q', 'C']), P, rng.uniform(0.3, 0.7), dirn, 0.4 * scale))
    if not p2:
        return None
    if rng.random() < 0.4:
        z = p2[0][1]
        p2.insert(0, ('L', z, z))
    return p1, p2, scale, where


# ---- histories: measure / intersect, edit in place through the sequence API, intersect again
def apply_history(spec):
    """(edited Path object, probe used for priming) for a history spec
    {'base': [descs], 'prime': 'length'|'point'|'intersect'|'none', 'probe': [descs], 'ops': [...]}"""
    from svgpathtools import Path
    path = Path(*[ic.mkseg(d) for d in spec['base']])
    pr = spec['prime']
    if pr == 'length':
        path.length()
    elif pr == 'point':
        path.point(0.3)
    elif pr == 'intersect':
        try:
            path.intersect(Path(*[ic.mkseg(d) for d in spec['probe']]))
        except Exception:
            pass
    for op in spec['ops']:
        k = op[0]
        if k == 'set': path[op[1]] = ic.mkseg(op[2])
        elif k == 'insert': path.insert(op[1], ic.mkseg(op[2]))
        elif k == 'append': path.append(ic.mkseg(op[1]))
        elif k == 'del': del path[op[1]]
        elif k == 'pop': path.pop()
        elif k == 'start': path.start = op[1]
        elif k == 'end': path.end = op[1]
    return path


def spec_hex(spec):
    def oh(op):
        return [ic.desc_hex(x) if isinstance(x, tuple) else (common.chex(x) if isinstance(x, complex) else x) for x in op]
    return {'base': [ic.desc_hex(d) for d in spec['base']], 'prime': spec['prime'],
            'probe': [ic.desc_hex(d) for d in spec['probe']], 'ops': [oh(op) for op in spec['ops']],
            'operand': spec['operand'], 'other': [ic.desc_hex(d) for d in spec['other']]}


def spec_unhex(h):
    def ou(op):
        out = [op[0]]
        for x in op[1:]:
            if isinstance(x, list) and x and isinstance(x[0], str) and x[0] in ('L', 'Q', 'C', 'A'):
                out.append(ic.desc_unhex(x))
            elif isinstance(x, list):
                out.append(complex(float.fromhex(x[0]), float.fromhex(x[1])))
            else:
                out.append(x)
        return tuple(out)
    return {'base': [ic.desc_unhex(d) for d in h['base']], 'prime': h['prime'],
            'probe': [ic.desc_unhex(d) for d in h['probe']], 'ops': [ou(op) for op in h['ops']],
            'operand': h['operand'], 'other': [ic.desc_unhex(d) for d in h['other']]}


def chain_segments(rng, n, scale):
    pts = [ic.rnd_c(rng, scale)]
    segs = []
    for i in range(n):
        nxt = pts[-1] + ic.unit(rng) * scale * rng.uniform(0.5, 1.5)
        k = rng.choice(['L', 'L', 'L', 'Q', 'C'])
        if k == 'L':
            segs.append(('L', pts[-1], nxt))
        elif k == 'Q':
            segs.append(('Q', pts[-1], (pts[-1] + nxt) / 2 + ic.rnd_c(rng, 0.3 * scale), nxt))
        else:
            segs.append(('C', pts[-1], pts[-1] + ic.rnd_c(rng, 0.4 * scale), nxt + ic.rnd_c(rng, 0.4 * scale), nxt))
        pts.append(nxt)
    return segs


def crossers(rng, targets, scale, n):
    out = []
    for j in range(n):
        s1 = ic.mkseg(rng.choice(targets))
        t1 = rng.uniform(0.25, 0.75)
        P = s1.point(t1); tan = s1.derivative(t1)
        if abs(tan) == 0:
            continue
        ang = math.radians(rng.choice([1, -1]) * rng.uniform(40, 90))
        dirn = tan / abs(tan) * complex(math.cos(ang), math.sin(ang))
        out.append(ic.bezier_through(rng, rng.choice(['L', 'L', 'Q']), P, rng.uniform(0.3, 0.7), dirn, 0.4 * scale))
    return out


def gen_history_case(rng):
    """a history spec: build, measure (length / point / a first intersect), edit in place
    (setitem with a segment of different length, insert, append, del, pop, start / end
    setter), then the edited path is intersected as operand 1 or 2 with a path crossing
    its CURRENT segments"""
    scale = rng.choice([1.0, 10.0, 100.0])
    base = chain_segments(rng, rng.randint(2, 4), scale)
    spec = {'base': base, 'prime': rng.choice(['length', 'point', 'intersect', 'intersect']),
            'probe': crossers(rng, base, scale, 1) or [('L', base[0][1] - 1j * scale, base[0][1] + 1j * scale)],
            'ops': [], 'operand': rng.choice([1, 2]), 'other': []}
    kind = rng.choice(['set', 'insert', 'append', 'del', 'pop', 'start', 'end', 'insert+set', 'del+append'])
    n = len(base)
    far = lambda z: z + ic.unit(rng) * scale * rng.uniform(3, 6)
    ops = []
    for k in kind.split('+'):
        if k == 'set':
            i = rng.randrange(n)
            ops.append(('set', i, ('L', base[i][1], far(base[i][1]))))          # much longer than the old one
        elif k == 'insert':
            i = rng.choice([0, 0, rng.randrange(n)])
            z = base[i][1]
            ops.append(('insert', i, ('L', far(z), z)))
        elif k == 'append':
            z = base[-1][-1]
            ops.append(('append', ('L', z, far(z))))
        elif k == 'del':
            ops.append(('del', rng.randrange(n - 1)))                            # not the last: later T's shift
        elif k == 'pop':
            ops.append(('pop',))
        elif k == 'start':
            ops.append(('start', far(base[0][1])))
        elif k == 'end':
            ops.append(('end', far(base[-1][-1])))
    spec['ops'] = ops
    spec['edit'] = kind
    try:
        final = [ic.desc_of(s) for s in apply_history(dict(spec, prime='none'))]
    except Exception:
        return None
    if not final:
        return None
    spec['other'] = crossers(rng, final, scale, rng.randint(1, 2))
    if not spec['other']:
        return None
    return spec, final, scale


def run_paths(rep, K, tmp, rng, n, secs, only=None, zero_pairs=0, histories=0, hist_only=None):
    from svgpathtools import Path, Arc
    g4, g4meta, pcases = [], [], []
    stats = collections.Counter()
    todo = list(only) if only is not None else [dup_path_case() + (0.0,), dup_path_case() + (None,)]
    for i in range(n):
        todo.append(gen_path_pair(rng) + (None,))
    for i in range(zero_pairs):
        r = gen_zero_length_path_pair(rng)
        if r:
            p1d, p2d, scale, where = r
            stats['zero-length-line paths: ' + where] += 1
            todo.append((p1d, p2d, scale, None)); todo.append((p2d, p1d, scale, None))     # both operands
    todo = [t + (None,) for t in todo]
    hspecs = list(hist_only) if hist_only else []
    for i in range(histories):
        r = gen_history_case(rng)
        if r:
            hspecs.append(r)
    for spec, final, scale in hspecs:
        stats['history: ' + spec.get('edit', '?') + ' after ' + spec['prime']] += 1
        if spec['operand'] == 1:
            todo.append((final, spec['other'], scale, None, spec))
        else:
            todo.append((spec['other'], final, scale, None, spec))
    for p1d, p2d, scale, tol, spec in todo:
        path1 = Path(*[ic.mkseg(d) for d in p1d]); path2 = Path(*[ic.mkseg(d) for d in p2d])
        # the same segments in freshly built paths: the lengths the T's must refer to
        fresh1, fresh2 = Path(*[ic.mkseg(d) for d in p1d]), Path(*[ic.mkseg(d) for d in p2d])
        if spec is not None:
            try:
                edited = apply_history(spec)
            except Exception as e:
                K.add('path-history-edit-raises', 'C11: an in-place edit of a Path raised %r' % (e,),
                      {'kind': 'path-history', 'history': spec_hex(spec)}, scale)
                continue
            if spec['operand'] == 1:
                path1 = edited
            else:
                path2 = edited
            stats['history_cases'] += 1
        if path1 == path2:
            continue
        if tol is None:
            st, val = ic.guarded(lambda: path1.intersect(path2), secs)
        else:
            st, val = ic.guarded(lambda: path1.intersect(path2, tol=tol), secs)
        stats['path_pairs'] += 1
        replay = {'kind': 'path', 'path1': [ic.desc_hex(d) for d in p1d], 'path2': [ic.desc_hex(d) for d in p2d],
                  'tol': tol, 'path1_repr': repr(path1), 'path2_repr': repr(path2)}
        if spec is not None:
            replay = {'kind': 'path-history', 'history': spec_hex(spec), 'edit': spec.get('edit'), 'prime': spec['prime'],
                      'edited_operand': spec['operand'], 'path1_repr': repr(path1), 'path2_repr': repr(path2),
                      'how': './check C11 --replay <this file>'}
            if st == 'exc':
                st2, val2 = ic.guarded(lambda: fresh1.intersect(fresh2), secs)
                if st2 == 'ok':
                    K.add('path-intersect-history-raises',
                          'C11: Path.intersect raises %r after the history [%s, then %s] on operand %d; freshly built paths of '
                          'the same segments intersect without error' % (val, spec['prime'], spec.get('edit'), spec['operand']),
                          replay, scale)
                    continue
        if st == 'timeout':
            stats['timeouts'] += 1; continue
        haszero = any(is_zero_line(d) for d in p1d + p2d)
        if haszero:
            stats['zero-length-line path calls'] += 1
        if st == 'exc' and haszero and isinstance(val, AssertionError):
            # Line.intersect / bezier_by_line_intersections assert start != end: a separate class
            # (nothing is returned, so C11 claims nothing); counted and reported, not a C11 violation
            stats['zero-length-line: AssertionError on a degenerate segment (no result, nothing claimed)'] += 1
            continue
        if haszero and st == 'ok' and val:
            stats['zero-length-line path calls returning entries'] += 1
        if st == 'exc':
            aa = any(arcarc_tolerated(a, b) for a in p1d for b in p2d)
            if aa:
                stats['arc-arc exceptions tolerated'] += 1
            else:
                K.add('path-intersect-exception-%s' % type(val).__name__, 'C11: Path.intersect raised %r' % (val,), replay, scale)
            continue
        if not val:
            continue
        # length fractions of the CURRENT segments (freshly built paths), not whatever the object cached
        fresh1._calc_lengths(); fresh2._calc_lengths()
        lens1 = [float(x) for x in fresh1._lengths]; lens2 = [float(x) for x in fresh2._lengths]
        size = max(max(ic.seg_size(s) for s in path1), max(ic.seg_size(s) for s in path2))
        for (T1, seg1, t1), (T2, seg2, t2) in val:
            stats['path_entries'] += 1
            i1 = [i for i, s in enumerate(path1) if s is seg1]
            i2 = [i for i, s in enumerate(path2) if s is seg2]
            if not i1 or not i2:
                K.add('path-intersect-foreign-segment', 'C11: Path.intersect returned a segment that is not a member of the path',
                      replay, scale)
                continue
            T1, t1, T2, t2 = float(T1), float(t1), float(T2), float(t2)
            hasarc = isinstance(seg1, Arc) or isinstance(seg2, Arc)
            tf = 1e-3 if hasarc else 1e-5
            try:
                pts = [path1.point(T1), seg1.point(t1), seg2.point(t2), path2.point(T2)]
            except Exception as e:
                K.add('path-intersect-T-incoherent' + ('-after-edit' if spec is not None else ''),
                      'C11: path.point(T) raises %r for a returned T' % (e,), replay, scale)
                continue
            # T must be the path parameter of the OCCURRENCE the entry came from
            for lens, idx, t, T, pth, sg, which in ((lens1, i1[0], t1, T1, path1, seg1, 1), (lens2, i2[0], t2, T2, path2, seg2, 2)):
                g4.append('(%s, %d, %s, %s)' % (coq_list([qc(x) for x in lens]), idx, qc(t), qc(T)))
                dupseg = sum(1 for s in pth if s == sg) > 1
                g4meta.append((replay, which, dupseg, scale))
            if abs(pts[0] - pts[1]) > 1e-9 * size or abs(pts[3] - pts[2]) > 1e-9 * size:
                K.add('path-intersect-T-incoherent' + ('-after-edit' if spec is not None else ''),
                      'C11: path.point(T) differs from seg.point(t)%s: %s'
                      % (' after the history [%s, then %s]' % (spec['prime'], spec.get('edit')) if spec is not None else '', pts),
                      replay, scale)
            psize = ic.pair_size(seg1, seg2)
            if abs(pts[1] - pts[2]) > tf * psize:
                core = core_of(p1d[i1[0]], p2d[i2[0]])
                K.add(resid_key(core, psize, {}),
                      'C11: Path.intersect entry is not a common point: |seg1(t1)-seg2(t2)| = %.3g x size (%s)'
                      % (abs(pts[1] - pts[2]) / psize, kinds_label(p1d[i1[0]], p2d[i2[0]])),
                      dict(replay, seg1=ic.desc_hex(p1d[i1[0]]), seg2=ic.desc_hex(p2d[i2[0]])), psize)
    fails, errors = common.run_cases(tmp, '', 'casety', OK_G4, g4, shard=400, prefix='g4')
    for idx, code in fails:
        replay, which, dupseg, scale = g4meta[idx]
        if dupseg:
            K.add(ic.pinned_key('path-intersect-index-duplicate-segment', ic.detect_variants()['idx_fixed']),
                  'C11: Path.intersect returns, for a segment object that occurs at a later position of path%d, the T of the first '
                  'EQUAL segment (t2T uses list.index): T does not belong to the traversal the entry came from' % which,
                  replay, scale)
        elif replay.get('kind') == 'path-history':
            K.add('path-intersect-T-stale-after-edit',
                  'C11: after the history [%s, then %s] Path.intersect returns a T for path%d that is not t2T(position, t) for the '
                  'length fractions of the path\'s CURRENT segments' % (replay.get('prime'), replay.get('edit'), which),
                  replay, scale)
        else:
            K.add('path-intersect-T-model', 'C11 model tie: T != t2T(lengths, index, t) for path%d' % which, replay, scale)
    return stats, len(g4), errors


# ------------------------------------------------------------------ driver
def run(rep, tier, seed, replay=None):
    warnings.simplefilter('ignore')
    rng = common.mkrng(seed, 'C11')
    quick = tier == 'quick'
    secs = 20
    with common.Scratch() as tmp:
        info = common.std_static(rep, 'C11', GEN_GROUPS, AGREE, tmp)
        K = Keyed(rep)
        var = ic.detect_variants()
        rep.cov['implementation_variants'] = {k: v for k, v in var.items() if k != 'notes'}
        rep.notes += var['notes']
        boost = 2 if (info['agree_failed'] or info['untranslated'].keys() - {'gen_bezier_by_line_2', 'gen_box_extent'}) else 1
        if replay:
            r = json.load(open(replay))['replay']
            if r.get('kind') == 'path-history':
                spec = spec_unhex(r['history'])
                spec['edit'] = r.get('edit')
                final = [ic.desc_of(sg) for sg in apply_history(dict(spec, prime='none'))]
                run_paths(rep, K, tmp, rng, 0, secs, only=[], hist_only=[(spec, final, 1.0)])
            elif r.get('kind') == 'path':
                # re-run the path pair
                p1 = [ic.desc_unhex(h) for h in r['path1']]; p2 = [ic.desc_unhex(h) for h in r['path2']]
                run_paths(rep, K, tmp, rng, 0, secs, only=[(p1, p2, 1.0, r.get('tol'))])
            else:
                d1, d2 = ic.desc_unhex(r['seg1']), ic.desc_unhex(r['seg2'])
                run_pairs(rep, K, tmp, [(d1, d2, {'config': r.get('config', 'replay')})], secs)
                if r.get('tie') == 'prefilter':
                    tie_prefilter(rng, K, tmp, [(d1, d2, {'config': r.get('config', 'replay'), 'scale': 0.0})], 0)
            K.flush()
            return
        per = (6 if quick else 40) * boost
        pairs = gen_pairs(rng, per)
        stats, nontriv, nq, nb, nfail = run_pairs(rep, K, tmp, pairs, secs)
        n1, e1 = tie_lineline(rng, K, tmp, (150 if quick else 1500) * boost)
        n2, e2 = tie_bezline(rng, K, tmp, (120 if quick else 1200) * boost)
        n3, e3 = tie_worklist(rng, K, tmp, (24 if quick else 200) * boost, rep)
        pstats, n4, e4 = run_paths(rep, K, tmp, rng, (40 if quick else 400) * boost, secs)
        # contact exactly on an edge of the control-polygon boxes (drawn last from the rng so
        # that the streams above are unchanged)
        touch = gen_box_touch(rng, (4 if quick else 40) * boost)
        tstats, tnontriv, tq, tb, _ = run_pairs(rep, K, tmp, touch, secs)
        n5, e5 = tie_prefilter(rng, K, tmp, touch, (60 if quick else 600) * boost)
        for k_, v_ in tstats.items():
            stats[k_] = stats.get(k_, 0) + v_
        nontriv += tnontriv; nq += tq; nb += tb
        # paths containing zero-length Lines (again drawn last): T coherence for both operands
        zstats, n6, e6 = run_paths(rep, K, tmp, rng, 0, secs, only=[], zero_pairs=(12 if quick else 300) * boost)
        for k_, v_ in zstats.items():
            pstats[k_] = pstats.get(k_, 0) + v_
        n4 += n6
        # histories (drawn last as well): measure, edit in place, intersect again
        hstats, n7, e7 = run_paths(rep, K, tmp, rng, 0, secs, only=[], histories=(40 if quick else 400) * boost)
        for k_, v_ in hstats.items():
            pstats[k_] = pstats.get(k_, 0) + v_
        n4 += n7
        # Bezier-Bezier pairs on an integer grid (several crossings, the redundancy marking fires),
        # both operand orders, strict symmetry; the witnesses of the skip defect first
        grid = [(a, b, {'config': 'integer-grid-witness', 'scale': 100.0}) for a, b in ic.SKIP_WITNESSES]
        for i in range((30 if quick else 1500) * boost):
            r = ic.integer_bezier_pair(rng)
            if r:
                grid.append(r)
        gstats, gnontriv, gq, gb, _ = run_pairs(rep, K, tmp, grid, secs)
        for k_, v_ in gstats.items():
            stats[k_] = stats.get(k_, 0) + v_
        nontriv += gnontriv; nq += gq; nb += gb
        # arcs rotated by multiples of 90 degrees against a Line (own rng: the streams above are unchanged)
        hstream = gen_half_turn(common.mkrng(seed, 'C11-half-turn'), (2 if quick else 20) * boost)
        hs, hnontriv, hq, hb, _ = run_pairs(rep, K, tmp, hstream, secs)
        for k_, v_ in hs.items():
            stats[k_] = stats.get(k_, 0) + v_
        nontriv += hnontriv; nq += hq; nb += hb
        e4 = e4 + e5 + e6 + e7
        for e in e1 + e2 + e3 + e4:
            rep.violation('C11 model-tie case file failed to evaluate', {'kind': 'cases', 'error': e},
                          found_input=False, key='cases-error')
        K.flush()
        rep.cov['evaluations'] = 5 * (nq + nb) + n1 + n2 + n3 + n4 + n5
        rep.cov['traces_validated_against_impl'] = n1 + n2 + n3 + n4 + n5
        rep.cov['distinct_nontrivial'] = nontriv + pstats.get('path_entries', 0)
        rep.cov['rule'] = ('all 16 ordered kind pairs x {crossing (two segments built through a common point), touching '
                           '(T-junction), disjoint, near-miss (gap 1e-7..1e-3 x size), random}, paths incl. zero-length Lines and '
                           'HISTORIES (measure/intersect, edit in place via setitem/insert/append/del/pop/start/end, intersect again), plus, for the 9 Bezier kind pairs, contact exactly '
                           'on an edge of the control-polygon boxes (chains, chords through both end points, axis-parallel '
                           'departures; integer coordinates) and integer-grid Quadratic/Cubic pairs (strict operand symmetry: same number of '
                           'pairs, same parameters exchanged), and arcs rotated by k x 90 degrees (k != 0) against a Line through an interior point, scales 0.01..1000, arcs circular/'
                           'elliptic, rotated or not; non-trivial = at least one pair returned by either operand order (paths: '
                           'one returned entry); every returned pair is checked inside Coq: range, squared residual against '
                           '(tol x size)^2 with size = largest distance between defining points, swap symmetry within 1e-4')
        rep.cov['input_distribution'] = dict(stats); rep.cov['paths'] = dict(pstats)
        rep.cov['samples'] = [{'seg1': repr(ic.mkseg(d1)), 'seg2': repr(ic.mkseg(d2)), 'config': m.get('config')}
                              for d1, d2, m in pairs[:3]]
        rep.cov['model_tie_cases'] = {'line_line': n1, 'bezier_line': n2, 'worklist_quadquad': n3, 'path_T': n4,
                                      'prefilter': n5}
        if info['agree_failed'] and not rep.violations:
            rep.violation('agreement lemma(s) %s no longer check: generated code differs from the model' % info['agree_failed'],
                          {'kind': 'agreement', 'lemmas': info['agree_failed'], 'file': 'coq/GenAgree/Isect.v',
                           'messages': info.get('agree_msgs', {})}, found_input=False, key='agree')
    rep.assumptions += ['np.roots is an oracle (its raw output is handed to the model; C12 checks what it misses)',
                        'Arc center/theta/delta are taken as stored by the implementation (C04 is about them)',
                        '120-bit bigfloat evaluation of sin/cos (Interval library midpoints) for residuals with arcs',
                        'Arc-Line algebraic, Arc-Bezier u1transform and Arc-Arc solvers are not modelled: only their results are checked',
                        'size of a pair = largest distance between defining points (for arcs: max(|end-start|, 2 max(rx,ry)))']
