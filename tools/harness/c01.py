"""C01 — Path.d() output parses back to the same path, under every option.

Theorems: coq/Props/C01.v (round trip for paths of any length by induction over
the segment list; law-free for the absolute forms, exact carriers for the
relative forms; kinds/flags for any carrier; the d-string means the path per
the reference interpreter of C02).
Tie (correspondence, computed inside Coq in binary64 = PrimFloat, `NumF`):
  * Model/DstrText.v `d_text`  ==  Path.d(...)            character for character
    (Python's repr supplied per case as the table of the formatting oracle;
     its contract float(repr(x)) == x and the FLOAT_RE shape are checked on
     every number written),
  * tokenizing that string with the table gives the tokens of Model/Dstr.v `d_cmds`,
  * Model/Parse.v `impl_parse` on these tokens  ==  parse_path(d)   (segment-wise `==`,
    arc radii to 1e-12),
for every generated path and all 8 option sets.  The model has eight variants
(zfix, sfix, mfix); probes determine which one the code of /repo is.
Property on the implementation: parse_path(p.d(**opts)) against p exactly as
the statement says."""
import json, math, re, warnings
import common
from common import coq_list

GEN_GROUPS = ['GenDstr']
AGREE = ['Dstr.v']
OPTS = [(u, z, r) for u in (False, True) for z in (False, True) for r in (False, True)]   # (useSandT, use_closed_attrib, rel)
ERR = {'IndexError': 1, 'ValueError': 2, 'TypeError': 3, 'AttributeError': 4, 'AssertionError': 5}
FLOAT_RE = re.compile(r'[-+]?[0-9]*\.?[0-9]+(?:[eE][-+]?[0-9]+)?\Z')
KIND = {'Line': 0, 'QuadraticBezier': 1, 'CubicBezier': 2, 'Arc': 3}


# ------------------------------------------------------------ Coq encoding
# one case = one path with its 8 option sets, as a list of primitive 63-bit
# integers (see c02.py for why):
#   flags word  : none_ok + 2 coinc_ok + 4 zfix + 8 sfix + 16 mfix
#   pool        : n, then per float  mantissa (53 bits),  2*(exponent+2101)+sign
#   path        : nsegs, per segment  kind, pool indices (flags as 0/1)
#   fmt table   : n, per entry  pool index, text
#   strings     : n, per string  text                    (text = nwords, words of 6 bytes)
#   8 options   : string index, outcome (0 nsegs segs | 1 errcode | 2 = a None coordinate)
def fwords(x):
    x = float(x)
    sign = 1 if math.copysign(1.0, x) < 0 else 0
    m, e = math.frexp(abs(x))
    mant = int(m * 2 ** 53)
    assert mant * 2.0 ** (e - 53) == abs(x) and math.isfinite(x), x
    return [mant, 2 * (e - 53 + 2101) + sign]


def twords(s):
    b = s.encode('ascii')
    ws = [int.from_bytes(b'\x01' + b[i:i + 6], 'big') for i in range(0, len(b), 6)]
    return [len(ws)] + ws


class Pool:
    def __init__(self):
        self.idx, self.vals = {}, []

    def get(self, x):
        x = float(x)
        k = x.hex()
        if k not in self.idx:
            self.idx[k] = len(self.vals)
            self.vals.append(x)
        return self.idx[k]

    def pt(self, z):
        z = complex(z)
        return [self.get(z.real), self.get(z.imag)]


def seg_fields(seg):
    """(kind, list of numbers / bools) as the object stores them"""
    n = type(seg).__name__
    if n == 'Line':
        return 0, [seg.start, seg.end]
    if n == 'QuadraticBezier':
        return 1, [seg.start, seg.control, seg.end]
    if n == 'CubicBezier':
        return 2, [seg.start, seg.control1, seg.control2, seg.end]
    return 3, [seg.start, seg.radius, float(seg.rotation), bool(seg.large_arc), bool(seg.sweep), seg.end]


def enc_seg(pool, seg):
    kind, fs = seg_fields(seg)
    w = [kind]
    for f in fs:
        if isinstance(f, bool):
            w.append(1 if f else 0)
        elif isinstance(f, float):
            w.append(pool.get(f))
        else:
            w += pool.pt(f)
    return w


def has_none(path):
    for seg in path:
        for f in seg_fields(seg)[1]:
            if f is None:
                return True
    return False


def words(ws):
    return coq_list([hex(w) for w in ws]) + '%uint63'


OKDEF = r'''
From Coq Require Import Ascii String Uint63 PrimFloat.
From SVP Require Import Base.FloatK Model.Parse Model.Lexer Model.Dstr Model.DstrText.
Definition N := NumF.
Definition rd (A : Type) : Type := list int -> option (A * list int).
Definition rret {A} (a : A) : rd A := fun s => Some (a, s).
Definition rfail {A} : rd A := fun _ => None.
Definition rbind {A B} (x : rd A) (f : A -> rd B) : rd B :=
  fun s => match x s with Some (a, r) => f a r | None => None end.
Definition rd_int : rd Z := fun s => match s with w :: r => Some (Uint63.to_Z w, r) | [] => None end.
Definition rd_nat : rd nat := rbind rd_int (fun z => rret (Z.to_nat z)).
Definition rd_bool : rd bool := rbind rd_int (fun z => rret (negb (Z.eqb z 0))).
Fixpoint rd_rep {A} (x : rd A) (n : nat) : rd (list A) :=
  match n with O => rret [] | S m => rbind x (fun a => rbind (rd_rep x m) (fun l => rret (a :: l))) end.
Definition rd_list {A} (x : rd A) : rd (list A) := rbind rd_nat (rd_rep x).
(* mantissa * 2^(e - 2101), sign in the low bit of the second word *)
Definition rd_float : rd float := fun s =>
  match s with
  | m :: es :: r =>
      let f := PrimFloat.ldshiftexp (PrimFloat.of_uint63 m) (Uint63.lsr es 1) in
      Some (if Uint63.eqb (Uint63.land es 1) 1 then PrimFloat.opp f else f, r)
  | _ => None
  end.
Fixpoint unpack_fuel (fuel : nat) (z : Z) (acc : list ascii) : list ascii :=
  match fuel with
  | O => acc
  | S f => if (z <=? 1)%Z then acc
           else unpack_fuel f (Z.shiftr z 8) (ascii_of_N (Z.to_N (Z.land z 255)) :: acc)
  end.
Definition rd_text : rd (list ascii) :=
  rbind (rd_list rd_int) (fun ws => rret (flat_map (fun z => unpack_fuel 8 z []) ws)).

Definition fbad : float := 12345.678%float.
Definition rd_pf (pool : list float) : rd float := rbind rd_nat (fun i => rret (nth i pool fbad)).
Definition rd_pp (pool : list float) : rd (Cplx float) :=
  rbind (rd_pf pool) (fun x => rbind (rd_pf pool) (fun y => rret (x, y))).
Definition rd_seg (pool : list float) : rd (seg float) :=
  rbind rd_int (fun kind =>
    match kind with
    | 0%Z => rbind (rd_pp pool) (fun s => rbind (rd_pp pool) (fun e => rret (Line s e)))
    | 1%Z => rbind (rd_pp pool) (fun s => rbind (rd_pp pool) (fun c => rbind (rd_pp pool) (fun e => rret (Quad s c e))))
    | 2%Z => rbind (rd_pp pool) (fun s => rbind (rd_pp pool) (fun c1 => rbind (rd_pp pool) (fun c2 =>
             rbind (rd_pp pool) (fun e => rret (Cubic s c1 c2 e)))))
    | 3%Z => rbind (rd_pp pool) (fun s => rbind (rd_pp pool) (fun r => rbind (rd_pf pool) (fun rot =>
             rbind rd_bool (fun la => rbind rd_bool (fun sw => rbind (rd_pp pool) (fun e =>
               rret (Arc s r rot la sw e)))))))
    | _ => rfail
    end).
Inductive outcome := IOk (l : list (seg float)) | IErr (code : nat) | INone.
Definition rd_outcome (pool : list float) : rd outcome :=
  rbind rd_int (fun st =>
    match st with
    | 0%Z => rbind (rd_list (rd_seg pool)) (fun l => rret (IOk l))
    | 1%Z => rbind rd_nat (fun c => rret (IErr c))
    | 2%Z => rret INone
    | _ => rfail
    end).
Record case := mkCase {
  c_flags : Z; c_path : list (seg float); c_fmt : list (float * list ascii);
  c_strs : list (list ascii); c_opts : list (nat * outcome) }.
Definition rd_case : rd case :=
  rbind rd_int (fun flags => rbind (rd_list rd_float) (fun pool =>
  rbind (rd_list (rd_seg pool)) (fun path =>
  rbind (rd_list (rbind (rd_pf pool) (fun x => rbind rd_text (fun t => rret (x, t))))) (fun fmt =>
  rbind (rd_list rd_text) (fun strs =>
  rbind (rd_rep (rbind rd_nat (fun i => rbind (rd_outcome pool) (fun o => rret (i, o)))) 8) (fun opts =>
  rret (mkCase flags path fmt strs opts))))))).

(* ---- the formatting oracle, as the table of what Python printed ---- *)
Definition fneg (x : float) : bool := PrimFloat.ltb (PrimFloat.div 1 x) 0.
Definition fsame (a b : float) : bool := PrimFloat.eqb a b && Bool.eqb (fneg a) (fneg b).
Fixpoint fmt_of (tab : list (float * list ascii)) (x : float) : list ascii :=
  match tab with
  | [] => ["?"%char]
  | (y, t) :: r => if fsame x y then t else fmt_of r x
  end.
Fixpoint text_eqb (a b : list ascii) : bool :=
  match a, b with
  | [], [] => true
  | x :: a', y :: b' => Ascii.eqb x y && text_eqb a' b'
  | _, _ => false
  end.
Fixpoint unfmt_of (tab : list (float * list ascii)) (t : list ascii) : float :=
  match tab with
  | [] => match t with
          | ["0"%char] => 0%float | ["1"%char] => 1%float   (* the arc flags, '{:d}' *)
          | _ => fbad end
  | (y, u) :: r => if text_eqb t u then y else unfmt_of r t
  end.

(* ---- comparison ---- *)
Definition tol12 : float := 0x1.19799812dea11p-40%float.   (* 1e-12 *)
Definition rclose (a b : float) : bool :=
  PrimFloat.leb (fabs (PrimFloat.sub a b)) (PrimFloat.mul tol12 (fabs b)).
Definition seg_match (m i : seg float) : bool :=
  match m, i with
  | Arc s r rot la sw e, Arc s' r' rot' la' sw' e' =>
      ceqb N s s' && rclose (fst r') (fst r) && rclose (snd r') (snd r) && Num.eqb N rot rot'
      && Bool.eqb la la' && Bool.eqb sw sw' && ceqb N e e'
  | _, _ => seg_eqb N m i
  end.
Fixpoint segs_match (l1 l2 : list (seg float)) : bool :=
  match l1, l2 with
  | [], [] => true
  | a :: r1, b :: r2 => seg_match a b && segs_match r1 r2
  | _, _ => false
  end.
Definition err_match (e : perr) (c : nat) : bool :=
  match e with
  | IndexError => Nat.eqb c 1 | ValueError => Nat.eqb c 2 | TypeError => Nat.eqb c 3
  | AttributeError => Nat.eqb c 4 | AssertionError => Nat.eqb c 5
  | _ => false
  end.
Definition res_match (r : result (list (seg float))) (o : outcome) : bool :=
  match r, o with
  | Ok l, IOk l' => segs_match l l'
  | Err StartNone, INone => true
  | Err e, IErr c => err_match e c
  | _, _ => false
  end.
Definition tokf_eqb (a b : tok float) : bool :=
  match a, b with
  | TCmd c u, TCmd c' u' => cmd_eqb c c' && Bool.eqb u u'
  | TNum v, TNum v' => fsame v v'
  | _, _ => false
  end.
Fixpoint toksf_eqb (l1 l2 : list (tok float)) : bool :=
  match l1, l2 with
  | [], [] => true
  | a :: r1, b :: r2 => tokf_eqb a b && toksf_eqb r1 r2
  | _, _ => false
  end.

Definition bit (z : Z) (k : Z) : bool := Z.testbit z k.
(* option k = 4 useST + 2 closeZ + rel; result 10*(k+1) + what failed *)
Definition check_opt (c : case) (k : nat) (io : nat * outcome) : nat :=
  let f := c_flags c in
  let useST := bit (Z.of_nat k) 2 in let closeZ := bit (Z.of_nat k) 1 in let rel := bit (Z.of_nat k) 0 in
  let zfix := bit f 2 in let sfix := bit f 3 in let mfix := bit f 4 in
  let impl_d := nth (fst io) (c_strs c) [] in
  let model_d := d_text N (fmt_of (c_fmt c)) zfix sfix mfix useST closeZ rel (c_path c) in
  if negb (text_eqb model_d impl_d) then 10 * (k + 1) + 1
  else if negb (toksf_eqb (lexK (unfmt_of (c_fmt c)) impl_d)
                          (d_tokens N zfix sfix mfix useST closeZ rel (c_path c))) then 10 * (k + 1) + 2
  else if negb (res_match (roundtrip N (bit f 0) (bit f 1) zfix sfix mfix useST closeZ rel (c_path c)) (snd io))
       then 10 * (k + 1) + 3
  else 0.
Fixpoint check_opts (c : case) (k : nat) (l : list (nat * outcome)) : nat :=
  match l with
  | [] => 0
  | io :: r => match check_opt c k io with O => check_opts c (S k) r | n => n end
  end.
Definition casety : Type := list int.
Definition ok (ws : casety) : nat :=
  match rd_case ws with
  | Some (c, []) => check_opts c 0 (c_opts c)
  | _ => 9
  end.
'''


# ----------------------------------------------------------------- inputs
def lit_pool(rng):
    """one coordinate from the pools of the quantifier"""
    r = rng.random()
    if r < 0.22:
        return float(rng.randint(-20, 20))
    if r < 0.40:
        return rng.randint(-41, 41) / 2.0
    if r < 0.50:
        return rng.choice([1e-7, -1e-7, 3e-7, 2.5e-7, 1.25e-7, -7e-8, 1e-5, 5e-324 * 2 ** 60]) * rng.choice([1, 1, 2, 3])
    if r < 0.60:
        return rng.choice([1e16, -1e16, 2e16, 1e16 + 2, 3e15, 1.5e17, -4e16, 1e22]) * rng.choice([1, 1, 3])
    if r < 0.64:
        return -0.0
    if r < 0.68:
        return 0.0
    m = rng.getrandbits(53) | (1 << 52)
    e = rng.randint(-10, 20)
    return math.ldexp(m, e - 53) * rng.choice([1, -1])


class Scale:
    """a path draws its coordinates from one or two of the pools"""
    def __init__(self, rng):
        self.rng = rng
        mode = rng.random()
        if mode < 0.32:
            self.kinds = ['int', 'half']
        elif mode < 0.45:
            self.kinds = ['rand']
        elif mode < 0.55:
            self.kinds = ['tiny']
        elif mode < 0.67:
            # drawings in tiny units: every coordinate (and hence every arc radius) of order 1e-12..1e-8
            self.kinds = ['nano']
            self.unit = rng.choice([1e-8, 2.5e-9, 1e-9, 1e-10, 1e-11, 1e-12])
        elif mode < 0.78:
            self.kinds = ['huge']
        else:
            self.kinds = ['any']

    def num(self):
        rng = self.rng
        k = rng.choice(self.kinds)
        if rng.random() < 0.04:
            return rng.choice([-0.0, 0.0])
        if k == 'int':
            return float(rng.randint(-20, 20))
        if k == 'half':
            return rng.randint(-41, 41) / 2.0
        if k == 'tiny':
            return rng.choice([1e-7, 3e-7, 2.5e-7, 1.25e-7, 7e-8, 1e-5, 9.5e-7, 4.2e-8]) * rng.choice([1, -1, 2, 3, -5])
        if k == 'nano':
            return rng.choice([rng.randint(-50, 50), rng.randint(-99, 99) / 4.0, rng.uniform(-30, 30)]) * self.unit
        if k == 'huge':
            return rng.choice([1e16, 2e16, 1e16 + 2, 3e15, 1.5e17, 4e16, 1e22, 7e15]) * rng.choice([1, -1, 3])
        if k == 'rand':
            m = rng.getrandbits(53) | (1 << 52)
            return math.ldexp(m, rng.randint(-10, 20) - 53) * rng.choice([1, -1])
        return lit_pool(rng)

    def pt(self, avoid=()):
        for _ in range(50):
            z = complex(self.num(), self.num())
            if all(z != a for a in avoid):
                return z
        return complex(self.num() + 1.5, self.num() - 2.5)


def gen_path(rng):
    """returns (list of segments, structure tag) or None"""
    from svgpathtools import Line, QuadraticBezier, CubicBezier, Arc
    sc = Scale(rng)
    n = rng.randint(1, 7)
    structure = rng.choice(['open', 'closed-line', 'closed-curve', 'subpaths', 'revisit', 'closed-line', 'closed-curve',
                            'subpaths-return-line', 'subpaths-return-curve'])
    if structure in ('closed-line', 'subpaths-return-line', 'subpaths-return-curve') and n < 2:
        n = 2
    # several subpaths, the last one ending on the starting point of the first: start == end, not continuous
    returning = structure.startswith('subpaths-return')
    jump_at = rng.randint(1, n - 1) if returning else None
    if structure == 'revisit' and n < 3:
        n = 3
    start = sc.pt()
    segs = []
    cur = start
    revisit_at = rng.randint(1, n - 2) if structure == 'revisit' else None
    for i in range(n):
        last = (i == n - 1)
        kind = rng.choice(['L', 'Q', 'C', 'A'])
        # where does the segment start?
        if structure == 'subpaths' and i > 0 and rng.random() < 0.5:
            cur = sc.pt(avoid=[cur])
        if returning and i > 0 and (i == jump_at or rng.random() < 0.25):
            cur = sc.pt(avoid=[cur, start])
        s = cur
        # where does it end?
        if last and (returning or structure in ('closed-line', 'closed-curve', 'revisit')):
            e = start
            if structure in ('closed-line', 'subpaths-return-line'):
                kind = 'L'
            elif structure in ('closed-curve', 'subpaths-return-curve'):
                kind = rng.choice(['Q', 'C', 'A'])
        elif structure == 'revisit' and i == revisit_at - 1 + 0 and i >= 0 and revisit_at is not None and i == revisit_at - 1:
            e = start
        else:
            e = sc.pt(avoid=[s])
        if e == s:
            if kind in ('L', 'A'):
                kind = rng.choice(['Q', 'C'])
        prev = segs[-1] if segs else None
        smooth = rng.random() < 0.5
        if kind == 'L':
            seg = Line(s, e)
        elif kind == 'Q':
            c = sc.pt()
            if smooth:
                if isinstance(prev, QuadraticBezier) and prev.end == s:
                    c = mk_reflect(rng, s, prev.control)
                else:
                    c = s
            seg = QuadraticBezier(s, c, e)
        elif kind == 'C':
            c1, c2 = sc.pt(), sc.pt()
            if smooth:
                if isinstance(prev, CubicBezier) and prev.end == s:
                    c1 = mk_reflect(rng, s, prev.control2)
                else:
                    c1 = s
            seg = CubicBezier(s, c1, c2, e)
        else:
            d = abs(e - s)
            mode = rng.random()
            if mode < 0.4:      # too small: Arc.__init__ enlarges the radii
                r = complex(d * rng.uniform(0.05, 0.45), d * rng.uniform(0.05, 0.45))
            elif mode < 0.7:
                r = complex(d * rng.uniform(0.6, 3), d * rng.uniform(0.6, 3))
            else:
                r = complex(abs(sc.num()) or 1.0, abs(sc.num()) or 2.0)
            rot = rng.choice([0.0, 30.0, 45.5, -60.0, 90.0, rng.uniform(-180, 180)])
            try:
                seg = Arc(s, r, rot, rng.random() < 0.5, rng.random() < 0.5, e)
                if not (math.isfinite(seg.radius.real) and math.isfinite(seg.radius.imag)
                        and seg.radius.real > 0 and seg.radius.imag > 0):
                    raise ValueError('radius')
            except Exception:
                seg = CubicBezier(s, sc.pt(), sc.pt(), e)
        segs.append(seg)
        cur = e
    return segs, structure


def mk_reflect(rng, s, pc):
    """a control point that makes the join smooth: half of the time the parser's
    own expression (s+s)-pc, half of the time one that satisfies the code's test
    (c - s) == (s - pc)"""
    if rng.random() < 0.5:
        return (s + s) - pc
    c = s + (s - pc)
    if (c - s) == (s - pc):
        return c
    for dx in (0, 1, -1):
        for dy in (0, 1, -1):
            cx = c.real if dx == 0 else math.nextafter(c.real, math.inf * dx)
            cy = c.imag if dy == 0 else math.nextafter(c.imag, math.inf * dy)
            c2 = complex(cx, cy)
            if (c2 - s) == (s - pc):
                return c2
    return c


# ---------------------------------------------------------- implementation
def observe(segs):
    """run the implementation on all 8 option sets"""
    from svgpathtools import Path, parse_path
    obs = []
    for (u, z, r) in OPTS:
        p = Path(*segs)
        o = {'opts': (u, z, r)}
        try:
            o['d'] = p.d(useSandT=u, use_closed_attrib=z, rel=r)
        except Exception as ex:
            o['d'] = None
            o['d_exc'] = type(ex).__name__ + ': ' + str(ex)[:200]
            obs.append(o)
            continue
        try:
            o['q'] = parse_path(o['d'])
        except Exception as ex:
            o['q'] = None
            o['q_exc'] = type(ex).__name__
            o['q_msg'] = str(ex)[:200]
        obs.append(o)
    return obs


def numbers_of(d):
    """the numeral texts of a d-string, flags excluded (they follow the arc's rotation)"""
    out = []
    toks = re.findall(r'[MmZzLlHhVvCcSsQqTtAa]|[^MmZzLlHhVvCcSsQqTtAa\s,]+', d)
    i = 0
    while i < len(toks):
        t = toks[i]
        if t in 'Aa' and len(t) == 1:
            out += toks[i + 1:i + 4] + toks[i + 6:i + 8]
            i += 8
        elif len(t) == 1 and t in 'MmZzLlHhVvCcSsQqTtAa':
            i += 1
        else:
            out.append(t)
            i += 1
    return out


def encode_case(segs, obs, flags, rep_bad):
    pool = Pool()
    w = [flags]
    path_w = [len(segs)]
    for s in segs:
        path_w += enc_seg(pool, s)
    fmt = {}
    strs, sidx = [], {}
    opt_w = []
    for o in obs:
        d = o['d']
        if d not in sidx:
            sidx[d] = len(strs)
            strs.append(d)
            for t in numbers_of(d):
                try:
                    x = float(t)
                except ValueError:
                    rep_bad.append(('not-a-number', t, d))
                    continue
                if not FLOAT_RE.match(t) or not math.isfinite(x) or repr(x) != t and '{}'.format(x) != t:
                    rep_bad.append(('repr-shape', t, d))
                fmt.setdefault(x.hex(), (x, t))
                if fmt[x.hex()][1] != t:
                    rep_bad.append(('repr-not-a-function', t, d))
        opt_w.append(sidx[d])
        q = o.get('q')
        if q is None:
            opt_w += [1, ERR.get(o.get('q_exc'), 99)]
        elif has_none(q):
            opt_w += [2]
        else:
            opt_w += [0, len(q)]
            for s in q:
                opt_w += enc_seg(pool, s)
    fmt_w = [len(fmt)]
    for x, t in fmt.values():
        fmt_w += [pool.get(x)] + twords(t)
    str_w = [len(strs)]
    for d in strs:
        str_w += twords(d)
    pool_w = [len(pool.vals)]
    for x in pool.vals:
        pool_w += fwords(x)
    return words(w + pool_w + path_w + fmt_w + str_w + opt_w)


# ------------------------------------------------------------- the property
def ulps(a, b):
    if a == b:
        return 0
    m = max(abs(a), abs(b))
    return abs(a - b) / (math.ulp(m) if m else 5e-324)


def cdiff_ulps(a, b):
    return max(ulps(a.real, b.real), ulps(a.imag, b.imag))


def path_is_closed_continuous(segs):
    return all(segs[i].end == segs[i + 1].start for i in range(len(segs) - 1)) and segs[0].start == segs[-1].end


def holds_impl(segs, o):
    """None when parse_path(p.d(**opts)) relates to p as the statement says, else (key, message)"""
    from svgpathtools import Line, QuadraticBezier, CubicBezier, Arc
    u, z, r = o['opts']
    d, q = o['d'], o.get('q')
    if d is None:
        return 'd-raises', 'Path.d raised %s' % o.get('d_exc')
    closedc = path_is_closed_continuous(segs)
    if d in ('Z', 'z'):
        return 'd-single-closed-curve-gives-Z', "d() of a single closed segment is %r" % d
    if q is None:
        return 'd-output-unparseable-' + o['q_exc'], 'parse_path(d) raised %s: %s' % (o['q_exc'], o.get('q_msg'))
    if has_none(q):
        return 'd-output-parses-to-None-coordinate', 'parse_path(d) has a None coordinate'
    q = list(q)
    n = len(segs)
    coords = [abs(c) for s in segs for f in seg_fields(s)[1] if isinstance(f, complex) for c in (f.real, f.imag)]
    tol = n * 2.0 ** -50 * max(coords + [0.0]) if r else 0.0
    extra = None
    if len(q) == n + 1 and r and z and closedc and not isinstance(segs[-1], Line) and isinstance(q[-1], Line) \
            and abs(q[-1].end - q[-1].start) <= tol:
        extra, q = q[-1], q[:-1]          # the documented closing line of rounding-error length
    contin = all(segs[i].end == segs[i + 1].start for i in range(len(segs) - 1))
    z_for_jumps = z and not contin and d.rstrip()[-1:] in 'Zz'     # a 'Z' although the path has several subpaths
    ndraw = len(re.findall(r'[LlHhVvCcSsQqTtAa]', d))             # drawing commands written
    kinds_p = [(type(s).__name__,) + ((s.large_arc, s.sweep) if isinstance(s, Arc) else ()) for s in segs]
    kinds_q = [(type(s).__name__,) + ((s.large_arc, s.sweep) if isinstance(s, Arc) else ()) for s in q]
    if kinds_p != kinds_q:
        if z and closedc and not isinstance(segs[-1], Line) and len(q) == n and kinds_p[:-1] == kinds_q[:-1] \
                and isinstance(q[-1], Line) and ndraw == n - 1:
            return 'd-closed-attrib-drops-closing-curve', 'closing %s re-parsed as a Line' % kinds_p[-1][0]
        if z and closedc and not isinstance(segs[-1], Line) and kinds_q == kinds_p[:-1] and ndraw == n - 1:
            return 'd-closed-attrib-drops-closing-curve', ('closing %s dropped altogether (it starts and ends on the '
                                                           'start of the path, so Z adds nothing)') % kinds_p[-1][0]
        if z_for_jumps:
            return 'd-Z-written-for-path-with-several-subpaths', ("'Z' written although the path is not continuous "
                                                                  "(start == end only): kinds %s became %s") % (kinds_p, kinds_q)
        if len(kinds_p) == len(kinds_q):
            for i, (a, b) in enumerate(zip(kinds_p, kinds_q)):
                if a != b:
                    if a[0] == 'Arc' and b[0] == 'Line':
                        return 'd-arc-reparsed-as-line', ('segment %d: Arc with radius %r (non-zero) re-parsed as a Line'
                                                          % (i, segs[i].radius))
                    break
        return 'd-segments-dropped-added-or-changed-kind', 'kinds %s became %s' % (kinds_p, kinds_q)
    bad = []
    for i, (a, b) in enumerate(zip(segs, q)):
        ka, fa = seg_fields(a)
        kb, fb = seg_fields(b)
        names = {0: ['start', 'end'], 1: ['start', 'control', 'end'], 2: ['start', 'control1', 'control2', 'end'],
                 3: ['start', 'radius', 'rotation', 'large_arc', 'sweep', 'end']}[ka]
        for nm, x, y in zip(names, fa, fb):
            if nm == 'radius':
                okk = abs(x.real - y.real) <= 1e-12 * x.real and abs(x.imag - y.imag) <= 1e-12 * x.imag
            elif isinstance(x, complex):
                okk = (x == y) if not r else (abs(x.real - y.real) <= tol and abs(x.imag - y.imag) <= tol)
            else:
                okk = (x == y)
            if not okk:
                bad.append((i, nm, x, y))
    if not bad:
        return None
    # classify
    if u and all(nm in ('control', 'control1') for _, nm, _, _ in bad):
        i, nm, x, y = bad[0]
        if y == q[i].start and closedc and z and segs[i].start == segs[-1].end and i > 0:
            return 'd-ST-after-reemitted-M', ("segment %d: %s %r re-parsed as the current point %r: S/T was written "
                                             "directly after a re-emitted 'M'") % (i, nm, x, y)
        if not r and all(cdiff_ulps(x, y) <= 4 for _, _, x, y in bad):
            return 'd-ST-reflection-rounding', ('segment %d: %s %r re-parsed as %r (%.1f ulp): is_smooth_from said smooth, '
                                               'the parser reflects differently') % (i, nm, x, y, cdiff_ulps(x, y))
    i, nm, x, y = bad[0]
    if z_for_jumps:
        return 'd-Z-written-for-path-with-several-subpaths', ("'Z' written although the path is not continuous (start == end "
                                                              "only): segment %d: %s %r re-parsed as %r") % (i, nm, x, y)
    return ('d-rel-roundtrip-beyond-rounding' if r else 'd-abs-roundtrip-not-equal'), \
        'segment %d: %s %r re-parsed as %r' % (i, nm, x, y)


# ------------------------------------------------------------------ probes
def probe_variant():
    """which variant of the models is the code of /repo?  (the witnesses of Props/C01.v, Props/C02.v)"""
    from svgpathtools import Path, Line, CubicBezier, parse_path
    v = {}
    p = Path(Line(0j, 1 + 0j), Line(1 + 0j, 1 + 1j), CubicBezier(1 + 1j, 2 + 2j, -1 + 1j, 0j))
    v['zfix'] = 'C' in p.d(use_closed_attrib=True)
    s = float.fromhex('0x1.248dee7a5a1dap+3'); c2 = float.fromhex('-0x1.3c589dc14e095p+3')
    c1 = float.fromhex('0x1.c2ba3d5b01225p+4')
    p = Path(CubicBezier(0j, 1 + 0j, complex(c2, 0), complex(s, 0)), CubicBezier(complex(s, 0), complex(c1, 0), 5 + 0j, 6 + 1j))
    v['sfix'] = 'S' not in p.d(useSandT=True)
    p = Path(CubicBezier(0j, 1 + 1j, 2 + 1j, 3 + 0j), CubicBezier(3 + 0j, 4 - 1j, -1 - 2j, 0j),
             CubicBezier(0j, 1 + 2j, 5 + 5j, 6 + 1j), Line(6 + 1j, 0j))
    v['mfix'] = 'M 0.0,0.0 S' not in p.d(useSandT=True, use_closed_attrib=True)
    try:
        parse_path('M0,0 L1,1 Z S 2,2 3,3')
        v['none_ok'] = True
    except TypeError:
        v['none_ok'] = False
    try:
        parse_path('M1,1 A2,2 0 0 1 1,1')
        v['coinc_ok'] = True
    except AssertionError:
        v['coinc_ok'] = False
    return v


def segs_json(segs):
    out = []
    for s in segs:
        k, fs = seg_fields(s)
        out.append([k] + [common.chex(f) if isinstance(f, complex) else (f if isinstance(f, bool) else common.fhex(f)) for f in fs])
    return out


def segs_from_json(js):
    from svgpathtools import Line, QuadraticBezier, CubicBezier, Arc
    def cz(a):
        return complex(float.fromhex(a[0]), float.fromhex(a[1]))
    out = []
    for row in js:
        k, fs = row[0], row[1:]
        if k == 0:
            out.append(Line(cz(fs[0]), cz(fs[1])))
        elif k == 1:
            out.append(QuadraticBezier(cz(fs[0]), cz(fs[1]), cz(fs[2])))
        elif k == 2:
            out.append(CubicBezier(cz(fs[0]), cz(fs[1]), cz(fs[2]), cz(fs[3])))
        else:
            out.append(Arc(cz(fs[0]), cz(fs[1]), float.fromhex(fs[2]), fs[3], fs[4], cz(fs[5])))
    return out


def corpus():
    """hand-picked edge cases, run first (the witnesses of Props/C01.v among them)"""
    from svgpathtools import Line, QuadraticBezier, CubicBezier, Arc
    s = float.fromhex('0x1.248dee7a5a1dap+3'); c2 = float.fromhex('-0x1.3c589dc14e095p+3')
    c1 = float.fromhex('0x1.c2ba3d5b01225p+4')
    return [
        ([Line(0j, 1 + 0j), Line(1 + 0j, 1 + 1j), CubicBezier(1 + 1j, 2 + 2j, -1 + 1j, 0j)], 'corpus:closing-cubic'),
        ([CubicBezier(0j, 2 + 2j, -1 + 1j, 0j)], 'corpus:single-closed-curve'),
        ([CubicBezier(0j, 1 + 0j, complex(c2, 0), complex(s, 0)),
          CubicBezier(complex(s, 0), complex(c1, 0), 5 + 0j, 6 + 1j)], 'corpus:ST-float-witness'),
        ([CubicBezier(0j, 1 + 1j, 2 + 1j, 3 + 0j), CubicBezier(3 + 0j, 4 - 1j, -1 - 2j, 0j),
          CubicBezier(0j, 1 + 2j, 5 + 5j, 6 + 1j), Line(6 + 1j, 0j)], 'corpus:S-after-reemitted-M'),
        ([QuadraticBezier(0j, 1 + 1j, 3 + 0j), QuadraticBezier(3 + 0j, 5 - 1j, 0j),
          QuadraticBezier(0j, -5 + 1j, 6 + 1j), Line(6 + 1j, 0j)], 'corpus:T-after-reemitted-M'),
        ([Line(0j, 1 + 0j), Line(1 + 0j, 0j), Line(0j, 1j), Line(1j, 0j)], 'corpus:revisit'),
        ([Line(0j, 4 + 0j), Arc(4 + 0j, 2 + 1j, 30.0, True, False, 4 + 4j), Line(4 + 4j, 0j),
          CubicBezier(10 + 10j, 12 + 14j, 14 + 14j, 16 + 10j), CubicBezier(16 + 10j, 18 + 6j, 12 + 2j, 10 + 10j),
          QuadraticBezier(20 + 0j, 22 + 4j, 24 + 0j), QuadraticBezier(24 + 0j, 26 - 4j, 28 + 0j),
          Line(28 + 0j, 30 + 5j)], 'corpus:three-subpaths'),
        ([QuadraticBezier(0j, 1 + 1j, 2 + 0j), QuadraticBezier(2 + 0j, 3 - 1j, 4 + 0j),
          QuadraticBezier(4 + 0j, 5 + 1j, 6 + 0j), QuadraticBezier(6 + 0j, 7 - 1j, 8 + 0j)], 'corpus:T-chain'),
        ([Arc(0j, 1e-3 + 1e-3j, 0.0, False, True, 10 + 0j), Arc(10 + 0j, 5 + 5j, 0.0, True, True, 0j)], 'corpus:arcs-autoscaled-closed'),
        ([Line(0j, complex(3e-9, 0)), Arc(complex(3e-9, 0), complex(2e-9, 1.5e-9), 30.0, False, True, complex(3e-9, 4e-9)),
          Arc(complex(3e-9, 4e-9), complex(5e-12, 7e-12), 0.0, True, False, 0j)], 'corpus:tiny-unit-arcs'),
        ([Arc(complex(1e-12, 0), complex(1e-12, 1e-12), 0.0, False, True, complex(-1e-12, 0))], 'corpus:tiny-unit-arc-alone'),
        ([Line(0j, 4 + 0j), Line(4 + 0j, 4 + 3j), Line(10 + 10j, 12 + 10j), Line(12 + 10j, 0j)], 'corpus:subpaths-return-line'),
        ([Line(0j, 4 + 0j), Line(10 + 10j, 0j)], 'corpus:subpaths-return-single-line'),
        ([Line(0j, 4 + 0j), Line(4 + 0j, 4 + 3j), Line(10 + 10j, 12 + 10j),
          CubicBezier(12 + 10j, 14 + 12j, 3 + 5j, 0j)], 'corpus:subpaths-return-curve'),
        ([Line(complex(-0.0, 0.0), complex(1e16, 1e-7)), QuadraticBezier(complex(1e16, 1e-7), complex(-0.0, -0.0), complex(0.0, -0.0))],
         'corpus:signed-zero'),
    ]


def run(rep, tier, seed, replay=None):
    warnings.simplefilter('ignore')
    rng = common.mkrng(seed, 'C01')
    with common.Scratch() as tmp:
        info = common.std_static(rep, 'C01', GEN_GROUPS, AGREE, tmp)
        v = probe_variant()
        flags = (1 if v['none_ok'] else 0) + (2 if v['coinc_ok'] else 0) + (4 if v['zfix'] else 0) \
            + (8 if v['sfix'] else 0) + (16 if v['mfix'] else 0)
        rep.cov['code_is_variant'] = v
        th = []
        th.append('C01_abs_noST (all variants)')
        th.append('C01_abs_ST_fixed' if v['sfix'] else 'C01_abs_ST (needs ReflectOK: exact carriers only; C01_ST_float_refuted applies)')
        if v['zfix'] and v['sfix'] and v['mfix']:
            th.append('C01_abs_fixed / C01_fixed_exact (no side condition)')
        else:
            th.append('C01_closeZ_partial / C01_rel_exact with side conditions: ' + ', '.join(
                ([] if v['zfix'] else ['closing_ok (closing segment is a Line); C01_closeZ_closing_curve_refuted, C01_closeZ_single_curve_refuted apply']) +
                ([] if v['mfix'] else ['restart_ok (no S/T after a re-emitted M); C01_smooth_after_moveto_refuted applies'])))
        rep.cov['applicable_theorems'] = th
        rep.notes.append('the code of /repo is variant zfix=%s sfix=%s mfix=%s of d_cmds (parser none_ok=%s coinc_ok=%s)'
                         % (v['zfix'], v['sfix'], v['mfix'], v['none_ok'], v['coinc_ok']))
        npaths = 400 if tier == 'quick' else 10000
        if (info['agree_failed'] or info['untranslated']) and tier == 'quick':
            npaths *= 4       # the code the model mirrors changed: search harder
        todo = []
        if replay:
            r = json.load(open(replay))['replay']
            todo.append((segs_from_json(r['path']), 'replay'))
        else:
            todo += corpus()
            while len(todo) < npaths:
                g = gen_path(rng)
                if g is not None:
                    todo.append(g)
        cases, meta, dist, kindsdist = [], [], {}, {}
        pending = []          # (key, what, replay, found_input)
        nontrivial = set()
        contract_bad = []
        n_eval = 0
        prop_fail = 0
        for segs, tag in todo:
            dist[tag.split(':')[0]] = dist.get(tag.split(':')[0], 0) + 1
            for s in segs:
                kindsdist[type(s).__name__] = kindsdist.get(type(s).__name__, 0) + 1
            obs = observe(segs)
            n_eval += len(obs)
            # ---- (b) the property, on the implementation
            for o in obs:
                res = holds_impl(segs, o)
                if res is not None:
                    key, msg = res
                    prop_fail += 1
                    u, z, r = o['opts']
                    pending.append((key, 'C01: parse_path(p.d(useSandT=%s, use_closed_attrib=%s, rel=%s)) is not p: %s' % (u, z, r, msg),
                                  {'kind': 'property', 'path': segs_json(segs), 'structure': tag,
                                   'opts': {'useSandT': u, 'use_closed_attrib': z, 'rel': r}, 'd': o['d'],
                                   'reparsed': repr(o.get('q'))[:1500], 'why': msg,
                                   'how': './check C01 --replay <this file>; or: build the Path from "path" (hex floats: '
                                          'kind 0 Line,1 Quadratic,2 Cubic,3 Arc) and compare parse_path(p.d(**opts)) with p'},
                                  True))
            # ---- (a) the tie, inside Coq
            if any(o['d'] is None for o in obs):
                continue
            bad = []
            cases.append(encode_case(segs, obs, flags, bad))
            contract_bad += bad
            meta.append((segs, tag, obs))
            ks = set(type(s).__name__ for s in segs)
            if len(ks) >= 2 or (path_is_closed_continuous(segs) and type(segs[-1]).__name__ != 'Line'):
                nontrivial.add(json.dumps(segs_json(segs)))
        for what, t, d in contract_bad[:3]:
            rep.violation('the formatting oracle breaks its contract (%s) on %r in %r' % (what, t, d),
                          {'kind': 'oracle-contract', 'what': what, 'text': t, 'd': d}, key='repr-contract')
        fails, errors = common.run_cases(tmp, '', 'casety', OKDEF, cases, shard=25 if tier == 'quick' else 100,
                                         timeout=1500)
        for e in errors:
            rep.violation('correspondence case file failed to evaluate', {'kind': 'cases', 'error': e},
                          found_input=False, key='cases-error')
        WHAT = {1: 'the d-string differs from the model\'s (Model/DstrText.v d_text)',
                2: 'tokenizing the d-string does not give the tokens of Model/Dstr.v d_cmds',
                3: 'parse_path(d) differs from the model\'s parse of its own d-string (Model/Parse.v impl_parse)'}
        for idx, code in fails:
            segs, tag, obs = meta[idx]
            if code == 9:
                rep.violation('case stream not decoded', {'kind': 'cases', 'path': segs_json(segs)}, found_input=False,
                              key='cases-error')
                continue
            k, j = code // 10 - 1, code % 10
            u, z, r = OPTS[k]
            # the model no longer describes the code; is the property itself violated on this input?
            holds = holds_impl(segs, obs[k]) is None
            pending.append(('d-model-tie-%d' % j,
                            'C01 tie: with useSandT=%s, use_closed_attrib=%s, rel=%s %s%s' % (
                                u, z, r, WHAT.get(j, j), ' (the round trip itself still holds on this input)' if holds else ''),
                            {'kind': 'tie', 'path': segs_json(segs), 'structure': tag, 'variant': v,
                             'opts': {'useSandT': u, 'use_closed_attrib': z, 'rel': r}, 'd': obs[k]['d'],
                             'reparsed': repr(obs[k].get('q'))[:1500], 'observation': j,
                             'property_holds_on_this_input': holds,
                             'how': './check C01 --replay <this file>'}, not holds))
        # one violation of every class first, so that each class gets a replay file
        counts, order = {}, []
        for key, what, rp, found in pending:
            counts[key] = counts.get(key, 0) + 1
            if counts[key] <= 3:
                order.append((counts[key], len(order), key, what, rp, found))
        for _, _, key, what, rp, found in sorted(order):
            rep.violation(what, rp, found_input=found, key=key)
        rep.cov['violation_counts_by_key'] = counts
        if info['agree_failed'] and not rep.violations:
            rep.violation('agreement lemma(s) %s no longer check: is_smooth_from differs from both variants of the model'
                          % info['agree_failed'],
                          {'kind': 'agreement', 'lemmas': info['agree_failed'], 'file': 'coq/GenAgree/Dstr.v',
                           'messages': info.get('agree_msgs', {})}, found_input=False, key='agree')
        rep.cov['evaluations'] = n_eval
        rep.cov['traces_validated_against_impl'] = len(cases) * 8
        rep.cov['distinct_nontrivial'] = len(nontrivial)
        rep.cov['rule'] = ('paths of 1-7 segments, structure from {open, closed by Line, closed by curve, several subpaths, '
                           'several subpaths returning to the first start (last a Line / a curve), revisiting the start}, kinds Line/Quadratic/Cubic/Arc uniformly, smooth joins injected with '
                           'probability 1/2 (parser\'s expression / code\'s test), coordinates from the pools (integers, halves, '
                           '1e-7-like, tiny units 1e-12..1e-8 (arcs with radii of that size), 1e16-like, 53-bit mantissas with exponent -10..20, signed zeros), arcs with too-small '
                           '(auto-enlarged) radii; each x all 8 option sets; non-trivial = at least two kinds or a closing curve; '
                           'per path and option 3 observations compared inside Coq in binary64')
        rep.cov['input_distribution'] = {'structure': dist, 'segment_kinds': kindsdist}
        rep.cov['property_failures_on_impl'] = prop_fail
        rep.cov['tie_failures'] = len(fails)
        rep.cov['samples'] = [{'structure': m[1], 'd(useSandT=True,rel=True)': m[2][5]['d'][:200]} for m in meta[10:13]]
    rep.assumptions += ['CPython repr/float are oracles: float(repr(x)) == x and repr(x) is a numeral of FLOAT_RE '
                        '(checked on every number written by Path.d in this run)',
                        'binary64 arithmetic of the model is Coq PrimFloat (IEEE 754 binary64, round to nearest even), as CPython\'s']
