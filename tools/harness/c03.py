"""C03 — Line/Quadratic/Cubic point, poly, points, derivative are the
Bernstein curve.  Theorems: coq/Props/C03.v.  Ties: translator
(GenBezierSeg + GenAgree/BezierSeg.v) and correspondence in exact rationals."""
import math, warnings
from fractions import Fraction
import common
from common import qc, cq, coq_list

GEN_GROUPS = ['GenBezierSeg']
AGREE = ['BezierSeg.v']


def gen_points(rng, n):
    """control points from pools: magnitudes 1e-3..1e6, integers, halves,
    coincident / collinear configurations"""
    mode = rng.choice(['rand', 'rand', 'rand', 'int', 'half', 'coincident', 'collinear', 'tiny', 'huge', 'mixed', 'pyint', 'npscalar', 'farshort'])
    def rnd(scale):
        return complex(rng.uniform(-scale, scale), rng.uniform(-scale, scale))
    if mode == 'farshort':       # a short segment far from the origin (ordinary geometry in map-like units)
        base = complex(rng.uniform(-1, 1), rng.uniform(-1, 1)) * 10 ** rng.uniform(5, 7)
        if rng.random() < 0.5:
            base = complex(round(base.real), round(base.imag))
        return [base + complex(rng.uniform(-8, 8), rng.uniform(-8, 8)) for _ in range(n)], mode
    if mode == 'pyint':          # plain Python ints (real axis): the scalar type must not matter
        pts = [rng.randint(-40, 40) for _ in range(n)]
        if len(set(pts)) == 1: pts[-1] += 7
        return pts, mode
    if mode == 'npscalar':
        import numpy as np
        return [np.complex128(rnd(60)) if rng.random() < 0.5 else np.float64(rng.uniform(-60, 60)) for _ in range(n)], mode
    if mode == 'rand':
        sc = 10 ** rng.uniform(-3, 6)
        return [rnd(sc) for _ in range(n)], mode
    if mode == 'int':
        return [complex(rng.randint(-50, 50), rng.randint(-50, 50)) for _ in range(n)], mode
    if mode == 'half':
        return [complex(rng.randint(-99, 99) / 2, rng.randint(-99, 99) / 2) for _ in range(n)], mode
    if mode == 'coincident':
        p = rnd(100)
        pts = [p] * n
        if n > 2 and rng.random() < 0.7:
            pts = list(pts); pts[rng.randrange(n)] = rnd(100)
        return list(pts), mode
    if mode == 'collinear':
        a, d = rnd(100), rnd(10)
        return [a + d * rng.choice([0, 1, 2, 3, -1, 0.5, 2.5]) for _ in range(n)], mode
    if mode == 'tiny':
        return [rnd(1e-3) for _ in range(n)], mode
    if mode == 'huge':
        return [rnd(1e6) for _ in range(n)], mode
    return [rnd(10 ** rng.uniform(-3, 6)) for _ in range(n)], mode


def gen_t(rng):
    r = rng.random()
    if r < 0.1: return 0.0
    if r < 0.2: return 1.0
    if r < 0.4: return rng.choice([0.5, 0.25, 0.75, 0.125, 0.375, 1 / 3, 2 / 3, 0.1, 0.9])
    return rng.uniform(-0.1, 1.1)


OKDEF = r'''
From SVP Require Import Model.Bezier.
Definition N := NumQ.
Definition u53 : Qc := two_pow_neg 53.
Definition pow3 (x : Qc) : Qc := (x * x * x)%Qc.
(* case: (control points, t, t2, point(t), poly coeffs, poly()(t), points([t;t2]),
          derivative(t,1..5), raised on n=0, poly2bez(poly()) ) *)
Definition casety : Type :=
  (list (Cplx Qc) * Qc * Qc * Cplx Qc * list (Cplx Qc) * Cplx Qc * list (Cplx Qc)
   * list (Cplx Qc) * bool * list (Cplx Qc))%type.
Definition m_point (p : list (Cplx Qc)) (t : Qc) : Cplx Qc :=
  match p with
  | [s; e] => line_point N s e t
  | [s; c; e] => quad_point N s c e t
  | [s; c1; c2; e] => cubic_point N s c1 c2 e t
  | _ => c0 N end.
Definition m_poly (p : list (Cplx Qc)) : list (Cplx Qc) :=
  match p with
  | [s; e] => line_poly N s e
  | [s; c; e] => quad_poly N s c e
  | [s; c1; c2; e] => cubic_poly N s c1 c2 e
  | _ => [] end.
Definition m_deriv (p : list (Cplx Qc)) (t : Qc) (n : Z) : option (Cplx Qc) :=
  match p with
  | [s; e] => line_deriv N s e t n
  | [s; c; e] => quad_deriv N s c e t n
  | [s; c1; c2; e] => cubic_deriv N s c1 c2 e t n
  | _ => None end.
Definition oget (o : option (Cplx Qc)) : Cplx Qc := match o with Some z => z | None => (Q2Qc 12345, Q2Qc 12345) end.
Definition ok (c : casety) : nat :=
  let '(p, t, t2, o_pt, o_coef, o_pval, o_pts, o_der, o_raise0, o_back) := c in
  let S := sum_abs1 p in
  let tm := pow3 (qmax (Q2Qc 1) (qabs t)) in
  let tm2 := pow3 (qmax (Q2Qc 1) (qabs t2)) in
  let tolp := (Q2Qc 40 * u53 * S * tm)%Qc in
  let tolp2 := (Q2Qc 40 * u53 * S * tm2)%Qc in
  let told := (Q2Qc 400 * u53 * S * tm)%Qc in
  let tolc := (Q2Qc 40 * u53 * S)%Qc in
  first_fail
   [ (cclose tolp o_pt (bern N p t), 1);            (* point(t) is the Bernstein value *)
     (cclose tolp o_pt (m_point p t), 2);           (* ... and the model's *)
     (lclose (cclose tolc) o_coef (m_poly p), 3);   (* poly() coefficients *)
     (cclose tolp o_pval (bern N p t), 4);          (* poly()(t) *)
     (lclose (fun a b => cclose (qmax tolp tolp2) a b) o_pts [bern N p t; bern N p t2], 5);
     (lclose (cclose told) o_der
        (map (fun n => oget (m_deriv p t n)) [1; 2; 3; 4; 5]%Z), 6);
     (Bool.eqb o_raise0 true, 7);                   (* derivative(t, 0) raises ValueError *)
     (lclose (cclose (Q2Qc 100 * u53 * S)%Qc) o_back p, 8) (* poly2bez(poly()) = control points *)
   ].
'''

OBS_NAMES = {1: 'point(t) vs Bernstein sum', 2: 'point(t) vs model', 3: 'poly() coefficients',
             4: 'poly()(t)', 5: 'points([t,t2])', 6: 'derivative(t,n), n=1..5',
             7: 'derivative(t,0) must raise ValueError', 8: 'poly2bez(poly()) returns the control points'}


FIELDS = {2: ('start', 'end'), 3: ('start', 'control', 'end'), 4: ('start', 'control1', 'control2', 'end')}


def observe(pts, t, t2, reassign_from=None):
    import numpy as np
    from svgpathtools import Line, QuadraticBezier, CubicBezier, poly2bez
    from svgpathtools.path import bpoints2bezier
    cls = {2: Line, 3: QuadraticBezier, 4: CubicBezier}[len(pts)]
    if reassign_from is not None:
        # build the segment with OTHER control points, exercise every accessor (so that any
        # memoised value is filled), then reassign the control points in place: the object must
        # now answer as the Bezier curve of its CURRENT control points
        seg = cls(*reassign_from)
        seg.poly(); seg.poly(return_coeffs=True); seg.points([0.25, 0.75]); seg.point(0.25)
        seg.derivative(0.25); seg.bpoints()
        try:
            seg.length(); seg.bbox()
        except Exception:
            pass
        for name, z in zip(FIELDS[len(pts)], pts):
            setattr(seg, name, z)
    else:
        seg = cls(*pts)
    seg2 = bpoints2bezier(list(pts))
    if type(seg2) is not cls or seg2 != seg:
        raise AssertionError('bpoints2bezier does not rebuild the segment')
    o = {}
    o['pt'] = complex(seg.point(t))
    o['coef'] = [complex(c) for c in seg.poly(return_coeffs=True)]
    o['pval'] = complex(seg.poly()(t))
    o['pts'] = [complex(z) for z in seg.points([t, t2])]
    o['der'] = [complex(seg.derivative(t, n)) for n in (1, 2, 3, 4, 5)]
    try:
        seg.derivative(t, 0)
        o['raise0'] = False
    except ValueError:
        o['raise0'] = True
    o['back'] = [complex(z) for z in poly2bez(seg.poly(return_coeffs=True), return_bpoints=True)]
    return o


def case_term(pts, t, t2, o):
    return '(%s, %s, %s, %s, %s, %s, %s, %s, %s, %s)' % (
        coq_list([cq(p) for p in pts]), qc(t), qc(t2), cq(o['pt']),
        coq_list([cq(c) for c in o['coef']]), cq(o['pval']), coq_list([cq(c) for c in o['pts']]),
        coq_list([cq(c) for c in o['der']]), common.coq_bool(o['raise0']),
        coq_list([cq(c) for c in o['back']]))


def run(rep, tier, seed, replay=None):
    warnings.simplefilter('ignore')
    rng = common.mkrng(seed, 'C03')
    with common.Scratch() as tmp:
        info = common.std_static(rep, 'C03', GEN_GROUPS, AGREE, tmp)
        n = 600 if tier == 'quick' else 6000
        if info['agree_failed'] or info['untranslated']:
            n *= 4       # the code the model mirrors changed: search harder
        cases, meta, modes = [], [], {}
        nontrivial = set()
        if replay:
            import json
            r = json.load(open(replay))['replay']
            pts = [complex(float.fromhex(a), float.fromhex(b)) for a, b in r['points']]
            rf = [complex(float.fromhex(a), float.fromhex(b)) for a, b in r['reassigned_from']] if r.get('reassigned_from') else None
            todo = [(pts, float.fromhex(r['t']), float.fromhex(r['t2']), 'replay', rf)]
        else:
            todo = []
            for i in range(n):
                k = rng.choice([2, 3, 4])
                pts, mode = gen_points(rng, k)
                if k == 2 and pts[0] == pts[1]:
                    # a zero-length Line is outside the domain (derivative asserts start != end)
                    pts = [pts[0], pts[0] + complex(1, -2)]
                rf = None
                if i % 3 == 2:      # every third case: control points reassigned in place after use
                    rf, _ = gen_points(rng, k)
                    if k == 2 and rf[0] == rf[1]:
                        rf = [rf[0], rf[0] + complex(2, 1)]
                    mode = mode + '+reassigned'
                todo.append((pts, gen_t(rng), gen_t(rng), mode, rf))
        for pts, t, t2, mode, rf in todo:
            modes[mode] = modes.get(mode, 0) + 1
            try:
                o = observe(pts, t, t2, rf)
            except Exception as e:
                rep.violation('implementation raised %s on a Bezier segment' % type(e).__name__,
                              {'kind': 'exception', 'points': [common.chex(p) for p in pts],
                               't': common.fhex(t), 't2': common.fhex(t2), 'error': repr(e),
                               'reassigned_from': [common.chex(p) for p in rf] if rf else None},
                              key='impl-exception')
                continue
            cases.append(case_term(pts, t, t2, o))
            meta.append((pts, t, t2, o, rf))
            if len(set(pts)) > 1 and t not in (0.0, 1.0):
                nontrivial.add((tuple(pts), t))
        fails, errors = common.run_cases(tmp, '', 'casety', OKDEF, cases, shard=200)
        for e in errors:
            rep.violation('correspondence case file failed to evaluate', {'kind': 'cases', 'error': e},
                          found_input=False, key='cases-error')
        rep.cov['evaluations'] = len(cases) * 8
        rep.cov['traces_validated_against_impl'] = len(cases)
        rep.cov['distinct_nontrivial'] = len(nontrivial)
        rep.cov['rule'] = ('random Line/Quadratic/Cubic segments from the pools %s, t from {0,1,dyadics,thirds,uniform[-0.1,1.1]}; '
                           'non-trivial = control points not all equal and t not in {0,1}; 8 observations per case compared '
                           'inside Coq with the model evaluated in exact rationals') % sorted(modes)
        rep.cov['input_distribution'] = modes
        rep.cov['samples'] = [{'points': [str(p) for p in m[0]], 't': m[1], 'point': str(m[3]['pt'])} for m in meta[:3]]
        for idx, code in fails:
            pts, t, t2, o, rf = meta[idx]
            rep.violation('C03: %s disagrees with the Bernstein curve beyond rounding' % OBS_NAMES.get(code, code),
                          {'kind': 'correspondence', 'observation': OBS_NAMES.get(code, str(code)),
                           'points': [common.chex(p) for p in pts], 't': common.fhex(t), 't2': common.fhex(t2),
                           'observed': {k: str(v) for k, v in o.items()},
                           'reassigned_from': [common.chex(p) for p in rf] if rf else None,
                           'how': './check C03 --replay <this file>'},
                          key=('corr-%d' % code) + ('-after-reassign' if rf else ''))
        # ---- poly2bez on coefficient sequences of every scalar type: the returned segment is the
        #      curve of that polynomial (judged on the curve, exactly: integer coefficients)
        if not replay:
            from fractions import Fraction
            import numpy as np
            from svgpathtools import poly2bez
            nint = 60 if tier == 'quick' else 600
            kinds = {}
            for i in range(nint):
                deg = rng.choice([1, 2, 3])
                ci = [complex(rng.randint(-9, 9), rng.randint(-9, 9)) if rng.random() < 0.5 else rng.randint(-9, 9)
                      for _ in range(deg + 1)]
                if ci[0] == 0:
                    ci[0] = 1
                allreal = all(not isinstance(c, complex) for c in ci)
                how = rng.choice(['list', 'tuple', 'ndarray', 'poly1d', 'floatlist'] if allreal else ['list', 'tuple', 'ndarray', 'poly1d'])
                arg = {'list': list(ci), 'tuple': tuple(ci), 'ndarray': np.array(ci), 'poly1d': np.poly1d(ci),
                       'floatlist': [float(c) for c in ci] if allreal else list(ci)}[how]
                kinds['%s/%s' % (how, 'int' if allreal else 'complex-int')] = kinds.get('%s/%s' % (how, 'int' if allreal else 'complex-int'), 0) + 1
                rj = {'kind': 'poly2bez', 'coefficients_highest_first': [str(c) for c in ci], 'container': how,
                      'python': 'poly2bez(%s)' % ({'list': repr(list(ci)), 'tuple': repr(tuple(ci)), 'ndarray': 'np.array(%r)' % (list(ci),),
                                                    'poly1d': 'np.poly1d(%r)' % (list(ci),), 'floatlist': repr([float(c) for c in ci]) if allreal else repr(list(ci))}[how])}
                try:
                    seg = poly2bez(arg)
                    bad = None
                    scale = sum(abs(c) for c in ci) + 1
                    for tt in (0.0, 0.25, 0.5, 1.0, 1 / 3):
                        ft = Fraction(tt)
                        ex_re = sum(Fraction(int(complex(c).real)) * ft ** (deg - k) for k, c in enumerate(ci))
                        ex_im = sum(Fraction(int(complex(c).imag)) * ft ** (deg - k) for k, c in enumerate(ci))
                        got = complex(seg.point(tt))
                        if abs(got - complex(float(ex_re), float(ex_im))) > 1e-12 * scale:
                            bad = (tt, got, complex(float(ex_re), float(ex_im)))
                            break
                    back = [complex(c) for c in seg.poly(return_coeffs=True)]
                    if bad is None and (len(back) != len(ci) or any(abs(a - complex(b)) > 1e-12 * scale for a, b in zip(back, ci))):
                        bad = ('poly()', back, ci)
                except Exception as e:
                    rep.violation('poly2bez raised %s on integer coefficients' % type(e).__name__, dict(rj, error=repr(e)), key='poly2bez-exception')
                    continue
                if bad is not None:
                    rep.violation('poly2bez(%s coefficients) is not the curve of that polynomial: at %r got %r, exact %r'
                                  % (how, bad[0], bad[1], bad[2]), rj, key='poly2bez-not-the-polynomial')
            rep.cov['poly2bez_direct_cases'] = kinds
        if info['agree_failed'] and not rep.violations:
            rep.violation('agreement lemma(s) %s no longer check: generated code differs from the model'
                          % info['agree_failed'],
                          {'kind': 'agreement', 'lemmas': info['agree_failed'],
                           'file': 'coq/GenAgree/BezierSeg.v', 'messages': info.get('agree_msgs', {})},
                          found_input=False, key='agree')
    rep.assumptions += ['numpy poly1d evaluation is Horner (oracle, sampled)',
                        'binary64 rounding bound 40*2^-53*sum|P_i|*max(1,|t|)^3 (400x for derivatives)']
