"""C19 — generic n-th order Bezier / polynomial helpers are exact and lose no
roots.  Theorems: coq/Props/C19.v.  Ties: translator (GenBezierN, GenBoxes +
GenAgree/BezierN.v, 76 agreement lemmas) and exact-rational correspondence."""
import math, warnings, itertools
from fractions import Fraction
import common
from common import qc, cq, coq_list

GEN_GROUPS = ['GenBezierN', 'GenBoxes']
AGREE = ['BezierN.v']

OKDEF = r'''
From SVP Require Import Model.Bezier Model.BezierN.
Definition N := NumQ.
Definition u53 : Qc := two_pow_neg 53.
Definition K14 : Qc := Q2Qc 16384.
(* case: (p, t, bezier_point, bezier2polynomial, polynomial2bezier(b2p) (n<=4 else []),
          split left, split right, halve left, halve right) *)
Definition casety : Type :=
  (list (Cplx Qc) * Qc * Cplx Qc * list (Cplx Qc) * list (Cplx Qc)
   * list (Cplx Qc) * list (Cplx Qc) * list (Cplx Qc) * list (Cplx Qc))%type.
Definition qpow (x : Qc) (n : nat) : Qc := npow N x n.
Definition ok (c : casety) : nat :=
  let '(p, t, o_pt, o_b2p, o_back, o_sl, o_sr, o_hl, o_hr) := c in
  let S := sum_abs1 p in
  let tm := qpow (qmax (Q2Qc 1) (qabs t)) (length p) in
  let tol := (K14 * u53 * S * tm)%Qc in
  let tolc := (K14 * u53 * S)%Qc in
  let sp := split_bezier N p t in
  let hv := halve_bezier N p in
  first_fail
   [ (cclose tol o_pt (bern N p t), 1);                         (* bezier_point = Bernstein sum *)
     (cclose tol o_pt (bezier_point N p t), 2);
     (lclose (cclose tolc) o_b2p (bezier2polynomial N p), 3);   (* coefficients *)
     (cclose tol (cpeval N o_b2p t) (bern N p t), 4);           (* the returned polynomial IS the curve *)
     (match o_back with [] => true | _ => lclose (cclose tolc) o_back p end, 5);
     (lclose (cclose tol) o_sl (fst sp), 6);
     (lclose (cclose tol) o_sr (snd sp), 7);
     (lclose (cclose tolc) o_hl (fst hv), 8);
     (lclose (cclose tolc) o_hr (snd hv), 9)
   ].
'''
OBS = {1: 'bezier_point vs Bernstein sum', 2: 'bezier_point vs model', 3: 'bezier2polynomial coefficients',
       4: 'bezier2polynomial(p)(t) vs Bernstein sum', 5: 'polynomial2bezier(bezier2polynomial(p)) = p',
       6: 'split_bezier left', 7: 'split_bezier right', 8: 'halve_bezier left', 9: 'halve_bezier right'}

ROOTS_OKDEF = r'''
From SVP Require Import Model.Bezier Model.BezierN.
Definition N := NumQ.
Definition rtol : Qc := Q2Qc (1 # 100000).
Definition atol : Qc := Q2Qc (1 # 100000000).
Fixpoint leq (a b : list Qc) : bool :=
  match a, b with [], [] => true | x :: r, y :: s => Qc_eq_bool x y && leq r s | _, _ => false end.
(* case: (oracle roots (np.roots output), which (0 = polyroots01, 1 = realroots only), impl output) *)
Definition casety : Type := (list (Cplx Qc) * nat * list Qc)%type.
Definition model (fixed : bool) (c : casety) : list Qc :=
  let '(orc, which, _) := c in
  match which with
  | O => polyroots01 N rtol atol fixed orc
  | _ => polyroots N rtol atol fixed orc true (fun _ => true)
  end.
(* 0: agrees with the model of the code as written at the pinned commit;
   otherwise 1: agrees only with the index-correct variant; 2: with neither *)
Definition ok (c : casety) : nat :=
  let '(_, _, out) := c in
  if leq out (model false c) then 0 else if leq out (model true c) then 1 else 2.
'''

RL_OKDEF = r'''
From SVP Require Import Model.Bezier Model.BezierN.
Definition N := NumQ.
(* case: (f, g, t0, outcome: 0 value / 1 ValueError / 2 AssertionError, value) *)
Definition casety : Type := (list Qc * list Qc * Qc * nat * Qc)%type.
Definition ok (c : casety) : nat :=
  let '(f, g, t0, oc, v) := c in
  match rational_limit N 40 f g t0, oc with
  | RLok m, O => if qclose (qabs m * two_pow_neg 50 + two_pow_neg 1000)%Qc m v then 0 else 1
  | RLvalueerror, 1 => 0
  | RLassert, 2 => 0
  | _, _ => 2
  end.
'''


def rnd_pts(rng, n):
    mode = rng.choice(['rand', 'rand', 'int', 'half', 'coincident', 'collinear', 'tiny', 'huge', 'pyint', 'npint', 'npscalar',
                       'evenly', 'elevated'])
    def rnd(s): return complex(rng.uniform(-s, s), rng.uniform(-s, s))
    if mode == 'evenly' or (mode == 'elevated' and n < 3):
        # evenly spaced integer control points (or all equal): the leading power-basis coefficients are EXACTLY 0
        a = complex(rng.randint(-20, 20), rng.randint(-20, 20))
        d = complex(rng.randint(-6, 6), rng.randint(-6, 6)) if rng.random() < 0.8 else 0j
        return [a + k * d for k in range(n)], 'evenly'
    if mode == 'elevated':
        # a lower-degree integer Bezier curve degree-elevated exactly (control points multiples of n-1 apart)
        m = n - 1
        low = [complex(rng.randint(-9, 9), rng.randint(-9, 9)) * m for _ in range(n - 1)]
        return [low[0]] + [(k * low[k - 1] + (m - k) * low[k]) / m for k in range(1, m)] + [low[-1]], mode
    if mode == 'pyint':         # plain Python ints: the scalar TYPE of the control points must not matter
        return [rng.randint(-30, 30) for _ in range(n)], mode
    if mode == 'npint':
        import numpy as np
        return [np.int64(rng.randint(-30, 30)) for _ in range(n)], mode
    if mode == 'npscalar':
        import numpy as np
        return [np.complex128(rnd(50)) if rng.random() < 0.5 else np.float64(rng.uniform(-50, 50)) for _ in range(n)], mode
    if mode == 'rand':
        s = 10 ** rng.uniform(-3, 4); return [rnd(s) for _ in range(n)], mode
    if mode == 'int':
        return [complex(rng.randint(-20, 20), rng.randint(-20, 20)) for _ in range(n)], mode
    if mode == 'half':
        return [complex(rng.randint(-41, 41) / 2, rng.randint(-41, 41) / 2) for _ in range(n)], mode
    if mode == 'coincident':
        p = rnd(10); out = [p] * n
        if n > 1: out[rng.randrange(n)] = rnd(10)
        return out, mode
    if mode == 'collinear':
        a, d = rnd(10), rnd(3); return [a + d * rng.choice([0, 1, 2, -1, 0.5]) for _ in range(n)], mode
    if mode == 'tiny':
        return [rnd(1e-3) for _ in range(n)], mode
    return [rnd(1e5) for _ in range(n)], mode


def poly_from_roots(roots):
    """exact integer/Fraction coefficient list (highest first) of prod (x - r)"""
    cs = [Fraction(1)]
    for r in roots:
        if isinstance(r, tuple):          # complex-conjugate pair a +- bi: x^2 - 2a x + a^2+b^2
            a, b = r
            fac = [Fraction(1), -2 * a, a * a + b * b]
        else:
            fac = [Fraction(1), -r]
        new = [Fraction(0)] * (len(cs) + len(fac) - 1)
        for i, x in enumerate(cs):
            for j, y in enumerate(fac):
                new[i + j] += x * y
        cs = new
    return cs


def gen_rootset(rng):
    """prescribed root sets mixing well separated, nearly coincident, complex
    conjugate and out-of-range roots; returns (roots, simple_real_roots)"""
    deg = rng.randint(1, 8)
    roots, simple = [], []
    grid = [Fraction(k, 16) for k in range(-24, 41)]
    used = set()
    while sum(2 if isinstance(r, tuple) else 1 for r in roots) < deg:
        left = deg - sum(2 if isinstance(r, tuple) else 1 for r in roots)
        kind = rng.choice(['sep', 'sep', 'sep', 'pair', 'cc', 'out', 'straddle'])
        if kind == 'straddle' and left >= 2:
            # two distinct roots within isclose distance of each other, one on each side of the boundary
            # 0 or 1 of polyroots01's condition: the inner one must survive de-duplication + filtering
            b = Fraction(rng.choice([0, 1]))
            if b in used: continue
            gap = Fraction(rng.randint(1, 9), 10 ** rng.randint(6, 9))
            used.add(b); roots += [b - gap / 2, b + gap / 2]
            continue
        if kind == 'straddle':
            kind = 'sep'
        if kind == 'sep' or (kind in ('pair', 'cc') and left < 2):
            r = rng.choice(grid)
            if r in used: continue
            used.add(r); roots.append(r); simple.append(r)
        elif kind == 'pair':
            r = rng.choice(grid)
            if r in used: continue
            gap = Fraction(1, 10 ** rng.randint(4, 9))
            used.add(r); roots += [r, r + gap]
        elif kind == 'cc':
            a = rng.choice(grid); b = Fraction(rng.randint(1, 30), 16)
            roots.append((a, b))
        else:
            r = Fraction(rng.choice([-3, -2, 2, 3, 5])) + Fraction(rng.randint(0, 7), 8)
            if r in used: continue
            used.add(r); roots.append(r); simple.append(r)
    rng.shuffle(roots)
    # a simple root must stay well separated (>= 1/32) from every other real root
    reals = [r for r in roots if not isinstance(r, tuple)]
    simple = [r for r in simple if all(abs(r - o) >= Fraction(1, 32) for o in reals if o is not r and o != r)
              and reals.count(r) == 1]
    return roots, simple


def run(rep, tier, seed, replay=None):
    warnings.simplefilter('ignore')
    import numpy as np
    from svgpathtools import bezier as bz
    from svgpathtools import polytools as pt
    rng = common.mkrng(seed, 'C19')
    with common.Scratch() as tmp:
        info = common.std_static(rep, 'C19', GEN_GROUPS, AGREE, tmp)
        boost = 4 if (info['agree_failed'] or info['untranslated']) else 1
        # ---------------- n_choose_k: exhaustive n <= 14
        bad = [(n, k) for n in range(15) for k in range(n + 1) if bz.n_choose_k(n, k) != math.comb(n, k)]
        for n, k in bad[:3]:
            rep.violation('n_choose_k(%d,%d) is not the binomial coefficient' % (n, k),
                          {'kind': 'n_choose_k', 'n': n, 'k': k, 'got': int(bz.n_choose_k(n, k))}, key='choose')
        # ---------------- Bezier helper cases
        ncase = (270 if tier == 'quick' else 2700) * boost
        cases, meta, modes, nontriv = [], [], {}, set()
        for i in range(ncase):
            n = 1 + (i % 9)
            p, mode = rnd_pts(rng, n)
            t = rng.choice([0.0, 1.0, 0.5, 0.25, 1 / 3, rng.uniform(-0.1, 1.1), rng.uniform(0, 1)])
            modes['deg%d/%s' % (n - 1, mode)] = modes.get('deg%d/%s' % (n - 1, mode), 0) + 1
            try:
                o_pt = complex(bz.bezier_point(tuple(p), t))
                o_b2p = [complex(c) for c in bz.bezier2polynomial(tuple(p))]
                o_back = [complex(c) for c in bz.polynomial2bezier(o_b2p)] if 2 <= n <= 4 else []
                # the option variants must describe the same polynomial as the default call
                asc = [complex(c) for c in bz.bezier2polynomial(tuple(p), numpy_ordering=False)]
                if asc != o_b2p[::-1]:
                    rep.violation('bezier2polynomial(numpy_ordering=False) is not the reversed coefficient list (degree %d)' % (n - 1),
                                  {'kind': 'b2p-ordering', 'points': [common.chex(z) for z in p],
                                   'default': [str(c) for c in o_b2p], 'ascending': [str(c) for c in asc]}, key='b2p-ordering')
                p1d = bz.bezier2polynomial(tuple(p), return_poly1d=True)
                v1, v2 = complex(p1d(t)), complex(np.polyval(o_b2p, t))
                if abs(v1 - v2) > 1e-9 * (1 + abs(v2)):
                    rep.violation('bezier2polynomial(return_poly1d=True) evaluates differently from its coefficient list',
                                  {'kind': 'b2p-poly1d', 'points': [common.chex(z) for z in p], 't': common.fhex(t)}, key='b2p-poly1d')
                if 2 <= n <= 4:
                    back1d = [complex(c) for c in bz.polynomial2bezier(np.poly1d(o_b2p))] if o_b2p[0] != 0 else o_back
                    if any(abs(a - b) > 1e-9 * (1 + abs(b)) for a, b in zip(back1d, o_back)) or len(back1d) != len(o_back):
                        rep.violation('polynomial2bezier(poly1d) differs from polynomial2bezier(coefficients)',
                                      {'kind': 'p2b-poly1d', 'points': [common.chex(z) for z in p]}, key='p2b-poly1d')
                if n >= 2:
                    sl, sr = bz.split_bezier(tuple(p), t)
                    hl, hr = bz.halve_bezier(tuple(p))
                else:
                    sl, sr = bz.split_bezier(tuple(p), t)
                    hl, hr = bz.halve_bezier(tuple(p))
            except Exception as e:
                rep.violation('bezier helper raised %s' % type(e).__name__,
                              {'kind': 'exception', 'points': [common.chex(z) for z in p], 't': common.fhex(t),
                               'error': repr(e)}, key='helper-exception')
                continue
            cases.append('(%s, %s, %s, %s, %s, %s, %s, %s, %s)' % (
                coq_list([cq(z) for z in p]), qc(t), cq(o_pt), coq_list([cq(z) for z in o_b2p]),
                coq_list([cq(z) for z in o_back]), coq_list([cq(z) for z in sl]), coq_list([cq(z) for z in sr]),
                coq_list([cq(z) for z in hl]), coq_list([cq(z) for z in hr])))
            meta.append((p, t))
            if len(set(complex(z) for z in p)) > 1 and t not in (0.0, 1.0):
                nontriv.add((tuple(complex(z) for z in p), t))
        fails, errors = common.run_cases(tmp, '', 'casety', OKDEF, cases, shard=90, prefix='bez')
        for e in errors:
            rep.violation('case file failed to evaluate', {'kind': 'cases', 'error': e}, found_input=False, key='cases-error')
        for idx, code in fails:
            p, t = meta[idx]
            rep.violation('C19: %s beyond rounding (degree %d)' % (OBS.get(code, code), len(p) - 1),
                          {'kind': 'correspondence', 'observation': OBS.get(code, str(code)),
                           'points': [common.chex(z) for z in p], 't': common.fhex(t)}, key='corr-%d' % code)
        # ---------------- polynomial2bezier on coefficient sequences of every scalar type (exact judge on the curve)
        from fractions import Fraction
        p2bkinds = {}
        for i in range((60 if tier == 'quick' else 600) * boost):
            deg = rng.choice([1, 2, 3])
            ci = [complex(rng.randint(-9, 9), rng.randint(-9, 9)) if rng.random() < 0.5 else rng.randint(-9, 9) for _ in range(deg + 1)]
            if ci[0] == 0:
                ci[0] = 1
            allreal = all(not isinstance(c, complex) for c in ci)
            how = rng.choice(['list', 'tuple', 'ndarray', 'poly1d'])
            arg = {'list': list(ci), 'tuple': tuple(ci), 'ndarray': np.array(ci), 'poly1d': np.poly1d(ci)}[how]
            p2bkinds['%s/%s' % (how, 'int' if allreal else 'complex-int')] = p2bkinds.get('%s/%s' % (how, 'int' if allreal else 'complex-int'), 0) + 1
            rj = {'kind': 'p2b-direct', 'coefficients_highest_first': [str(c) for c in ci], 'container': how}
            try:
                cps = [complex(z) for z in bz.polynomial2bezier(arg)]
                scale = sum(abs(c) for c in ci) + 1
                bad = None
                if len(cps) != deg + 1:
                    bad = ('number of control points', len(cps), deg + 1)
                for tt in ((0.0, 0.25, 0.5, 1.0, 1 / 3) if bad is None else ()):
                    ft = Fraction(tt)
                    ex = complex(float(sum(Fraction(int(complex(c).real)) * ft ** (deg - k) for k, c in enumerate(ci))),
                                 float(sum(Fraction(int(complex(c).imag)) * ft ** (deg - k) for k, c in enumerate(ci))))
                    got = complex(bz.bezier_point(tuple(cps), tt))
                    if abs(got - ex) > 1e-12 * scale:
                        bad = (tt, got, ex); break
            except Exception as e:
                rep.violation('polynomial2bezier raised %s on integer coefficients' % type(e).__name__, dict(rj, error=repr(e)), key='p2b-exception')
                continue
            if bad is not None:
                rep.violation('polynomial2bezier(%s of ints) does not describe that polynomial: at %r got %r, exact %r' % (how, bad[0], bad[1], bad[2]),
                              rj, key='p2b-not-the-polynomial')
        rep.cov['polynomial2bezier_direct_cases'] = p2bkinds
        # ---------------- polyroots with prescribed root sets
        nroot = (250 if tier == 'quick' else 2500) * boost
        rcases, rmeta = [], []
        lost = 0
        rootkinds = {}
        orig_roots = np.roots
        for i in range(nroot):
            roots, simple = gen_rootset(rng)
            coeffs = [float(c) for c in poly_from_roots(roots)]
            which = i % 2
            rec = {}
            def spy(p, _rec=rec):
                r = orig_roots(p); _rec['r'] = [complex(z) for z in r]; return r
            pt.np.roots = spy
            try:
                out = pt.polyroots01(coeffs) if which == 0 else pt.polyroots(coeffs, realroots=True)
            except Exception as e:
                pt.np.roots = orig_roots
                rep.violation('polyroots raised %s' % type(e).__name__,
                              {'kind': 'exception', 'coeffs': [common.fhex(c) for c in coeffs], 'error': repr(e)},
                              key='polyroots-exception')
                continue
            finally:
                pt.np.roots = orig_roots
            out = [float(x) for x in out]
            rcases.append('(%s, %d, %s)' % (coq_list([cq(z) for z in rec['r']]), which, coq_list([qc(x) for x in out])))
            rmeta.append((roots, coeffs, which, out, rec['r']))
            nk = '%d-roots' % len(rec['r'])
            rootkinds[nk] = rootkinds.get(nk, 0) + 1
            # the property on the implementation: every prescribed simple, well separated real root
            # satisfying the condition is returned exactly once
            for r in simple:
                rf = float(r)
                if which == 0 and not (0.0 < rf < 1.0):
                    continue       # boundary membership of 0 / 1 is decided by rounding of the oracle: excluded
                # conditioning: clustered neighbours elsewhere do not move a simple root by more than ~1e-6
                hits = [x for x in out if abs(x - rf) <= 1e-6]
                if len(hits) != 1:
                    lost += 1
                    explained = None
                    rep.violation('polyroots%s returns the simple root %s %d times' % ('01' if which == 0 else '', r, len(hits)),
                                  {'kind': 'lost-root', 'coeffs': [common.fhex(c) for c in coeffs], 'which': which,
                                   'prescribed_roots': [str(x) for x in roots], 'simple_root': str(r),
                                   'oracle_roots': [str(z) for z in rec['r']], 'returned': out},
                                  key='polyroots-dedup-drops-root' if len(hits) == 0 else 'polyroots-root-repeated')
        rfails, errors = common.run_cases(tmp, '', 'casety', ROOTS_OKDEF, rcases, shard=250, prefix='roots')
        for e in errors:
            rep.violation('case file failed to evaluate', {'kind': 'cases', 'error': e}, found_input=False, key='cases-error')
        variant = {'coded': len(rcases) - len(rfails), 'fixed-only': 0, 'neither': 0}
        for idx, code in rfails:
            variant['fixed-only' if code == 1 else 'neither'] += 1
            if code == 2:
                roots, coeffs, which, out, orc = rmeta[idx]
                rep.violation('polyroots output is explained by neither de-duplication model',
                              {'kind': 'roots-model', 'coeffs': [common.fhex(c) for c in coeffs], 'which': which,
                               'oracle_roots': [str(z) for z in orc], 'returned': out}, key='polyroots-model-mismatch')
        # ---------------- rational_limit
        rlcases = []
        nrl = (150 if tier == 'quick' else 1500) * boost
        for i in range(nrl):
            k = rng.randint(0, 3)
            t0 = Fraction(rng.randint(-8, 8), 4)
            def rp(d): return [Fraction(rng.randint(-5, 5)) for _ in range(d + 1)]
            f1, g1 = rp(rng.randint(0, 3)), rp(rng.randint(0, 3))
            mode = rng.choice(['limit', 'limit', 'limit', 'pole', 'zero-g'])
            kf, kg = k, k
            if mode == 'pole':
                kg = k + rng.randint(1, 2)
            def times(p, kk):
                out = list(p)
                for _ in range(kk):
                    new = [Fraction(0)] * (len(out) + 1)
                    for a, c in enumerate(out):
                        new[a] += c; new[a + 1] += -t0 * c
                    out = new
                return out
            f, g = times(f1, kf), times(g1, kg)
            if mode == 'zero-g':
                g = [Fraction(0)]
            ff, gf = [float(c) for c in f], [float(c) for c in g]
            try:
                v = pt.rational_limit(np.poly1d(ff), np.poly1d(gf), float(t0))
                oc, val = 0, float(v)
                if val != val or val in (float('inf'), float('-inf')):
                    # a non-finite answer is never the limit of these test functions (the model decides
                    # value / ValueError / AssertionError): hand it over as an impossible value
                    oc, val = 0, 1.2345e300
            except ValueError:
                oc, val = 1, 0.0
            except AssertionError:
                oc, val = 2, 0.0
            # numpy poly1d trims leading zeros; the model works on the trimmed list too
            def trim(l):
                l = list(l)
                while len(l) > 1 and l[0] == 0: l.pop(0)
                return l
            rlcases.append('(%s, %s, %s, %d, %s)' % (coq_list([qc(c) for c in trim(f)]), coq_list([qc(c) for c in trim(g)]),
                                                     qc(t0), oc, qc(val)))
        rlf, errors = common.run_cases(tmp, '', 'casety', RL_OKDEF, rlcases, shard=250, prefix='rl')
        for e in errors:
            rep.violation('case file failed to evaluate', {'kind': 'cases', 'error': e}, found_input=False, key='cases-error')
        for idx, code in rlf:
            rep.violation('rational_limit disagrees with the model / the exact limit',
                          {'kind': 'rational_limit', 'case': rlcases[idx]}, key='rational-limit-%d' % code)
        rep.cov['evaluations'] = len(cases) * 9 + len(rcases) + len(rlcases) + 120
        rep.cov['traces_validated_against_impl'] = len(cases) + len(rcases) + len(rlcases)
        rep.cov['distinct_nontrivial'] = len(nontriv) + len(set(rcases)) + len(set(rlcases))
        rep.cov['rule'] = ('degrees 0..8 cyclically, control points from pools (random 1e-3..1e4, int, half, coincident, collinear, '
                           'tiny, huge), 9 observations each compared inside Coq in exact rationals (tolerance 2^14*2^-53*sum|P|*max(1,|t|)^n); '
                           'polynomials built exactly from prescribed root sets (separated / near-coincident pairs 1e-9..1e-4 / conjugate pairs / '
                           'out of range), np.roots output recorded and handed to the Coq model of polyroots; rational_limit on '
                           '(x-t0)^k f1 / (x-t0)^k g1 with integer coefficients. non-trivial = control points not all equal and t not in {0,1}; '
                           'distinct root / limit cases counted by their Coq term')
        rep.cov['input_distribution'] = {'bezier': modes, 'oracle_root_counts': rootkinds,
                                         'polyroots_variant_matching_code': variant, 'simple_roots_lost': lost}
        rep.cov['samples'] = [{'points': [str(z) for z in m[0]], 't': m[1]} for m in meta[4:7]] + \
                             [{'prescribed_roots': [str(x) for x in m[0]], 'returned': m[3]} for m in rmeta[:2]]
        if variant['fixed-only'] and variant['coded'] and not lost:
            rep.notes.append('polyroots matches the index-correct variant on cases where the variants differ')
        if info['agree_failed'] and not rep.violations:
            rep.violation('agreement lemma(s) %s no longer check: generated code differs from the model' % info['agree_failed'],
                          {'kind': 'agreement', 'lemmas': info['agree_failed'], 'file': 'coq/GenAgree/BezierN.v',
                           'messages': info.get('agree_msgs', {})}, found_input=False, key='agree')
    rep.assumptions += ['numpy.roots (LAPACK) is an oracle: its output is recorded per case and given to the model',
                        'numpy poly1d arithmetic is modelled by coefficient lists',
                        'rounding bound 2^14 * 2^-53 * sum|P_i| * max(1,|t|)^n']
