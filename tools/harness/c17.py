"""C17 — SVG flattening applies shape conversion and nested transforms per the
SVG specification.  Theorems: coq/Props/C17.v (models: coq/Model/SvgTree.v).

Tie (correspondence): random trees of nested groups are rendered to SVG text
in a scratch directory, read by Document.paths(), Document.paths_from_group
(every group), svg2paths and SaxDocument; every tree goes into Coq as a term
and the comparison of the observations with (a) the model of the
implementation (tie) and (b) the reference semantics (property) is computed
inside Coq on exact rationals (Model/SvgTreeCheck.v).  The trigonometry of an
angle is data for the model (exact rationals for the angles whose cos/sin are
rational, the binary64 value of libm's cos/sin/tan otherwise); the rounding
bound is 1e-9 * scale.

Streams: 'main' (no elliptical arc under a non-identity transform), 'arcs'
(circles/ellipses under transforms: the Arc branch of path.transform)."""
import os, math, json, tempfile, shutil, warnings, traceback, time
from fractions import Fraction
import common
from common import qc, coq_list

KINDS = ['path', 'circle', 'ellipse', 'line', 'polyline', 'polygon', 'rect']
KCOQ = {'path': 'KPath', 'circle': 'KCircle', 'ellipse': 'KEllipse', 'line': 'KLine',
        'polyline': 'KPolyline', 'polygon': 'KPolygon', 'rect': 'KRect'}

OWN_VFILES = ['Model/SvgTree.v', 'Proofs/SvgTreeAlg.v', 'Proofs/SvgTreeFlat.v', 'Proofs/SvgTreeGroup.v',
              'Proofs/SvgTreeShapes.v', 'Model/SvgTreeCheck.v']


def ensure_own_vo(rep, files=OWN_VFILES):
    """until the files are listed in _CoqProject (then `make` keeps them current) compile the
    development's own files in dependency order when a .vo is missing or stale"""
    base = os.path.join(common.COQ, 'Base', 'Num.vo')
    with common.Lock('.lock_c17'):
        rebuilt = False
        for rel in files:
            v = os.path.join(common.COQ, rel)
            vo = v + 'o'
            stale = (not os.path.exists(vo) or os.path.getmtime(vo) < os.path.getmtime(v)
                     or (os.path.exists(base) and os.path.getmtime(vo) < os.path.getmtime(base)) or rebuilt)
            if stale:
                rc, out = common.sh(['coqc'] + common.COQFLAGS + [v], timeout=900, cwd=common.COQ)
                rebuilt = True
                if rc != 0:
                    rep.violation('coq/%s does not compile' % rel, {'kind': 'build', 'file': rel, 'log': out[-2500:]},
                                  found_input=False, key='build')
                    return False
    return True


# ------------------------------------------------------------------ numbers
def dy(rng, lo=-64, hi=64, k=3):
    """dyadic rational with at most k fractional bits"""
    return rng.randint(lo * (1 << k), hi * (1 << k)) / float(1 << k)


def dypos(rng, hi=32, k=3):
    return rng.randint(1, hi * (1 << k)) / float(1 << k)


def fnum(x):
    """number as written in the SVG text (round-trips through float())"""
    x = float(x)
    if x == int(x) and abs(x) < 1e15:
        return str(int(x)) if x != 0 or math.copysign(1, x) > 0 else '0'
    return repr(x)


def spell(rng, x):
    """one of the spellings the SVG number grammar allows for the (finite decimal) number x; the
    value is x exactly"""
    from decimal import Decimal
    x = float(x)
    mode = rng.choice(['plain', 'plain', 'nolead', 'plus', 'exp', 'exp', 'dot'])
    if mode == 'plain' or x == 0:
        return fnum(x)
    def dec(v):                  # exact positional decimal of a Decimal
        t = format(v, 'f')
        if '.' in t:
            t = t.rstrip('0').rstrip('.') if t.rstrip('0') != t or t.endswith('.') else t
        return t or '0'
    sign = '-' if x < 0 else ''
    ax = Decimal(abs(x))
    if mode == 'dot':
        return sign + dec(ax) + '.' if ax == ax.to_integral_value() else fnum(x)
    if mode == 'plus' and x > 0:
        t = dec(ax)
        if t.startswith('0.') and rng.random() < 0.5:
            t = t[1:]
        return '+' + t
    if mode == 'exp':
        k = rng.choice([-3, -2, -1, 1, 2, 3])
        m = dec(ax.scaleb(-k))
        if m.startswith('0.') and rng.random() < 0.6:
            m = m[1:]                     # .125e2
        if sign == '' and rng.random() < 0.2:
            sign = '+'
        return '%s%s%s%s%d' % (sign, m, rng.choice('eE'), rng.choice(['', '+']) if k > 0 else '', k)
    t = dec(ax)                           # nolead
    if t.startswith('0.'):
        t = t[1:]
    return sign + t


def points_text(rng, pts, style):
    """the points attribute: number spellings, comma / white space / sign as separators (SVG 1.1 9.7)"""
    if style in ('comma-space', 'space', 'comma'):
        a, b = {'comma-space': (',', ' '), 'space': (' ', ' '), 'comma': (',', ',')}[style]
        return b.join('%s%s%s' % (fnum(x), a, fnum(y)) for x, y in pts)
    out, prev = '', ''
    def nosep_ok(prev, nxt):
        # by the SVG number grammar (longest match) the next number may follow directly when it starts
        # with a sign, or with a decimal point after a number that already has a point or an exponent
        if nxt[0] in '+-':
            return True
        return nxt[0] == '.' and any(ch in prev for ch in '.eE')
    for i, (x, y) in enumerate(pts):
        sx, sy = spell(rng, x), spell(rng, y)
        if i:
            seps = [' ', ',', ' , ', '  ', ', ']
            if nosep_ok(prev, sx):
                seps += ['', '', '']
            sep = rng.choice(seps)
            if sep == '' and sx[0] != '-':
                ADJ[0] = True            # "1.5.5" / "1+2": the spellings of KF 'polyline-points-adjacent-number-mispaired'
            out += sep
        inner = [',', ' ', ' , ', ', ', ' ,']
        if nosep_ok(sx, sy):
            inner += ['', '', '']
        sep = rng.choice(inner)
        if sep == '' and sy[0] != '-':
            ADJ[0] = True
        out += sx + sep + sy
        prev = sy
    return out


ADJ = [False]


NICE_ROT = [  # (degrees, cos, sin): cos/sin rational
    (0.0, Fraction(1), Fraction(0)),
    (90.0, Fraction(0), Fraction(1)),
    (180.0, Fraction(-1), Fraction(0)),
    (270.0, Fraction(0), Fraction(-1)),
    (-90.0, Fraction(0), Fraction(-1)),
    (math.degrees(math.atan2(3, 4)), Fraction(4, 5), Fraction(3, 5)),
    (math.degrees(math.atan2(4, 3)), Fraction(3, 5), Fraction(4, 5)),
    (math.degrees(math.atan2(5, 12)), Fraction(12, 13), Fraction(5, 13)),
    (180 - math.degrees(math.atan2(3, 4)), Fraction(-4, 5), Fraction(3, 5)),
]
NICE_SKEW = [  # (degrees, tan)
    (0.0, Fraction(0)), (45.0, Fraction(1)), (-45.0, Fraction(-1)),
    (math.degrees(math.atan2(3, 4)), Fraction(3, 4)), (math.degrees(math.atan2(1, 2)), Fraction(1, 2)),
    (math.degrees(math.atan2(-4, 3)), Fraction(-4, 3)),
]


def gen_angle_rot(rng, exact_ok):
    if exact_ok and rng.random() < 0.6:
        d, c, s = rng.choice(NICE_ROT)
        return {'deg': d, 'cos': c, 'sin': s, 'nice': True}
    d = rng.choice([rng.uniform(-360, 360), float(rng.randint(-360, 360)), rng.choice([30.0, 45.0, 60.0, 120.0, 360.0, 1.0])])
    a = d * math.pi / 180.0
    return {'deg': d, 'cos': Fraction(math.cos(a)), 'sin': Fraction(math.sin(a)), 'nice': False}


def gen_angle_skew(rng, exact_ok):
    if exact_ok and rng.random() < 0.6:
        d, t = rng.choice(NICE_SKEW)
        return {'deg': d, 'tan': t, 'nice': True}
    d = rng.choice([rng.uniform(-80, 80), float(rng.randint(-80, 80)), 30.0, 60.0])
    return {'deg': d, 'tan': Fraction(math.tan(d * math.pi / 180.0)), 'nice': False}


def gen_titem(rng, exact_ok):
    k = rng.choice(['matrix', 'translate1', 'translate2', 'scale1', 'scale2', 'rotate1', 'rotate3', 'skewX', 'skewY'])
    if k == 'matrix':
        return ('matrix', [dy(rng, -4, 4), dy(rng, -4, 4), dy(rng, -4, 4), dy(rng, -4, 4), dy(rng), dy(rng)])
    if k == 'translate1':
        return ('translate', [dy(rng)])
    if k == 'translate2':
        return ('translate', [dy(rng), dy(rng)])
    if k == 'scale1':
        return ('scale', [rng.choice([2.0, 0.5, -1.0, 3.0, 1.5, dy(rng, -4, 4) or 1.0])])
    if k == 'scale2':
        return ('scale', [rng.choice([2.0, 0.5, -1.0, 1.0, dy(rng, -4, 4) or 1.0]), rng.choice([2.0, 0.25, -1.0, 1.0, dy(rng, -4, 4) or 1.0])])
    if k == 'rotate1':
        return ('rotate', gen_angle_rot(rng, exact_ok), None)
    if k == 'rotate3':
        return ('rotate', gen_angle_rot(rng, exact_ok), [dy(rng, -16, 16), dy(rng, -16, 16)])
    if k == 'skewX':
        return ('skewX', gen_angle_skew(rng, exact_ok))
    return ('skewY', gen_angle_skew(rng, exact_ok))


def gen_tf(rng, exact_ok, p_none=0.45):
    if rng.random() < p_none:
        return []
    return [gen_titem(rng, exact_ok) for _ in range(rng.choice([1, 1, 2, 2, 3]))]


def titem_text(rng, t):
    sep = lambda: rng.choice([',', ' ', ', ', '  '])
    if t[0] in ('matrix', 'translate', 'scale'):
        vals = t[1]
        s = fnum(vals[0])
        for v in vals[1:]:
            s += sep() + fnum(v)
        return '%s(%s)' % (t[0], s)
    if t[0] == 'rotate':
        s = repr(t[1]['deg']) if not float(t[1]['deg']).is_integer() else fnum(t[1]['deg'])
        if t[2] is not None:
            s += sep() + fnum(t[2][0]) + sep() + fnum(t[2][1])
        return 'rotate(%s)' % s
    d = t[1]['deg']
    return '%s(%s)' % (t[0], repr(d) if not float(d).is_integer() else fnum(d))


def tf_text(rng, tf):
    return rng.choice([' ', ' ', '', ', ']).join(titem_text(rng, t) for t in tf)


def titem_coq(t):
    if t[0] == 'matrix':
        return '(TMatrix %s)' % ' '.join(qc(v) for v in t[1])
    if t[0] in ('translate', 'scale'):
        ctor = 'TTranslate' if t[0] == 'translate' else 'TScale'
        oy = '(Some %s)' % qc(t[1][1]) if len(t[1]) > 1 else '(@None Qc)'
        return '(%s %s %s)' % (ctor, qc(t[1][0]), oy)
    if t[0] == 'rotate':
        oc = '(Some (%s, %s))' % (qc(t[2][0]), qc(t[2][1])) if t[2] is not None else '(@None (Qc * Qc))'
        return '(TRotate %s %s %s)' % (qc(t[1]['cos']), qc(t[1]['sin']), oc)
    return '(%s %s)' % ('TSkewX' if t[0] == 'skewX' else 'TSkewY', qc(t[1]['tan']))


def titem_matrix(t):
    """3x3 float matrix (python reference used for replays / sample checks only)"""
    I = [[1.0, 0, 0], [0, 1.0, 0], [0, 0, 1.0]]
    if t[0] == 'matrix':
        a, b, c, d, e, f = t[1]
        return [[a, c, e], [b, d, f], [0, 0, 1.0]]
    if t[0] == 'translate':
        return [[1.0, 0, t[1][0]], [0, 1.0, t[1][1] if len(t[1]) > 1 else 0.0], [0, 0, 1.0]]
    if t[0] == 'scale':
        return [[t[1][0], 0, 0], [0, t[1][1] if len(t[1]) > 1 else t[1][0], 0], [0, 0, 1.0]]
    if t[0] == 'rotate':
        c, s = float(t[1]['cos']), float(t[1]['sin'])
        cx, cy = t[2] if t[2] is not None else (0.0, 0.0)
        return [[c, -s, cx - c * cx + s * cy], [s, c, cy - s * cx - c * cy], [0, 0, 1.0]]
    if t[0] == 'skewX':
        return [[1.0, float(t[1]['tan']), 0], [0, 1.0, 0], [0, 0, 1.0]]
    return [[1.0, 0, 0], [float(t[1]['tan']), 1.0, 0], [0, 0, 1.0]]


def mmul(A, B):
    return [[sum(A[i][k] * B[k][j] for k in range(3)) for j in range(3)] for i in range(3)]


def tf_matrix(tf, M=None):
    M = M or [[1.0, 0, 0], [0, 1.0, 0], [0, 0, 1.0]]
    for t in tf:
        M = mmul(M, titem_matrix(t))
    return M


# ------------------------------------------------------------------- shapes
def gen_pt(rng):
    return (dy(rng), dy(rng))


def gen_path_d(rng, allow_arc):
    """absolute commands only; returns (d text, segments)"""
    segs, d = [], ''
    for sub in range(rng.choice([1, 1, 2])):
        cur = gen_pt(rng)
        start = cur
        d += 'M%s,%s' % (fnum(cur[0]), fnum(cur[1]))
        for _ in range(rng.randint(1, 3)):
            k = rng.choice(['L', 'L', 'Q', 'C'] + (['A'] if allow_arc else []))
            e = gen_pt(rng)
            while e == cur:
                e = gen_pt(rng)
            if k == 'L':
                d += ' L%s %s' % (fnum(e[0]), fnum(e[1])); segs.append(('L', cur, e))
            elif k == 'Q':
                c = gen_pt(rng)
                d += ' Q%s,%s %s,%s' % tuple(fnum(v) for v in c + e); segs.append(('Q', cur, c, e))
            elif k == 'C':
                c1, c2 = gen_pt(rng), gen_pt(rng)
                d += ' C%s,%s %s,%s %s,%s' % tuple(fnum(v) for v in c1 + c2 + e); segs.append(('C', cur, c1, c2, e))
            else:
                dist = math.hypot(e[0] - cur[0], e[1] - cur[1])
                r = float(math.ceil(dist)) + rng.choice([0.0, 1.0, 4.5])
                rx, ry = r, r + rng.choice([0.0, 2.0])
                la, sw = rng.random() < 0.5, rng.random() < 0.5
                d += ' A%s %s 0 %d %d %s %s' % (fnum(rx), fnum(ry), la, sw, fnum(e[0]), fnum(e[1]))
                segs.append(('A', cur, rx, ry, 0.0, la, sw, e))
            cur = e
        if rng.random() < 0.3 and cur != start:
            d += ' Z'; segs.append(('L', cur, start))
    return d, segs


def gen_shape(rng, kind, sid):
    a = {}
    if kind == 'path':
        d, segs = gen_path_d(rng, False)
        a['d'] = d
        return {'type': 'shape', 'kind': kind, 'id': sid, 'attrs': a, 'segs': segs}
    if kind == 'circle':
        if rng.random() < 0.8: a['cx'] = dy(rng)
        if rng.random() < 0.8: a['cy'] = dy(rng)
        a['r'] = dypos(rng)
    elif kind == 'ellipse':
        if rng.random() < 0.8: a['cx'] = dy(rng)
        if rng.random() < 0.8: a['cy'] = dy(rng)
        a['rx'] = dypos(rng); a['ry'] = dypos(rng)
    elif kind == 'line':
        for k in ('x1', 'y1', 'x2', 'y2'):
            if rng.random() < 0.93: a[k] = dy(rng)
        if (a.get('x1', 0.0), a.get('y1', 0.0)) == (a.get('x2', 0.0), a.get('y2', 0.0)):
            a['x2'] = a.get('x1', 0.0) + 1.0
    elif kind in ('polyline', 'polygon'):
        n = rng.randint(2, 6)
        pts = []
        while len(pts) < n:
            p = gen_pt(rng)
            if not pts or p != pts[-1]:
                pts.append(p)
        if rng.random() < 0.35 and n >= 3:
            pts[-1] = pts[0]
        a['points'] = pts
        a['sep'] = rng.choice(['comma-space', 'space', 'comma', 'spelled', 'spelled', 'spelled'])
    elif kind == 'rect':
        if rng.random() < 0.85: a['x'] = dy(rng)
        if rng.random() < 0.85: a['y'] = dy(rng)
        a['width'] = dypos(rng); a['height'] = dypos(rng)
        mode = rng.choice(['plain', 'plain', 'rx', 'ry', 'both', 'big', 'bigboth'])
        hw, hh = a['width'] / 2, a['height'] / 2
        small = lambda h: max(0.125, math.floor(h * 8 * rng.uniform(0.1, 1.0)) / 8)
        if mode == 'rx': a['rx'] = small(min(hw, hh))
        elif mode == 'ry': a['ry'] = small(min(hw, hh))
        elif mode == 'both': a['rx'] = small(hw); a['ry'] = small(hh)
        elif mode == 'big': a['rx'] = hw + dypos(rng, 4); a['ry'] = small(hh)
        elif mode == 'bigboth': a['rx'] = hw + dypos(rng, 4); a['ry'] = hh + dypos(rng, 4)
        a['mode'] = mode
    return {'type': 'shape', 'kind': kind, 'id': sid, 'attrs': a}


def gen_tree(rng, stream):
    """depth <= 5, <= 12 shapes, every kind reachable.  stream 'main': circles/ellipses only where
    every transform list on the chain is empty; 'arcs': at least one circle/ellipse under a transform"""
    exact_ok = (stream == 'main')
    allow_line = rng.random() < 0.6
    counter = {'s': 0, 'g': 0}
    max_shapes = rng.randint(1, 12)
    kinds = [k for k in KINDS if allow_line or k != 'line']

    def mk_group(depth, chain_plain, is_root):
        tf = [] if (is_root and rng.random() < 0.85) else gen_tf(rng, exact_ok)
        plain = chain_plain and not tf
        g = {'type': 'g', 'tf': tf, 'kids': [], 'gid': counter['g']}
        counter['g'] += 1
        nk = rng.randint(1, 4) if depth < 5 else rng.randint(1, 3)
        for _ in range(nk):
            if depth < 5 and counter['g'] < 9 and rng.random() < (0.45 if depth < 3 else 0.3):
                g['kids'].append(mk_group(depth + 1, plain, False))
            elif counter['s'] < max_shapes:
                kind = rng.choice(kinds)
                s = gen_shape(rng, kind, counter['s'])
                s['tf'] = gen_tf(rng, exact_ok, 0.55)
                if kind == 'rect' and stream == 'main' and ('rx' in s['attrs'] or 'ry' in s['attrs']):
                    # a rounded rect is a path with arcs (on every route once rect2pathd is repaired):
                    # like circles, in the main stream only where no transform applies
                    if plain:
                        s['tf'] = []
                    else:
                        s['attrs'].pop('rx', None); s['attrs'].pop('ry', None); s['attrs']['mode'] = 'plain'
                if kind in ('circle', 'ellipse'):
                    if stream == 'main':
                        if not plain:
                            kind = rng.choice([k for k in kinds if k not in ('circle', 'ellipse')])
                            s = gen_shape(rng, kind, counter['s']); s['tf'] = gen_tf(rng, exact_ok, 0.55)
                        else:
                            s['tf'] = []
                counter['s'] += 1
                g['kids'].append(s)
        return g

    for _ in range(50):
        counter['s'] = counter['g'] = 0
        root = mk_group(1, True, True)
        shapes = list(iter_shapes(root))
        if not shapes:
            continue
        if stream == 'arcs':
            ok = any(s['kind'] in ('circle', 'ellipse') and not is_identity(ctm) for s, ctm, _ in shapes)
            if ok and rng.random() < 0.5:
                # sometimes also a rounded rect under a transform
                g = rng.choice([n for n in iter_groups(root)])[0]
                s = gen_shape(rng, 'rect', counter['s'])
                s['tf'] = gen_tf(rng, False, 0.3)
                counter['s'] += 1
                g['kids'].append(s)
            if not ok:
                # force one
                g = rng.choice([n for n in iter_groups(root)])[0]
                s = gen_shape(rng, rng.choice(['circle', 'ellipse']), counter['s'])
                s['tf'] = gen_tf(rng, False, 0.0)
                counter['s'] += 1
                g['kids'].append(s)
        return root, {'allow_line': allow_line}
    raise RuntimeError('generator produced no shapes')


def gen_tree_nearid(rng):
    """transforms within numpy.allclose's default tolerances of the identity (rtol 1e-5, atol 1e-8),
    single items and products, on coordinates where they matter: map-scale (~1e6) for the linear
    part, nanometre-scale for the translations.  No arcs."""
    big = rng.random() < 0.7
    counter = {'s': 0, 'g': 0}
    def coord():
        if big:
            return float(rng.randint(-2000000, 2000000)) + rng.choice([0.0, 0.5, 0.25])
        return rng.randint(-2000, 2000) * 2.0 ** -37          # ~ +-1.5e-8, exact
    def pt():
        return (coord(), coord())
    def near_items():
        if big:
            k = rng.choice(['scale1', 'scale2', 'matrix', 'rot', 'skew', 'prod', 'prod2'])
            e = rng.choice([5e-6, 4e-6, -3e-6, 2.0 ** -18, 8e-6])
            if k == 'scale1':
                return [('scale', [1.0 + e])]
            if k == 'scale2':
                return [('scale', [1.0, 1.0 + e])]
            if k == 'matrix':
                return [('matrix', [1.0, 0.0, 0.0, 1.0 + e, 0.0, 0.0])]
            if k == 'rot':
                d = rng.choice([5e-7, -4e-7, 3e-7])
                a = d * math.pi / 180.0
                return [('rotate', {'deg': d, 'cos': Fraction(math.cos(a)), 'sin': Fraction(math.sin(a)), 'nice': False}, None)]
            if k == 'skew':
                d = rng.choice([5e-7, -4e-7])
                return [(rng.choice(['skewX', 'skewY']), {'deg': d, 'tan': Fraction(math.tan(d * math.pi / 180.0)), 'nice': False})]
            sc = rng.choice([2.0, 3.0, 0.5, 7.0, 1.5])
            if k == 'prod':
                return [('scale', [sc]), ('scale', [(1.0 / sc) * (1.0 + 1e-6)])]
            return [('translate', [1000.0, -250.0]), ('scale', [1.0 + e]), ('translate', [-1000.0, 250.0])]
        k = rng.choice(['t2', 't1', 'matrix'])
        if k == 't2':
            return [('translate', [5e-9, -3e-9])]
        if k == 't1':
            return [('translate', [rng.choice([5e-9, -7e-9, 9e-9])])]
        return [('matrix', [1.0, 0.0, 0.0, 1.0, 4e-9, 6e-9])]
    def shape():
        kind = rng.choice(['path', 'line', 'polyline', 'polygon', 'rect'])
        sid = counter['s']; counter['s'] += 1
        a = {}
        if kind == 'path':
            p0, p1, p2, p3 = pt(), pt(), pt(), pt()
            d = 'M%s,%s L%s %s C%s,%s %s,%s %s,%s' % tuple(fnum(v) for v in p0 + p1 + p2 + p3 + p0)
            return {'type': 'shape', 'kind': kind, 'id': sid, 'attrs': {'d': d},
                    'segs': [('L', p0, p1), ('C', p1, p2, p3, p0)], 'tf': []}
        if kind == 'line':
            (a['x1'], a['y1']), (a['x2'], a['y2']) = pt(), pt()
            if (a['x1'], a['y1']) == (a['x2'], a['y2']):
                a['x2'] += coord() or 1.0
        elif kind in ('polyline', 'polygon'):
            pts = []
            while len(pts) < 3:
                q = pt()
                if not pts or q != pts[-1]:
                    pts.append(q)
            a['points'] = pts; a['sep'] = 'comma-space'
        else:
            a['x'], a['y'] = pt()
            a['width'] = abs(coord()) or (1.0 if big else 2.0 ** -30)
            a['height'] = abs(coord()) or (1.0 if big else 2.0 ** -30)
            a['mode'] = 'plain'
        return {'type': 'shape', 'kind': kind, 'id': sid, 'attrs': a, 'tf': []}
    def group(depth):
        g = {'type': 'g', 'tf': near_items() if (depth > 1 and rng.random() < 0.6) else [], 'kids': [], 'gid': counter['g']}
        counter['g'] += 1
        for _ in range(rng.randint(1, 3)):
            if depth < 3 and rng.random() < 0.4:
                g['kids'].append(group(depth + 1))
            else:
                sh = shape()
                if rng.random() < 0.6:
                    sh['tf'] = near_items()
                g['kids'].append(sh)
        return g
    root = group(1)
    if not any(True for _ in iter_shapes(root)):
        root['kids'].append(shape())
    if not any(ch for _, _, ch in iter_shapes(root) if any(ch)):
        sh = shape(); sh['tf'] = near_items(); root['kids'].append(sh)
    return root, {'allow_line': True}


def iter_groups(n, pos=()):
    """(group, position)"""
    if n['type'] == 'g':
        yield n, pos
        for i, c in enumerate(n['kids']):
            for x in iter_groups(c, pos + (i,)):
                yield x


def iter_shapes(n, M=None, chain=()):
    """(shape, CTM float matrix, chain of tf lists) in document order"""
    if n['type'] == 'g':
        M2 = tf_matrix(n['tf'], M)
        for c in n['kids']:
            for x in iter_shapes(c, M2, chain + (n['tf'],)):
                yield x
    else:
        yield n, tf_matrix(n['tf'], M), chain + (n['tf'],)


def is_identity(M):
    return M == [[1.0, 0, 0], [0, 1.0, 0], [0, 0, 1.0]]


def depth_of(n):
    return 1 + max([depth_of(c) for c in n['kids'] if c['type'] == 'g'] + [0]) if n['type'] == 'g' else 0


# ------------------------------------------------------------------ render
def shape_xml(rng, s):
    a, k = s['attrs'], s['kind']
    at = ['id="e%d"' % s['id']]
    if k == 'path':
        at.append('d="%s"' % a['d'])
    elif k in ('polyline', 'polygon'):
        ADJ[0] = False
        s['points_text'] = points_text(rng, a['points'], a['sep'])
        s['adjacent'] = ADJ[0]
        at.append('points="%s"' % s['points_text'])
    else:
        for key in ('cx', 'cy', 'r', 'rx', 'ry', 'x', 'y', 'width', 'height', 'x1', 'y1', 'x2', 'y2'):
            if key in a:
                at.append('%s="%s"' % (key, fnum(a[key])))
    if s['tf']:
        at.append('transform="%s"' % tf_text(rng, s['tf']))
    rng.shuffle(at)
    return '<%s %s/>' % (k, ' '.join(at))


def node_xml(rng, n, root=False):
    if n['type'] == 'shape':
        return shape_xml(rng, n)
    at = ['id="g%d"' % n['gid']]
    if n['tf']:
        at.append('transform="%s"' % tf_text(rng, n['tf']))
    inner = '\n'.join(node_xml(rng, c) for c in n['kids'])
    if root:
        return '<svg xmlns="http://www.w3.org/2000/svg" %s>\n%s\n</svg>\n' % (' '.join(at), inner)
    return '<g %s>\n%s\n</g>' % (' '.join(at), inner)


# --------------------------------------------------------------- Coq terms
def opt(a, k):
    return '(Some %s)' % qc(a[k]) if k in a else 'None'


def pt_coq(p):
    return '(%s, %s)' % (qc(p[0]), qc(p[1]))


def seg_coq(s):
    if s[0] == 'L':
        return '(SgLine %s %s)' % (pt_coq(s[1]), pt_coq(s[2]))
    if s[0] == 'Q':
        return '(SgQuad %s %s %s)' % (pt_coq(s[1]), pt_coq(s[2]), pt_coq(s[3]))
    if s[0] == 'C':
        return '(SgCubic %s %s %s %s)' % (pt_coq(s[1]), pt_coq(s[2]), pt_coq(s[3]), pt_coq(s[4]))
    return '(SgArc %s %s %s %s %s %s %s)' % (pt_coq(s[1]), qc(s[2]), qc(s[3]), qc(s[4]),
                                             common.coq_bool(s[5]), common.coq_bool(s[6]), pt_coq(s[7]))


def segs_coq(l):
    return coq_list([seg_coq(s) for s in l]) if l else '(@nil qseg)'


def impl_points(root):
    """the points of every polyline / polygon as the implementation's own tokeniser (COORD_PAIR_TMPLT,
    an oracle of the model) returns them; True when some differ from the SVG grammar's reading"""
    from svgpathtools.svg_to_paths import COORD_PAIR_TMPLT
    differs = False
    for s, _, _ in iter_shapes(root):
        if s['kind'] in ('polyline', 'polygon'):
            try:
                s['impl_points'] = [(float(x), float(y)) for x, y in COORD_PAIR_TMPLT.findall(s['points_text'])]
            except Exception:
                s['impl_points'] = []
            if s['impl_points'] != [(float(x), float(y)) for x, y in s['attrs']['points']]:
                differs = True
    return differs


def node_coq(n, impl=False):
    tf = coq_list([titem_coq(t) for t in n['tf']]) if n['tf'] else '(@nil (@titem Qc))'
    if n['type'] == 'g':
        kids = coq_list([node_coq(c, impl) for c in n['kids']]) if n['kids'] else '(@nil qnode)'
        return '(@Group Qc %s %s)' % (tf, kids)
    a = n['attrs']
    d = segs_coq(n.get('segs', []))
    ptl = n['impl_points'] if (impl and 'impl_points' in n) else a.get('points')
    pts = coq_list([pt_coq(p) for p in ptl]) if ptl else '(@nil qpt)'
    at = '(mk_attrs %d %s %s %s %s %s %s %s %s %s %s %s %s %s %s %s)' % (
        n['id'], d, opt(a, 'cx'), opt(a, 'cy'), opt(a, 'r'), opt(a, 'rx'), opt(a, 'ry'),
        opt(a, 'x'), opt(a, 'y'), opt(a, 'width'), opt(a, 'height'),
        opt(a, 'x1'), opt(a, 'y1'), opt(a, 'x2'), opt(a, 'y2'), pts)
    return '(@Shape Qc %s %s %s)' % (KCOQ[n['kind']], at, tf)


def mat_coq(M):
    return '(@mkMat Qc %s)' % ' '.join(qc(float(M[i][j])) for i in range(3) for j in range(3))


def pos_coq(p):
    return coq_list([str(i) for i in p]) if p else '(@nil nat)'


# ------------------------------------------------------- implementation
def path_segs(path):
    from svgpathtools import Line, QuadraticBezier, CubicBezier, Arc
    out = []
    for s in path:
        c = lambda z: (float(complex(z).real), float(complex(z).imag))
        if isinstance(s, Line):
            out.append(('L', c(s.start), c(s.end)))
        elif isinstance(s, QuadraticBezier):
            out.append(('Q', c(s.start), c(s.control), c(s.end)))
        elif isinstance(s, CubicBezier):
            out.append(('C', c(s.start), c(s.control1), c(s.control2), c(s.end)))
        elif isinstance(s, Arc):
            out.append(('A', c(s.start), float(s.radius.real), float(s.radius.imag), float(s.rotation),
                        bool(s.large_arc), bool(s.sweep), c(s.end)))
        else:
            raise TypeError('unknown segment %r' % (s,))
    return out


def eid(x):
    if x is None or not str(x).startswith('e'):
        return None
    return int(str(x)[1:])


def guarded(f):
    try:
        with warnings.catch_warnings():
            warnings.simplefilter('ignore')
            return {'ok': f()}
    except Exception as e:
        return {'exc': type(e).__name__, 'msg': str(e)[:300], 'tb': traceback.format_exc()[-800:]}


def observe(path, root):
    from svgpathtools import Document, svg2paths, SaxDocument, parse_path
    import numpy as np
    o = {}

    def doc_all():
        d = Document(path)
        return [(eid(p.element.get('id')), path_segs(p), np.array(p.transform).tolist()) for p in d.paths()]
    o['document'] = guarded(doc_all)

    o['groups'] = []
    o['groups_nr'] = []
    for g, pos in iter_groups(root):
        def from_g(pos=pos):
            d = Document(path)
            el = d.tree.getroot()
            for i in pos:
                el = list(el)[i]
            return [(eid(p.element.get('id')), path_segs(p), np.array(p.transform).tolist())
                    for p in d.paths_from_group(el)]
        o['groups'].append((pos, guarded(from_g)))
        def from_g_nr(pos=pos):
            d = Document(path)
            el = d.tree.getroot()
            for i in pos:
                el = list(el)[i]
            return [(eid(p.element.get('id')), path_segs(p), np.array(p.transform).tolist())
                    for p in d.paths_from_group(el, recursive=False)]
        o['groups_nr'].append((pos, guarded(from_g_nr)))

    def s2p():
        ps, at = svg2paths(path)
        return [(eid(a.get('id')), path_segs(p)) for p, a in zip(ps, at)]
    o['svg2paths'] = guarded(s2p)

    def sax_parse():
        s = SaxDocument(path)
        return s, [(eid(v.get('id')), path_segs(parse_path(v['d'])),
                    None if v['matrix'] is None else np.array(v['matrix']).tolist()) for v in s.tree]
    r = guarded(sax_parse)
    if 'ok' in r:
        s, tree = r['ok']
        o['sax_parse'] = {'ok': tree}
        o['sax_flat'] = guarded(lambda: [(t[0], path_segs(p)) for t, p in zip(tree, s.flatten_all_paths())])
    else:
        o['sax_parse'] = r
        o['sax_flat'] = dict(r)
    return o


def entries_coq(l):
    if not l:
        return '(@nil obs_entry)'
    return coq_list(['(%d, %s, %s)' % (i if i is not None else 9999, segs_coq(s), mat_coq(M)) for i, s, M in l])


def plain_coq(l):
    if not l:
        return '(@nil obs_plain)'
    return coq_list(['(%d, %s)' % (i if i is not None else 9999, segs_coq(s)) for i, s in l])


def saxp_coq(l):
    if not l:
        return '(@nil (nat * list qseg * option qmat))'
    return coq_list(['(%d, %s, %s)' % (i if i is not None else 9999, segs_coq(s),
                                       '(@None qmat)' if M is None else '(Some %s)' % mat_coq(M)) for i, s, M in l])


def oq(r, f, ty):
    return '(Some %s)' % f(r['ok']) if 'ok' in r else '(@None (list %s))' % ty


def scale_of(o, root):
    m = 1.0
    def upd(v):
        nonlocal m
        if isinstance(v, (list, tuple)):
            for x in v:
                upd(x)
        elif isinstance(v, float):
            if math.isfinite(v):
                m = max(m, abs(v))
    for k in ('document', 'svg2paths', 'sax_parse', 'sax_flat'):
        if 'ok' in o[k]:
            upd(o[k]['ok'])
    for _, r in o['groups'] + o['groups_nr']:
        if 'ok' in r:
            upd(r['ok'])
    for s, M, _ in iter_shapes(root):
        upd(M)
    return m


OKDEF_T = r'''
From SVP Require Import Model.SvgTree Model.SvgTreeCheck.
Definition casety : Type := (Qc * qnode * qnode * obs)%%type.
(* the variant of the code detected by the probes (false = pinned code) *)
Definition the_cfg : cfg := %s.
Definition ok (c : casety) : nat := check_case the_cfg c.
'''

FLAGS = ['rect_attr', 'rect_clamp', 'line_default', 'group_empty', 'sax_line', 'sax_order', 'sax_keep', 'arc_tf']


def probe_flags(scratch):
    """which variant of each repaired behaviour does the implementation run?  Each probe is the
    witness of the corresponding `_refuted` Example of Props/C17.v"""
    from svgpathtools import Document, svg2paths, SaxDocument, Arc
    NS = 'xmlns="http://www.w3.org/2000/svg"'
    def wr(name, body):
        p = os.path.join(scratch, name)
        with open(p, 'w') as f:
            f.write('<svg %s>%s</svg>' % (NS, body))
        return p
    fl = {}
    p = wr('p_rect.svg', '<rect x="0" y="0" width="10" height="8" rx="2" ry="1"/>')
    r = guarded(lambda: any(isinstance(s, Arc) for s in Document(p).paths()[0]))
    fl['rect_attr'] = r.get('ok') is True
    p = wr('p_clamp.svg', '<rect width="10" height="8" rx="8" ry="1"/>')
    r = guarded(lambda: [s.radius.real for s in svg2paths(p)[0][0] if isinstance(s, Arc)][0])
    fl['rect_clamp'] = r.get('ok') == 5.0
    p = wr('p_line.svg', '<line x2="3" y2="4"/>')
    r = guarded(lambda: svg2paths(p)[0][0].d())
    fl['line_default'] = 'ok' in r
    p = wr('p_empty.svg', '<path d="M0,0 L1,1"/><g id="E"></g>')
    def f():
        d = Document(p)
        return len(d.paths_from_group(list(d.tree.getroot())[1]))
    r = guarded(f)
    fl['group_empty'] = r.get('ok') == 0
    p1 = wr('p_saxline.svg', '<line x1="0" y1="0" x2="1" y2="1"/>')
    r = guarded(lambda: len(SaxDocument(p1).tree))
    fl['sax_line'] = r.get('ok') == 1
    p2 = wr('p_nested.svg', '<g transform="translate(10,0)"><g transform="scale(2)"><path d="M0,0 L1,1"/></g></g>')
    r = guarded(lambda: float(SaxDocument(p2).tree[0]['matrix'][0][2]))
    fl['sax_order'] = r.get('ok') == 10.0
    r = guarded(lambda: SaxDocument(p2).flatten_all_paths()[0][0].start)
    fl['sax_keep'] = 'ok' in r and r['ok'] != 0j
    # the Arc branch of transform()
    def arc_tf():
        import numpy as np
        from svgpathtools.path import transform
        return transform(Arc(0j, 2 + 1j, 0, 1, 0, 4 + 0j), np.array([[1.0, 0, 5], [0, 1, 0], [0, 0, 1]]))
    fl['arc_tf'] = 'ok' in guarded(arc_tf)
    # not a model flag (the tokeniser of `points` is an oracle): which reading of "1.5.5 2+3"
    from svgpathtools.svg_to_paths import COORD_PAIR_TMPLT
    EXTRA['points_adjacent'] = COORD_PAIR_TMPLT.findall('1.5.5 2+3') == [('1.5', '.5'), ('2', '+3')]
    for n in os.listdir(scratch):
        if n.startswith('p_'):
            os.remove(os.path.join(scratch, n))
    return fl


EXTRA = {}


def cfg_coq(fl):
    return '(mkCfg %s)' % ' '.join(common.coq_bool(fl[k]) for k in FLAGS)



# ------------------------------------------------------- classification
def chain_transforms(chain):
    return sum(1 for tf in chain if tf)


def classify_elem(route, s, M, chain, what):
    """narrow key for a reference element whose geometry / matrix is not returned"""
    k, a = s['kind'], s['attrs']
    if k in ('polyline', 'polygon') and what == 'geometry' and \
            s.get('impl_points') != [(float(x), float(y)) for x, y in a['points']]:
        # the implementation's tokeniser reads the points attribute differently from the SVG grammar
        return 'polyline-points-adjacent-number-mispaired' if s.get('adjacent') else 'polyline-points-misparsed'
    if k == 'rect' and ('rx' in a or 'ry' in a):
        if route in ('document', 'group') and not FL.get('rect_attr'):
            return 'doc-rounded-rect-loses-rounding'
        rx = a.get('rx', a.get('ry')); ry = a.get('ry', a.get('rx'))
        if not FL.get('rect_clamp') and (rx > a['width'] / 2 or ry > a['height'] / 2):
            return 'rect-radius-not-clamped'
    if route == 'sax' and what == 'geometry' and not is_identity(M):
        if not FL.get('sax_keep'):
            return 'sax-flatten-discards-transform'
        if not FL.get('sax_order') and chain_transforms(chain) >= 2:
            return 'sax-matrix-order-child-dot-parent'
    if route == 'sax' and what == 'matrix':
        if chain_transforms(chain) >= 2:
            return 'sax-matrix-order-child-dot-parent'
        return 'sax-matrix-mismatch'
    return 'geometry-mismatch-%s-%s' % (route, k)


RECT_ATTR = [False]     # set from the probes: rect2pathd sees rx/ry of Elements (Document routes)
FL = {}                 # the detected variant (probe_flags)


def has_arc(s, route):
    if s['kind'] in ('circle', 'ellipse'):
        return True
    if s['kind'] == 'path' and any(g[0] == 'A' for g in s.get('segs', [])):
        return True
    if s['kind'] == 'rect' and (route == 'sax' or RECT_ATTR[0]) and ('rx' in s['attrs'] or 'ry' in s['attrs']):
        return True
    return False


def classify_exc(route, r, root, subtree_shapes):
    exc, msg = r['exc'], r['msg']
    if exc == 'IndexError':
        for s, _, _ in subtree_shapes:
            if s['kind'] in ('polyline', 'polygon') and s.get('impl_points') == []:
                return 'polyline-points-adjacent-number-mispaired' if s.get('adjacent') else 'polyline-points-misparsed'
    if exc == 'TypeError' and 'degrees' in msg and any(has_arc(s, route) and not is_identity(M) for s, M, _ in subtree_shapes):
        return 'arc-transform-typeerror-numpy2'
    if route == 'sax' and exc == 'AttributeError' and "'attrib'" in msg and any(s['kind'] == 'line' for s, _, _ in subtree_shapes):
        return 'sax-line-attributeerror'
    if route == 'svg2paths' and exc == 'KeyError' and any(
            s['kind'] == 'line' and any(k not in s['attrs'] for k in ('x1', 'y1', 'x2', 'y2')) for s, _, _ in subtree_shapes):
        return 'svg2paths-line-missing-coord-keyerror'
    return 'impl-exception-%s-%s' % (route, exc)


def shapes_under(root, pos):
    n, M, chain = root, None, ()
    for i in pos:
        M = tf_matrix(n['tf'], M)
        chain = chain + (n['tf'],)
        n = n['kids'][i]
    return list(iter_shapes(n, M, chain))


def ref_arcs(s, sees_rx):
    """the elliptical arcs of the element's reference path (SVG 1.1 9.2-9.4): (cx, cy, rx, ry, theta0, delta)
    in degrees, rotation 0, in path order"""
    a, k = s['attrs'], s['kind']
    if k in ('circle', 'ellipse'):
        cx, cy = a.get('cx', 0.0), a.get('cy', 0.0)
        rx = a.get('r', a.get('rx')); ry = a.get('r', a.get('ry'))
        return [(cx, cy, rx, ry, 180.0, -180.0), (cx, cy, rx, ry, 0.0, -180.0)]
    if k == 'rect' and ('rx' in a or 'ry' in a) and sees_rx:
        x, y, w, h = a.get('x', 0.0), a.get('y', 0.0), a['width'], a['height']
        rx = min(a.get('rx', a.get('ry')), w / 2); ry = min(a.get('ry', a.get('rx')), h / 2)
        return [(x + w - rx, y + ry, rx, ry, -90.0, 90.0), (x + w - rx, y + h - ry, rx, ry, 0.0, 90.0),
                (x + rx, y + h - ry, rx, ry, 90.0, 90.0), (x + rx, y + ry, rx, ry, 180.0, 90.0)]
    return []


def arc_pointwise_check(obs_list, shapes, sees_rx):
    """implementation-level judgement of elliptical arcs under a non-identity transform (when transform()
    returns instead of raising): every sampled point of a returned arc, mapped back by the inverse CTM, lies
    on the reference arc (on its ellipse AND within its angular range).  Returns (ids failing, arcs judged)"""
    import numpy as np
    from svgpathtools import Arc
    bad, judged = [], 0
    byid = {e[0]: e[1] for e in obs_list}
    for s, M, _ in shapes:
        refs = ref_arcs(s, sees_rx)
        if not refs or is_identity(M) or s['id'] not in byid:
            continue
        Mn = np.array(M)
        if abs(np.linalg.det(Mn[:2, :2])) < 1e-9:
            continue
        Mi = np.linalg.inv(Mn)
        got = [g for g in byid[s['id']] if g[0] == 'A']
        if len(got) != len(refs):
            bad.append(s['id']); continue
        for g, (cx, cy, rx, ry, th0, dl) in zip(got, refs):
            judged += 1
            try:
                arc = Arc(complex(*g[1]), complex(g[2], g[3]), g[4], g[5], g[6], complex(*g[7]))
                ok = True
                for t in (0.0, 0.125, 0.25, 0.5, 0.75, 0.875, 1.0):
                    p = arc.point(t)
                    qv = Mi.dot(np.array([p.real, p.imag, 1.0]))
                    u, v = (qv[0] - cx) / rx, (qv[1] - cy) / ry
                    if abs(u * u + v * v - 1.0) > 1e-6:
                        ok = False; break
                    phi = math.degrees(math.atan2(v, u))
                    off = ((phi - th0) * (1.0 if dl > 0 else -1.0)) % 360.0
                    if off > abs(dl) + 1e-4 and off < 360.0 - 1e-4:
                        ok = False; break
            except Exception:
                ok = False
            if not ok:
                bad.append(s['id']); break
    return sorted(set(bad)), judged


# ------------------------------------------------------------------- run
def run(rep, tier, seed, replay=None):
    warnings.simplefilter('ignore')
    rng = common.mkrng(seed, 'C17')
    if not ensure_own_vo(rep):
        return
    scratch = tempfile.mkdtemp(prefix='svpverif_c17_')
    try:
        with common.Scratch() as tmp:
            info = common.std_static(rep, 'C17', (), (), tmp)
            flags = probe_flags(scratch)
            rep.cov['variant'] = dict(flags, **EXTRA)
            rep.notes.append('code variant detected by the probes (false = pinned 12ec128 behaviour): %s' % flags)
            OKDEF = OKDEF_T % cfg_coq(flags)
            RECT_ATTR[0] = flags['rect_attr']
            FL.clear(); FL.update(flags)
            n_trees = 170 if tier == 'quick' else 1500
            todo = []
            if replay:
                r = json.load(open(replay))['replay']
                rng2 = common.mkrng(r['tree_seed'], 'C17-tree')
                root, ginfo = gen_tree_nearid(rng2) if r['stream'] == 'nearid' else gen_tree(rng2, r['stream'])
                todo.append((r['stream'], r['tree_seed'], root, ginfo, rng2))
            else:
                for i in range(n_trees):
                    stream = 'arcs' if i % 7 == 6 else ('nearid' if i % 7 == 3 else 'main')
                    tseed = '%s/%d' % (seed, i)
                    rng2 = common.mkrng(tseed, 'C17-tree')
                    root, ginfo = gen_tree_nearid(rng2) if stream == 'nearid' else gen_tree(rng2, stream)
                    todo.append((stream, tseed, root, ginfo, rng2))
            keycount = {}
            _viol = rep.violation
            def counted(what, rp, found_input=True, key=None):
                keycount[key] = keycount.get(key, 0) + 1
                return _viol(what, rp, found_input, key)
            rep.violation = counted
            trees, cases = [], []       # cases: (tree index, route, extra, coq obs term)
            dist = {'kinds': {}, 'titems': {}, 'depth': {}, 'streams': {}, 'rect_modes': {}, 'n_shapes': {}}
            nontrivial = 0
            for ti, (stream, tseed, root, ginfo, rng2) in enumerate(todo):
                svg = node_xml(rng2, root, root=True)
                fpath = os.path.join(scratch, 't%d.svg' % ti)
                with open(fpath, 'w') as f:
                    f.write(svg)
                o = observe(fpath, root)
                os.remove(fpath)
                tok_differs = impl_points(root)
                shapes = list(iter_shapes(root))
                tol = 1e-9 * scale_of(o, root)
                trees.append({'stream': stream, 'seed': tseed, 'root': root, 'svg': svg, 'obs': o, 'tol': tol,
                              'shapes': shapes, 'tok_differs': tok_differs})
                dist['streams'][stream] = dist['streams'].get(stream, 0) + 1
                dp = depth_of(root); dist['depth'][dp] = dist['depth'].get(dp, 0) + 1
                dist['n_shapes'][len(shapes)] = dist['n_shapes'].get(len(shapes), 0) + 1
                for s, M, chain in shapes:
                    dist['kinds'][s['kind']] = dist['kinds'].get(s['kind'], 0) + 1
                    if s['kind'] == 'rect':
                        m = s['attrs']['mode']; dist['rect_modes'][m] = dist['rect_modes'].get(m, 0) + 1
                for g, _ in iter_groups(root):
                    for t in g['tf']:
                        key = t[0] + (str(len(t[1])) if t[0] in ('translate', 'scale') else ('3' if t[0] == 'rotate' and t[2] else ''))
                        dist['titems'][key] = dist['titems'].get(key, 0) + 1
                for s, _, _ in shapes:
                    for t in s['tf']:
                        key = t[0] + (str(len(t[1])) if t[0] in ('translate', 'scale') else ('3' if t[0] == 'rotate' and t[2] else ''))
                        dist['titems'][key] = dist['titems'].get(key, 0) + 1
                if any(chain_transforms(ch) >= 2 for _, _, ch in shapes):
                    nontrivial += 1
                cases.append((ti, 'document', None, 'ODocument %s' % oq(o['document'], entries_coq, 'obs_entry')))
                for pos, r in o['groups']:
                    cases.append((ti, 'group', pos, 'OGroup %s %s' % (pos_coq(pos), oq(r, entries_coq, 'obs_entry'))))
                for pos, r in o['groups_nr']:
                    cases.append((ti, 'group-nr', pos, 'OGroupNR %s %s' % (pos_coq(pos), oq(r, entries_coq, 'obs_entry'))))
                cases.append((ti, 'svg2paths', None, 'OSvg2paths %s' % oq(o['svg2paths'], plain_coq, 'obs_plain')))
                cases.append((ti, 'sax', None, 'OSax %s %s' % (oq(o['sax_parse'], saxp_coq, '(nat * list qseg * option qmat)'),
                                                               oq(o['sax_flat'], plain_coq, 'obs_plain'))))
                cases.append((ti, 'saxmat', None, 'OSaxMat %s' % oq(o['sax_parse'], saxp_coq, '(nat * list qseg * option qmat)')))
            # shards: trees are defined once per shard
            per = 12
            texts, shard_cases = [], []
            for s0 in range(0, len(trees), per):
                idxs = list(range(s0, min(s0 + per, len(trees))))
                defs = ''.join('Definition tree_%d : qnode := %s.\n' % (ti, node_coq(trees[ti]['root'])) for ti in idxs)
                defs += ''.join('Definition itree_%d : qnode := %s.\n' % (ti, node_coq(trees[ti]['root'], impl=True))
                                for ti in idxs if trees[ti]['tok_differs'])
                mine = [c for c in cases if c[0] in set(idxs)]
                terms = ['(%s, tree_%d, %stree_%d, %s)' % (qc(Fraction(trees[c[0]]['tol'])), c[0],
                                                          'i' if trees[c[0]]['tok_differs'] else '', c[0], c[3]) for c in mine]
                texts.append(common.CASE_HEADER + OKDEF + defs +
                             'Definition the_cases : list casety :=\n [%s].\n' % ';\n  '.join(terms) +
                             'Eval vm_compute in (run_cases ok the_cases).\n')
                shard_cases.append(mine)
            res = common.run_case_files(texts, tmp, prefix='cases_c17', timeout=1500)
            n_eval = 0
            failing = []
            for k, (rc, out, dt) in enumerate(res):
                codes = common.parse_codes(out) if rc == 0 else None
                if codes is None:
                    rep.violation('correspondence case file failed to evaluate',
                                  {'kind': 'cases', 'error': 'shard %d rc=%s %s' % (k, rc, out[-1500:])},
                                  found_input=False, key='cases-error')
                    continue
                n_eval += len(shard_cases[k])
                for i, c in codes:
                    failing.append((shard_cases[k][i], c))
            # ---- decode
            for (ti, route, pos, _), code in failing:
                T = trees[ti]
                o, root = T['obs'], T['root']
                base = {'kind': 'correspondence', 'route': route, 'stream': T['stream'], 'tree_seed': T['seed'],
                        'svg': T['svg'], 'how': './check C17 --replay <this file>'}
                nonrec = route == 'group-nr'
                if nonrec:
                    route = 'group'
                if route in ('document', 'group', 'svg2paths', 'sax'):
                    tie_bits = code % 4
                    m = code // 4
                else:
                    tie_bits, m = 0, code // 4
                count_bad = False
                if route in ('document', 'group', 'svg2paths'):
                    tie = tie_bits & 1; count_bad = bool(tie_bits & 2)
                else:
                    tie = tie_bits      # sax: bit0 parse tie, bit1 flatten tie
                if route == 'group':
                    r = [x for p, x in (o['groups_nr'] if nonrec else o['groups']) if p == pos][0]
                    ref_shapes = shapes_under(root, pos)
                    if nonrec:       # the reference: only the shapes that are children of the group
                        tgt = root
                        for i in pos:
                            tgt = tgt['kids'][i]
                        direct = set(id(c) for c in tgt['kids'] if c['type'] == 'shape')
                        ref_shapes = [x for x in ref_shapes if id(x[0]) in direct]
                        base['recursive'] = False
                elif route == 'document':
                    r, ref_shapes = o['document'], T['shapes']
                elif route == 'svg2paths':
                    r, ref_shapes = o['svg2paths'], T['shapes']
                else:
                    r, ref_shapes = (o['sax_flat'] if route == 'sax' else o['sax_parse']), T['shapes']
                if route == 'group':
                    base['group_position'] = list(pos)
                if tie and route != 'saxmat':
                    # a failing input is at hand when the property itself fails on this tree
                    rep.violation('C17: the model of %s does not predict the implementation on this tree '
                                  '(code or model changed)' % route,
                                  dict(base, observed=str(r)[:1500], tie_bits=tie_bits),
                                  found_input=bool(m or count_bad or 'exc' in r), key='tie-%s' % route)
                empty_target = False
                if route == 'group':
                    n = root
                    for i in pos:
                        n = n['kids'][i]
                    empty_target = not n['kids']
                if empty_target and ('exc' in r or count_bad):
                    rep.violation('C17: paths_from_group(element) for a group without children returns the paths of the '
                                  'whole document (or raises on them) instead of []',
                                  dict(base, observed=str(r)[:800]),
                                  key='paths-from-group-empty-element-returns-whole-document')
                    continue
                if 'exc' in r:
                    rr = r
                    if route in ('sax', 'saxmat') and 'exc' in o['sax_parse']:
                        rr = o['sax_parse']
                    key = classify_exc('sax' if route.startswith('sax') else route, rr, root, ref_shapes)
                    rep.violation('C17: %s raises %s on a legal SVG tree: %s' % (route, rr['exc'], rr['msg'][:120]),
                                  dict(base, exception=rr['exc'], message=rr['msg'], traceback=rr.get('tb', '')), key=key)
                    continue
                bad_any = False
                for j, (s, M, chain) in enumerate(ref_shapes):
                    if (m >> j) & 1:
                        bad_any = True
                        what = 'matrix' if route == 'saxmat' else 'geometry'
                        key = classify_elem('sax' if route.startswith('sax') else route, s, M, chain, what)
                        got = [e for e in r['ok'] if e[0] == s['id']]
                        rep.violation('C17: %s does not return element e%d (%s) with the %s the SVG specification gives it'
                                      % (route, s['id'], s['kind'], what),
                                      dict(base, element='e%d' % s['id'], element_kind=s['kind'],
                                           element_attrs={k: v for k, v in s['attrs'].items()},
                                           reference_ctm=M, got=str(got)[:1200]), key=key)
                if count_bad and not bad_any:
                    rep.violation('C17: %s returns a different number of paths than the document has elements' % route,
                                  dict(base, observed=str(r)[:1500]), key='count-mismatch-%s' % route)
            # arcs under transforms when the implementation does not raise: sample check (python, impl level)
            n_arc_checked = 0
            for T in trees:
                for route, r, sees in (('document', T['obs']['document'], FL.get('rect_attr')),
                                       ('sax', T['obs']['sax_flat'] if FL.get('sax_keep') else {}, True)):
                    if 'ok' not in r:
                        continue
                    bad, judged = arc_pointwise_check(r['ok'], T['shapes'], sees)
                    n_arc_checked += judged
                    if bad:
                        rep.violation('C17: %s: a transformed elliptical arc is not the image of the element\'s arc '
                                      '(elements %s)' % (route, bad),
                                      {'kind': 'impl-predicate', 'route': route, 'tree_seed': T['seed'], 'stream': T['stream'],
                                       'svg': T['svg'], 'elements': bad}, key='arc-transform-wrong-geometry')
            edge_probes(rep, scratch)
            rep.cov['evaluations'] = n_eval
            rep.cov['traces_validated_against_impl'] = len(trees)
            rep.cov['distinct_nontrivial'] = nontrivial
            rep.cov['rule'] = ('random trees (depth<=5, <=12 shapes, 0-3 transform items per node from all six kinds with all '
                               'legal argument counts); each tree is checked on 4 routes (Document.paths, paths_from_group for '
                               'every group, svg2paths, SaxDocument parse+flatten+matrices) = one Coq case per (tree, route); '
                               'non-trivial = some shape has >= 2 elements with a transform on its ancestor chain')
            rep.cov['input_distribution'] = dist
            rep.cov['arcs_under_transform_judged_pointwise'] = n_arc_checked
            rep.cov['violation_classes'] = keycount
            rep.violation = _viol
            rep.cov['samples'] = [{'stream': T['stream'], 'svg': T['svg'][:600],
                                   'document': str(T['obs']['document'])[:300]} for T in trees[:3]]
    finally:
        shutil.rmtree(scratch, ignore_errors=True)
    rep.assumptions += ['XML parsing (ElementTree, minidom), str.split tokenisation of the transform attribute and the '
                        'COORD_PAIR_TMPLT regular expression are oracles covered by the correspondence only',
                        'trigonometry of an angle is data for the model (exact rationals for rational cos/sin, libm values otherwise)',
                        'rounding bound 1e-9 * max(1, |coordinates|, |matrix entries|)',
                        'the d attribute of a path element enters the model already parsed (property C02)',
                        'the image of an elliptical arc under a matrix is property C10; here only that transform() returns or raises']


def edge_probes(rep, scratch):
    """fixed inputs for behaviours outside the tree model: SaxDocument builds the geometry of a shape
    from the values inherited from its ancestors (the svg root's width/height become a rect's)"""
    from svgpathtools import SaxDocument, parse_path
    p = os.path.join(scratch, 'inherit.svg')
    with open(p, 'w') as f:
        f.write('<svg xmlns="http://www.w3.org/2000/svg" width="100" height="50" x="7">'
                '<g id="G"><rect id="q" y="1"/><circle id="c" r="2"/></g></svg>')
    def probe():
        t = SaxDocument(p).tree
        return [(v.get('id'), v['d'], [complex(z) for z in parse_path(v['d']).bbox()] if v['d'] else None) for v in t]
    r = guarded(probe)
    os.remove(p)
    if 'ok' in r:
        rect = [x for x in r['ok'] if x[0] == 'q']
        # <rect y="1"/> has no width/height/x: an empty rectangle at (0, 1)
        if rect and rect[0][2] is not None and (rect[0][2][1] - rect[0][2][0] != 0 or rect[0][2][0] != 0):
            rep.violation('C17: SaxDocument builds a shape from the attributes of its ancestors (x/width/height of the '
                          'svg root become the rect\'s): %r' % (rect[0][1],),
                          {'kind': 'edge-probe', 'observed': str(r['ok'])}, key='sax-inherits-ancestor-attributes')
