"""C06 — length() is the true arc length: bracketed, additive, finite,
scipy-independent.  Theorems: coq/Props/C06.v.

Ties
  * translator: Line.length (GenLength + GenAgree/Length.v); QuadraticBezier.length
    is outside the subset (dict attribute, isnan) -> correspondence only.
  * bracket oracle INSIDE Coq (120-bit bigfloats, Base/BigF.v), from the model's own
    definitions: Beziers  bez_bracket k (bez_crop pts t0 t1)  (theorems
    C06_bracket_quad / C06_bracket_cubic), arcs  part_bracket_v (arc_sample ...)
    over a partition chosen by the harness (theorem C06_bracket_arc_samples; ANY
    sorted partition is sound, so the partition is untrusted input).  Both
    configurations (_quad_available True / False) must lie in
    [lo (1 - tol), hi (1 + tol)],  tol = 1e-6, or 5e-3 where the speed vanishes.
  * closed-form models in Coq: line_length, quad_length (closed form / fallbacks /
    small-a branch) evaluated in bigfloats against the implementation.
  * recursive chord rule: seg_length_noquad (fuelled model) against the
    implementation in the no-scipy configuration.
  * implementation-level predicate: finite, >= 0, additive, t0 = t1 -> 0,
    agreement with an independent composite Gauss-Legendre quadrature, path sum.
"""
import math, warnings, signal, json, time, heapq
from fractions import Fraction
import common
from common import bf, cbf, coq_list

GEN_GROUPS = ['GenLength']
AGREE = ['Length.v']

TOL = 1e-6
TOL_VANISH = 5e-3


# ------------------------------------------------------------------ helpers
class Timeout(Exception):
    pass


def _alarm(sig, frm):
    raise Timeout()


def guarded(fn, secs=20, _retry=True):
    """fn() under a wall-clock guard.  A wall-clock limit on a shared machine is not evidence: a
    timed-out call is run once more with six times the limit before Timeout is reported (every fn
    passed here builds fresh objects)."""
    old = signal.signal(signal.SIGALRM, _alarm)
    signal.alarm(secs)
    try:
        return fn()
    except Timeout:
        if not _retry:
            raise
    finally:
        signal.alarm(0)
        signal.signal(signal.SIGALRM, old)
    return guarded(fn, 6 * secs, _retry=False)


def rnd_c(rng, sc):
    return complex(rng.uniform(-sc, sc), rng.uniform(-sc, sc))


def mk_seg(kind, params):
    from svgpathtools import Line, QuadraticBezier, CubicBezier, Arc
    if kind == 'line':
        return Line(*params)
    if kind == 'quad':
        return QuadraticBezier(*params)
    if kind == 'cubic':
        return CubicBezier(*params)
    s, r, rot, la, sw, e = params
    return Arc(s, r, rot, la, sw, e)


def detect_variant():
    """which QuadraticBezier.length is installed?  Probes (not judged cases):
       nl  — branch `elif abs(a) < 1e-6*abs(b)` present (repair C06-quad-length-near-linear);
       fin — a non-finite closed form goes to the fallback formulas (repair
             C06-quad-length-collinear-nonfinite)."""
    from svgpathtools import QuadraticBezier
    with warnings.catch_warnings():
        warnings.simplefilter('ignore')
        nl = abs(float(QuadraticBezier(0, 0.5 + 1e-12j, 1).length()) - 1.0) < 1e-9
        fin = math.isfinite(float(QuadraticBezier(-26.68086654907189 + 49.97466819715139j,
                                                  -29.9040926430843 + 46.96613742520217j,
                                                  -26.68086654907189 + 49.97466819715139j).length()))
    return nl, fin


REQUIRED = {'nl': ['C06_quad_near_linear'], 'fin': ['C06_quad_collinear'],
            'always': ['C06_line', 'C06_nonneg', 'C06_additive', 'C06_chord_le', 'C06_segment_length_le',
                       'C06_ctrl_polygon_ge', 'C06_bracket_cubic', 'C06_bracket_quad', 'C06_bracket_arc_samples',
                       'C06_quad_closed_form', 'C06_quad_collinear', 'C06_quad_small_a', 'C06_path_sum']}


# ---------------------------------------------------------------- generator
def gen_segment(rng):
    """returns (kind, params, subkind, special_ts) — special_ts: parameters where
    the speed vanishes (used to place sub-intervals inside / outside)"""
    r = rng.random()
    sc = 10 ** rng.uniform(-1, 2.5)
    r0 = rng.random()
    if r0 < 0.07:
        # nearly circular ellipse: |rx - ry|/rx from 1e-7 to 1e-4 (must NOT be measured as a circle:
        # the statement's tolerance is 1e-6 relative)
        rx = 10 ** rng.uniform(0, 2.3)
        ry = rx * (1 + rng.choice([-1, 1]) * 10 ** rng.uniform(-7, -4))
        st = rnd_c(rng, sc)
        e = st + rnd_c(rng, 1) * rx * rng.choice([0.5, 1.2, 1.9])
        return 'arc', [st, complex(rx, ry), float(rng.choice([0, 30, 90, rng.uniform(-180, 180)])),
                       rng.random() < 0.5, rng.random() < 0.5, e if e != st else st + rx], 'near-circular', []
    if r0 < 0.14:
        # tiny user units: coordinates / radii 1e-9 .. 1e-6, arbitrary eccentricity (<= 100)
        S = 10 ** rng.uniform(-9, -6)
        if rng.random() < 0.8:
            rx = S * rng.uniform(1, 10)
            ratio = rng.choice([1, rng.uniform(1, 3), rng.uniform(3, 30), rng.uniform(30, 100)])
            ry = rx / ratio if rng.random() < 0.5 else rx * ratio
            st = rnd_c(rng, S * 10)
            e = st + rnd_c(rng, 1) * min(rx, ry) * rng.choice([0.3, 1.0, 1.7])
            return 'arc', [st, complex(rx, ry), float(rng.choice([0, 45, 90, rng.uniform(-180, 180)])),
                           rng.random() < 0.5, rng.random() < 0.5, e if e != st else st + rx], 'tiny-units', []
        return 'cubic', [rnd_c(rng, S * 10) for _ in range(4)], 'tiny-units', []
    if r0 < 0.22:
        # gently bowed quadratic: |start - 2 control + end| / |2 (control - start)| log-uniform in [1e-7, 1e-1]
        # (both sides of the code's own "nearly straight" threshold), judged at the statement's 1e-6
        p, q = rnd_c(rng, sc), rnd_c(rng, sc)
        if p == q:
            q = p + 1
        ratio = 10 ** rng.uniform(-7, -1)
        d = (q - p) / abs(q - p)
        off = ratio * abs(q - p) / 2 * d * complex(math.cos(rng.uniform(0, 6.3)), math.sin(rng.uniform(0, 6.3))) \
            if rng.random() < 0.3 else ratio * abs(q - p) / 2 * d * 1j * rng.choice([-1, 1])
        return 'quad', [p, (p + q) / 2 + off, q], 'bowed', []
    if r0 < 0.28:
        # cubic whose midpoint B(1/2) (lam = 1/2: point-symmetric S) or whose point B(1/2) lies ON the chord at
        # lam = 1/4, 3/4; integer coordinates, so that the chord rule's first test length2 - length is exactly 0:
        # only the `depth < min_depth` clause makes segment_length subdivide
        g = rng.choice([1, 1, 3, 0.5])
        P0 = complex(3 * rng.randint(-20, 20), 3 * rng.randint(-20, 20)) * g
        P3 = P0 + complex(3 * rng.randint(4, 40), 3 * rng.randint(-20, 20)) * g
        P1 = P0 + complex(rng.randint(-40, 60), rng.randint(20, 130) * rng.choice([-1, 1])) * g
        lam = rng.choice([2, 2, 2, 1, 3])          # quarters
        P2 = {2: P0 + P3, 1: (5 * P0 + P3) / 3, 3: (P0 + 5 * P3) / 3}[lam] - P1
        return 'cubic', [P0, P1, P2, P3], 'midpoint-on-chord', []
    if r0 < 0.33:
        # closed loops: curved segments that return to their start
        a_ = rnd_c(rng, sc)
        if rng.random() < 0.5:
            return 'cubic', [a_, a_ + rnd_c(rng, sc), a_ + rnd_c(rng, sc), a_], 'loop', []
        return 'quad', [a_, a_ + rnd_c(rng, sc), a_], 'repeated:s=e', [0.5]
    if r < 0.08:
        return 'line', [rnd_c(rng, sc), rnd_c(rng, sc)], 'generic', []
    if r < 0.40:
        sub = rng.choice(['generic', 'generic', 'collinear-nofold', 'collinear-fold', 'collinear-fold',
                          'collinear-int-fold', 'repeated', 'near-collinear', 'tiny-a'])
        a, d = rnd_c(rng, sc), rnd_c(rng, sc / 3)
        if sub == 'generic':
            return 'quad', [rnd_c(rng, sc) for _ in range(3)], sub, []
        if sub == 'collinear-nofold':
            k1 = rng.uniform(0.1, 2); k2 = k1 + rng.uniform(0.1, 2)
            return 'quad', [a, a + d * k1, a + d * k2], sub, []
        if sub == 'collinear-fold':
            k1 = rng.uniform(0.5, 3); k2 = rng.uniform(-1, k1 - 0.1)
            ts = k1 / (2 * k1 - k2)
            return 'quad', [a, a + d * k1, a + d * k2], sub, [ts]
        if sub == 'collinear-int-fold':
            p0 = complex(rng.randint(-9, 9), rng.randint(-9, 9))
            dd = complex(rng.randint(-4, 4), rng.randint(-4, 4)) or complex(1, 2)
            k1 = rng.randint(2, 6); k2 = rng.randint(-3, k1 - 1)
            return 'quad', [p0, p0 + dd * k1, p0 + dd * k2], sub, [k1 / (2 * k1 - k2)]
        if sub == 'repeated':
            p, q = rnd_c(rng, sc), rnd_c(rng, sc)
            m = rng.choice(['s=c', 'c=e', 's=e', 'all'])
            pts = {'s=c': [p, p, q], 'c=e': [p, q, q], 's=e': [p, q, p], 'all': [p, p, p]}[m]
            return 'quad', pts, sub + ':' + m, ([0.0] if m == 's=c' else [1.0] if m == 'c=e' else [0.5] if m == 's=e' else [0.0, 0.5, 1.0])
        if sub == 'near-collinear':
            k1 = rng.uniform(0.5, 3); k2 = rng.uniform(-1, 4)
            eps = 10 ** rng.uniform(-14, -4)
            return 'quad', [a, a + d * k1 + 1j * d * eps, a + d * k2], sub, []
        p, q = rnd_c(rng, sc), rnd_c(rng, sc)            # tiny-a: control = midpoint (+ tiny)
        off = rng.choice([0, 1e-14, 3e-13, 1e-11, 1e-9 * abs(q - p), 3e-8 * abs(q - p), 1e-6 * abs(q - p)])
        return 'quad', [p, (p + q) / 2 + off, q], sub, []
    if r < 0.75:
        sub = rng.choice(['generic', 'generic', 'generic', 'collinear-nofold', 'collinear-fold', 'repeated', 'cusp'])
        a, d = rnd_c(rng, sc), rnd_c(rng, sc / 3)
        if sub == 'generic':
            return 'cubic', [rnd_c(rng, sc) for _ in range(4)], sub, []
        if sub == 'collinear-nofold':
            ks = sorted(rng.uniform(0, 3) for _ in range(3))
            return 'cubic', [a] + [a + d * k for k in ks], sub, []
        if sub == 'collinear-fold':
            ks = [rng.uniform(-2, 3) for _ in range(3)]
            # zeros of the 1-D derivative
            D = [ks[0], ks[1] - ks[0], ks[2] - ks[1]]
            import numpy as np
            co = [D[0] - 2 * D[1] + D[2], 2 * (D[1] - D[0]), D[0]]
            zs = [float(z.real) for z in np.roots(co) if abs(z.imag) < 1e-12 and 0 <= z.real <= 1] if abs(co[0]) > 1e-12 else []
            return 'cubic', [a] + [a + d * k for k in ks], sub, zs
        if sub == 'repeated':
            p, q, w = rnd_c(rng, sc), rnd_c(rng, sc), rnd_c(rng, sc)
            m = rng.choice(['c1=s', 'c2=e', 'c1=c2', 's=c1=c2', 'c1=c2=e', 'both-ends', 'all', 's=e'])
            pts = {'c1=s': [p, p, q, w], 'c2=e': [p, q, w, w], 'c1=c2': [p, q, q, w], 's=c1=c2': [p, p, p, q],
                   'c1=c2=e': [p, q, q, q], 'both-ends': [p, p, q, q], 'all': [p, p, p, p], 's=e': [p, q, w, p]}[m]
            zs = {'c1=s': [0.0], 'c2=e': [1.0], 's=c1=c2': [0.0], 'c1=c2=e': [1.0], 'both-ends': [0.0, 1.0],
                  'all': [0.0, 0.5, 1.0]}.get(m, [])
            return 'cubic', pts, sub + ':' + m, zs
        ts = rng.choice([0.5, 0.5, rng.uniform(0.15, 0.85)])   # cusp at ts
        D0, D2 = rnd_c(rng, sc), rnd_c(rng, sc)
        D1 = -((1 - ts) ** 2 * D0 + ts ** 2 * D2) / (2 * (1 - ts) * ts)
        return 'cubic', [a, a + D0, a + D0 + D1, a + D0 + D1 + D2], sub, [ts]
    # arcs: eccentricity (axis ratio) <= 100, every rotation class, all flags
    rx = 10 ** rng.uniform(-1, 2)
    ratio = rng.choice([1, 1, rng.uniform(1, 3), rng.uniform(3, 30), rng.uniform(30, 100), 100])
    ry = rx / ratio if rng.random() < 0.5 else rx * ratio
    rot = rng.choice([0, 0, 90, 180, 270, 45, 30, -60, 377, -400, rng.uniform(-360, 360)])
    la, sw = rng.random() < 0.5, rng.random() < 0.5
    s = rnd_c(rng, sc)
    reach = rng.choice([0.3, 1.0, 1.7, 2.5])               # > 2: radii get auto-scaled
    e = s + rnd_c(rng, 1) * min(rx, ry) * reach
    if e == s:
        e = s + 1
    return 'arc', [s, complex(rx, ry), float(rot), la, sw, e], 'ratio<=%d' % (1 if ratio == 1 else 3 if ratio <= 3 else 30 if ratio <= 30 else 100), []


def collinear_corpus(seed, nrandom):
    """EXACTLY collinear quadratics (integer / dyadic control points, so that
    a.real*b.imag == a.imag*b.real holds in binary64): control between start and midpoint,
    between midpoint and end, == start, == end, beyond the ends (fold-back); axis-parallel and oblique;
    scaled by powers of two; full interval and sub-intervals.  Deterministic part first, then nrandom
    random ones from an OWN rng stream (the main stream is not touched).  The speed of such a curve is
    not constant: on a sub-interval the length is NOT |end - start| (t1 - t0)."""
    rng = common.mkrng(seed, 'C06-collinear')
    ks = [(1, 4), (3, 4), (0, 1), (1, 1), (0, 4), (4, 4), (1, 8), (7, 8),      # no turning point
          (5, 4), (-1, 4), (3, 1), (2, 0), (-2, -1)]                          # fold-back
    out = []

    def add(p0, d, k1, k2, scale):
        pts = [p0 * scale, (p0 + d * k1) * scale, (p0 + d * k2) * scale]
        if pts[0] == pts[1] == pts[2]:
            return
        D0, D1 = k1, k2 - k1                       # 1-D derivative (1-t) D0 + t D1 (times 2 d)
        fold = D0 * D1 < 0
        zs = [D0 / (D0 - D1)] if fold else ([0.0] if D0 == 0 else [1.0] if D1 == 0 else [])
        out.append(('quad', pts, 'collinear-exact-fold' if fold else 'collinear-exact', zs))
    for i, (k1, k2) in enumerate(ks):
        d = [1 + 0j, 1j, 1 + 1j, 2 + 1j, -3 + 2j][i % 5]
        p0 = [0j, 0j, 1 + 1j, 2j, -5 + 3j][i % 5]
        add(p0, d, k1, k2, [1.0, 1.0, 2.0 ** -10, 2.0 ** 7, 0.5][i % 5] if i >= 5 else 1.0)
    add(0j, 1 + 0j, 1, 4, 1.0); add(0j, 1 + 0j, 0, 1, 1.0); add(1 + 1j, 1 + 1j, 1, 4, 1.0); add(2j, 2 + 1j, 1, 4, 1.0)   # seeded/C06_1/demo
    fixed = len(out)
    while len(out) < fixed + nrandom:
        d = complex(rng.randint(-6, 6), rng.randint(-6, 6))
        if d == 0:
            continue
        add(complex(rng.randint(-9, 9), rng.randint(-9, 9)), d, rng.randint(-8, 16) / rng.choice([1, 2, 4]),
            rng.randint(-8, 16) / rng.choice([1, 2, 4]), 2.0 ** rng.randint(-12, 8))
    todo = []
    for j, (kind, pts, sub, zs) in enumerate(out):
        ivs = [(0.0, 1.0), (0.0, 0.3), (0.3, 0.9), (0.1, 0.2)] if j < fixed else \
              [(0.0, 1.0), tuple(sorted((rng.uniform(0, 1), rng.uniform(0, 1))))]
        todo.append((kind, pts, sub, ivs))
    return todo


def gen_intervals(rng, special):
    iv = [(0.0, 1.0)]
    inside = [z for z in special if 0 < z < 1]
    if inside:
        z = inside[0]
        iv.append((rng.uniform(0, z), rng.uniform(z, 1)))                    # zero of the speed inside
        iv.append(rng.choice([(rng.uniform(0, z * 0.5), z * rng.uniform(0.5, 0.98)),   # outside, below
                              (z + (1 - z) * rng.uniform(0.02, 0.5), rng.uniform(z + (1 - z) * 0.5, 1))]))
        return iv
    opts = ['rand', 'rand', 'eq', 'dyadic', 'from0', 'to1']
    for o in rng.sample(opts, 2):
        if o == 'rand':
            a = rng.uniform(0, 1); iv.append((a, rng.uniform(a, 1)))
        elif o == 'eq':
            a = rng.choice([0.0, 1.0, 0.5, rng.uniform(0, 1)]); iv.append((a, a))
        elif o == 'dyadic':
            iv.append(rng.choice([(0.25, 0.75), (0.5, 1.0), (0.125, 0.5), (0.0, 0.5)]))
        elif o == 'from0':
            iv.append((0.0, rng.uniform(0, 1)))
        else:
            iv.append((rng.uniform(0, 1), 1.0))
    return iv


# ----------------------------------------------- float-side helpers (untrusted)
def speed_fn(kind, seg):
    return lambda t: abs(seg.derivative(t))


def gl_quad(f, a, b, breaks=(), panels=256):
    """independent composite Gauss-Legendre quadrature; returns (value, error estimate)"""
    import numpy as np
    xs, ws = np.polynomial.legendre.leggauss(16)

    def run(n):
        pts = sorted(set([a, b] + [z for z in breaks if a < z < b]))
        tot = 0.0
        for u, v in zip(pts, pts[1:]):
            m = max(1, int(round(n * (v - u) / max(b - a, 1e-300))))
            h = (v - u) / m
            for i in range(m):
                lo = u + i * h
                tot += sum(w * f(lo + (x + 1) * h / 2) for x, w in zip(xs, ws)) * h / 2
        return tot
    if a == b:
        return 0.0, 0.0
    q1, q2 = run(panels // 2), run(panels)
    return q2, abs(q2 - q1)


def min_speed(f, a, b):
    n = 400
    vals = [(f(a + (b - a) * i / n), a + (b - a) * i / n) for i in range(n + 1)]
    v, t = min(vals)
    h = (b - a) / n
    lo, hi = max(a, t - h), min(b, t + h)
    for _ in range(60):                      # golden-section refinement
        m1, m2 = lo + 0.382 * (hi - lo), lo + 0.618 * (hi - lo)
        if f(m1) < f(m2):
            hi = m2
        else:
            lo = m1
    tt = (lo + hi) / 2
    return min(v, f(tt)), (tt if f(tt) < v else t), max(x for x, _ in vals)


def choose_k(pts, t0, t1, target, kmax):
    """smallest subdivision depth whose float-estimated bracket is tighter than target (relative)"""
    from svgpathtools.bezier import split_bezier
    if t1 <= 0:
        return 0
    p = list(split_bezier(list(pts), t1)[0])
    if t0 > 0:
        p = list(split_bezier(p, t0 / t1)[1])
    pieces = [p]
    for k in range(0, kmax + 1):
        lo = sum(abs(q[-1] - q[0]) for q in pieces)
        hi = sum(sum(abs(q[i + 1] - q[i]) for i in range(len(q) - 1)) for q in pieces)
        if hi - lo <= target * max(lo, 1e-300) or k == kmax:
            return k
        nxt = []
        for q in pieces:
            l, r = split_bezier(q, 0.5)
            nxt += [list(l), list(r)]
        pieces = nxt
    return kmax


def arc_partition(arc, t0, t1, target, nmax):
    """greedy partition of [t0,t1]: repeatedly halve the cell with the largest
    (Cauchy-Schwarz upper - chord) until the float-estimated relative width is below
    target or nmax cells.  Untrusted: any sorted partition gives a valid bracket."""
    rx, ry = arc.radius.real, arc.radius.imag
    k = math.radians(arc.delta)
    rho = arc.rot_matrix.real ** 2 + arc.rot_matrix.imag ** 2

    def G(t):
        an = math.radians(arc.theta + t * arc.delta)
        return k * k * rho * (rx * rx + ry * ry) / 2 * t + k * rho * (ry * ry - rx * rx) / 4 * math.sin(2 * an)

    def cell(a, b):
        ch = abs(arc.point(b) - arc.point(a))
        up = math.sqrt(max(0.0, (b - a) * (G(b) - G(a))))
        return (-(up - ch), a, b, ch, up)
    n0 = 16
    heap = [cell(t0 + (t1 - t0) * i / n0, t0 + (t1 - t0) * (i + 1) / n0) for i in range(n0)]
    heapq.heapify(heap)
    lo = sum(c[3] for c in heap); hi = sum(c[4] for c in heap)
    while len(heap) < nmax and hi - lo > target * max(lo, 1e-300):
        w, a, b, ch, up = heapq.heappop(heap)
        m = (a + b) / 2
        c1, c2 = cell(a, m), cell(m, b)
        lo += c1[3] + c2[3] - ch; hi += c1[4] + c2[4] - up
        heapq.heappush(heap, c1); heapq.heappush(heap, c2)
    cells = sorted(heap, key=lambda c: c[1])
    pts = [c[2] for c in cells]
    pts[-1] = t1
    return pts, (hi - lo) / max(lo, 1e-300)


# ------------------------------------------------------------ Coq case files
OKDEF_BEZ = r'''
From SVP Require Import Model.Bezier Model.Length.
Definition N := NumB. Definition T := NumTB.
Definition badd := add N. Definition bsub := sub N. Definition bmul := mul N.
Definition b1 : bf := bf_of 1 0.
(* (control points, t0, t1, depth k, relative tol, absolute slack, observations) *)
Definition casety : Type := (list (Cplx bf) * bf * bf * nat * bf * bf * list bf)%type.
Definition inb (lo hi v : bf) : bool := bf_leb lo v && bf_leb v hi.
Definition ok (c : casety) : nat :=
  let '(p, t0, t1, k, tolr, slack, obs) := c in
  let b := bez_bracket N T k (bez_crop N p t0 t1) in
  let lo := bsub (bmul (fst b) (bsub b1 tolr)) slack in
  let hi := badd (bmul (snd b) (badd b1 tolr)) slack in
  first_fail
   [ (bf_leb (fst b) (badd (snd b) slack), 9);        (* sanity: bracket is ordered *)
     (forallb (bf_leb lo) obs, 1);                    (* implementation >= chord sum *)
     (forallb (fun v => bf_leb v hi) obs, 2) ].       (* implementation <= control-polygon sum *)
'''

OKDEF_ARC = r'''
From SVP Require Import Model.Bezier Model.Length.
Definition N := NumB. Definition T := NumTB.
Definition badd := add N. Definition bsub := sub N. Definition bmul := mul N.
Definition b1 : bf := bf_of 1 0.
(* (rx, ry, cosphi, sinphi, center, theta, delta, t0, partition, tolr, slack, observations) *)
Definition casety : Type :=
  (bf * bf * bf * bf * Cplx bf * bf * bf * bf * list bf * bf * bf * list bf)%type.
Definition ok (c : casety) : nat :=
  let '(rx, ry, cph, sph, ctr, th, de, t0, ps, tolr, slack, obs) := c in
  let ev := arc_sample N T rx ry cph sph ctr th de in
  let b := part_bracket_v N T (ev t0) (map ev ps) in
  let lo := bsub (bmul (fst b) (bsub b1 tolr)) slack in
  let hi := badd (bmul (snd b) (badd b1 tolr)) slack in
  first_fail
   [ (sorted_b N t0 ps, 8);                           (* the partition is sorted *)
     (bf_leb (fst b) (badd (snd b) slack), 9);
     (forallb (bf_leb lo) obs, 1);
     (forallb (fun v => bf_leb v hi) obs, 2) ].
'''

OKDEF_CLOSED = r'''
From SVP Require Import Model.Bezier Model.Length.
Definition N := NumB. Definition T := NumTB.
Definition isnan (x : bf) : bool := negb (F.real x).
(* is the nearly straight branch installed (detected by the harness's probe)? *)
Definition NL : bool := @NL@.
(* (kind 0 = line / 1 = quad, control points, t0, t1, tolerance, observation) *)
Definition casety : Type := (nat * list (Cplx bf) * bf * bf * bf * bf)%type.
Definition model (kind : nat) (p : list (Cplx bf)) (t0 t1 : bf) : bf :=
  match kind, p with
  | 0, [s; e] => line_length N T s e t0 t1
  | 1, [s; c; e] => quad_length N T NL isnan s c e t0 t1
  | _, _ => F.nan
  end.
Definition ok (c : casety) : nat :=
  let '(kind, p, t0, t1, tol, obs) := c in
  first_fail [ (bclose tol (model kind p t0 t1) obs, 3) ].
'''

OKDEF_SEGLEN = r'''
From SVP Require Import Model.Bezier Model.Length.
Definition N := NumB. Definition T := NumTB.
(* (kind 0 = cubic / 1 = arc, numbers, t0, t1, error, min_depth, tolerance, observation)
   cubic numbers: 4 control points as 8 reals; arc: rx ry cosphi sinphi cx cy theta delta *)
Definition casety : Type := (nat * list bf * bf * bf * bf * nat * bf * bf)%type.
Definition pointfn (kind : nat) (v : list bf) : bf -> Cplx bf :=
  match kind, v with
  | 0, [a; b; c; d; e; f; g; h] => cubic_point N (a, b) (c, d) (e, f) (g, h)
  | 1, [rx; ry; cph; sph; cx; cy; th; de] => arc_pt N T rx ry cph sph (cx, cy) th de
  | _, _ => fun _ => (F.nan, F.nan)
  end.
Definition ok (c : casety) : nat :=
  let '(kind, v, t0, t1, err, md, tol, obs) := c in
  match seg_length_noquad N T (pointfn kind v) err md 200 t0 t1 with
  | Some m => first_fail [ (bclose tol m obs, 4) ]
  | None => 5
  end.
'''

OKDEF_PATH = r'''
From SVP Require Import Model.Bezier Model.Length.
Definition N := NumB.
(* Path.length(): (segment lengths, tolerance, observed total) *)
Definition casety : Type := (list bf * bf * bf)%type.
Definition ok (c : casety) : nat :=
  let '(lens, tol, obs) := c in
  first_fail [ (bclose tol (path_length_full N lens) obs, 6) ].
'''

OKDEF_PATHSUB = r'''
From SVP Require Import Model.Bezier Model.Length.
Definition N := NumB.
(* Path.length(T0,T1): the pieces observed on the implementation
   (i0, t0, i1, t1, nseg, first piece, full middle pieces, last piece, same-segment piece,
    single-segment piece, tol, obs) *)
Definition casety : Type := (nat * bf * nat * bf * nat * bf * list bf * bf * bf * bf * bf * bf)%type.
Definition ok (c : casety) : nat :=
  let '(i0, t0, i1, t1, nseg, first, mids, lst, same, single, tol, obs) := c in
  let seglen (i : nat) (a b : bf) : bf :=
    if Nat.eqb nseg 1 then single
    else if Nat.eqb i0 i1 then same
    else if Nat.eqb i i0 then first else if Nat.eqb i i1 then lst
    else nth (i - S i0) mids F.nan in
  first_fail [ (bclose tol (path_length_sub N seglen nseg t0 t1 i0 t0 i1 t1) obs, 7) ].
'''

CODE_NAMES = {1: 'below the chord-sum bound', 2: 'above the control-polygon / Cauchy-Schwarz bound',
              3: 'differs from the closed-form model', 4: 'differs from the recursive chord-rule model',
              5: 'chord-rule model ran out of fuel', 6: 'Path.length() is not the sum of the segment lengths',
              7: 'Path.length(T0,T1) is not the sum of its pieces', 8: 'harness partition not sorted',
              9: 'bracket not ordered (machinery)'}


# ------------------------------------------------------------- observation
def observe_lengths(kind, params, t0, t1):
    """length(t0,t1) under both configurations, on fresh objects; plus the
    additivity pieces.  Returns dict cfg -> dict."""
    import svgpathtools.path as P
    out = {}
    tm = t0 + (t1 - t0) * 0.4375
    for cfg in (True, False):
        P._quad_available = cfg
        try:
            def run():
                L = mk_seg(kind, params).length(t0, t1)
                A = mk_seg(kind, params).length(t0, tm)
                B = mk_seg(kind, params).length(tm, t1)
                return float(L), float(A), float(B)
            L, A, B = guarded(run, 30)
            out[cfg] = {'L': L, 'A': A, 'B': B, 'tm': tm}
        except Timeout:
            out[cfg] = {'timeout': True}
        except Exception as e:            # noqa
            out[cfg] = {'error': '%s: %s' % (type(e).__name__, e)}
        finally:
            P._quad_available = True
    return out


def replay_of(kind, params, sub, t0, t1, extra=None):
    if kind == 'arc':
        s, r, rot, la, sw, e = params
        pj = {'start': common.chex(s), 'radius': common.chex(r), 'rotation': common.fhex(rot),
              'large_arc': bool(la), 'sweep': bool(sw), 'end': common.chex(e)}
    else:
        pj = {'points': [common.chex(p) for p in params]}
    d = {'kind': 'length', 'segment': kind, 'subkind': sub, 'params': pj, 't0': common.fhex(t0), 't1': common.fhex(t1),
         'repr': repr(mk_seg(kind, params)), 'how': './check C06 --replay <this file>'}
    if extra:
        d.update(extra)
    return d


def params_from_replay(r):
    kind = r['segment']
    pj = r['params']
    cx = lambda ab: complex(float.fromhex(ab[0]), float.fromhex(ab[1]))
    if kind == 'arc':
        params = [cx(pj['start']), cx(pj['radius']), float.fromhex(pj['rotation']), pj['large_arc'], pj['sweep'], cx(pj['end'])]
    else:
        params = [cx(p) for p in pj['points']]
    return kind, params, r.get('subkind', 'replay'), float.fromhex(r['t0']), float.fromhex(r['t1'])


def near_linear(kind, params):
    """quadratic whose second difference a = s - 2c + e is tiny (but not below the
    code's 1e-12 threshold) relative to b = 2(c - s): the closed form cancels"""
    if kind != 'quad':
        return False
    s_, c_, e_ = params
    a = s_ - 2 * c_ + e_
    b = 2 * (c_ - s_)
    return 1e-12 <= abs(a) < 1e-5 * abs(b)


def fail_key(kind, sub, what, cfg=None, params=None):
    base = {'line': 'line', 'quad': 'quad', 'cubic': 'cubic', 'arc': 'arc'}[kind]
    if params is not None and near_linear(kind, params) and what in (
            'vs-quadrature', 'additivity', 'above-bracket', 'below-bracket', 'vs-closed-form-model'):
        return 'quad-length-near-linear-cancellation'
    if sub.startswith('tiny-units') and kind in ('cubic', 'arc') and cfg is False and what in (
            'vs-quadrature', 'additivity', 'above-bracket', 'below-bracket'):
        # segment_length's stopping rule `length2 - length > error` is ABSOLUTE (1e-12)
        return 'length-noscipy-tiny-units-abs-error'
    k = '%s-length-%s' % (base, what)
    if sub.startswith('collinear') or sub.startswith('near-collinear') or sub.startswith('repeated:s=e'):
        k = '%s-length-collinear-%s' % (base, what)
    if kind in ('cubic', 'arc') and cfg is not None:
        k += '-scipy' if cfg else '-noscipy'
    return k


# --------------------------------------------------------------------- run
def run(rep, tier, seed, replay=None):
    warnings.simplefilter('ignore')
    import numpy as np
    np.seterr(all='ignore')
    rng = common.mkrng(seed, 'C06')
    quick = (tier == 'quick')
    with common.Scratch() as tmp:
        info = common.std_static(rep, 'C06', GEN_GROUPS, AGREE, tmp)
        v_nl, v_fin = detect_variant()
        rep.cov['variant'] = {'near_linear_branch(nl)': v_nl, 'nonfinite_to_fallback(fin)': v_fin}
        need = REQUIRED['always'] + (REQUIRED['nl'] if v_nl else []) + (REQUIRED['fin'] if v_fin else [])
        missing = [t for t in need if t not in rep.cov.get('theorems', [])]
        rep.cov['required_theorems'] = sorted(set(need))
        if missing:
            rep.violation('Props/C06.v lacks the theorems required for the installed variant: %s' % missing,
                          {'kind': 'theorem', 'missing': missing, 'variant': rep.cov['variant']},
                          found_input=False, key='props')
        okdef_closed = OKDEF_CLOSED.replace('@NL@', 'true' if v_nl else 'false')
        nseg = 130 if quick else 800
        if info['agree_failed'] or info['untranslated'].keys() - {'gen_Quad_length'}:
            nseg *= 3
        kmax = 10 if quick else 11
        nmax = 256 if quick else 1024

        # ------------------------------------------------ generate
        todo = []
        if replay:
            r = json.load(open(replay))['replay']
            if r.get('kind') == 'length':
                kind, params, sub, t0, t1 = params_from_replay(r)
                todo.append((kind, params, sub, [(t0, t1)]))
        else:
            corpus = [('quad', [0j, 3 + 0j, 1 + 0j], 'collinear-int-fold', [0.6]),
                      ('quad', [0j, 1 + 0j, 2 + 0j], 'tiny-a', []),
                      ('cubic', [0j, 1 + 1j, 1j, 1 + 0j], 'cusp', [0.5]),
                      ('cubic', [0j, 0j, 0j, 0j], 'repeated:all', [0.0, 0.5, 1.0]),
                      ('arc', [0j, 100 + 1j, 30.0, False, True, 50 + 0.2j], 'ratio<=100', [])]
            import glob, os
            for f in sorted(glob.glob(os.path.join(common.VERIF, 'corpus', 'C06', '*.json'))):     # corpus first
                r = json.load(open(f))['replay']
                k_, p_, s_, a_, b_ = params_from_replay(r)
                todo.append((k_, p_, s_, [(a_, b_)]))
            for kind, params, sub, sp in corpus:
                todo.append((kind, params, sub, gen_intervals(rng, sp)))
            while len(todo) < nseg:
                kind, params, sub, sp = gen_segment(rng)
                try:
                    mk_seg(kind, params)
                except Exception:
                    continue
                ivs = gen_intervals(rng, sp)
                if sub == 'midpoint-on-chord':
                    ivs = [(0.0, 1.0), (0.25, 0.75), ivs[-1]]
                todo.append((kind, params, sub, ivs))
            # exactly collinear quadratics always run first (own rng stream; the list above is unchanged)
            todo = collinear_corpus(seed, 30 if quick else 200) + todo

        dist, cases = {}, []
        T_START = time.time()
        bez_terms, bez_meta, arc_terms, arc_meta = [], [], [], []
        closed_terms, closed_meta, sl_terms, sl_meta = [], [], [], []
        evals, nontriv, widths = 0, set(), []
        n_sl = 0
        for kind, params, sub, ivs in todo:
            dist[kind + ':' + sub.split(':')[0]] = dist.get(kind + ':' + sub.split(':')[0], 0) + 1
            seg = mk_seg(kind, params)
            scale = max([abs(p) for p in (params if kind != 'arc' else [params[0], params[5], params[1]])] + [1e-300])
            f = speed_fn(kind, seg)
            for (t0, t1) in ivs:
                obs = observe_lengths(kind, params, t0, t1)
                evals += 6
                # ---------- implementation-level predicate
                ms, tstar, mx = min_speed(f, t0, t1) if t1 > t0 else (f(t0), t0, max(f(t0), 1e-300))
                whole_max = max(f(i / 64) for i in range(65))
                vanish = (ms <= 1e-7 * max(whole_max, 1e-300))
                tol = TOL_VANISH if vanish else TOL
                Q, Qerr = gl_quad(f, t0, t1, breaks=[tstar] if vanish else [], panels=256 if quick else 1024)
                vals = []
                for cfg in (True, False):
                    o = obs[cfg]
                    rp = lambda extra: replay_of(kind, params, sub, t0, t1, dict(extra, config='scipy' if cfg else 'no-scipy',
                                                                                 observed=o, quadrature=Q))
                    if 'timeout' in o:
                        rep.violation('C06: length(%r, %r) did not return within 30 s (%s)' % (t0, t1, kind),
                                      rp({}), key=fail_key(kind, sub, 'timeout', cfg, params))
                        continue
                    if 'error' in o:
                        rep.violation('C06: length() raised %s' % o['error'], rp({}), key=fail_key(kind, sub, 'exception', cfg, params))
                        continue
                    L = o['L']
                    if not math.isfinite(L):
                        rep.violation('C06: length(%r, %r) = %r is not finite (%s, %s)' % (t0, t1, L, kind, sub),
                                      rp({}), key=fail_key(kind, sub, 'nonfinite', None, params))
                        continue
                    if L < 0:
                        rep.violation('C06: length(%r, %r) = %r is negative (%s, %s)' % (t0, t1, L, kind, sub),
                                      rp({}), key=fail_key(kind, sub, 'negative', None, params))
                        continue
                    slack = 1e-13 * scale
                    if t0 == t1 and L > slack:
                        rep.violation('C06: length(t, t) = %r is not 0' % L, rp({}), key=fail_key(kind, sub, 't0eqt1-nonzero', cfg, params))
                        continue
                    if all(math.isfinite(o[x]) for x in 'AB') and abs(o['A'] + o['B'] - L) > 2 * tol * L + slack:
                        rep.violation('C06: not additive: length(%r,%r)=%r but length(%r,%r)+length(%r,%r)=%r'
                                      % (t0, t1, L, t0, o['tm'], o['tm'], t1, o['A'] + o['B']),
                                      rp({}), key=fail_key(kind, sub, 'additivity', cfg, params))
                    if abs(L - Q) > tol * Q + 10 * Qerr + slack:
                        rep.violation('C06: length(%r,%r)=%r disagrees with independent quadrature %r (tol %g)'
                                      % (t0, t1, L, Q, tol), rp({}), key=fail_key(kind, sub, 'vs-quadrature', cfg, params))
                    vals.append((cfg, L))
                if t1 > t0 and Q > 0:
                    nontriv.add((kind, tuple(params), t0, t1))
                if not vals or t0 == t1:
                    continue
                slack = 1e-13 * scale
                # tiny-unit curves: one bracket case per configuration, so that a failure is attributable
                groups = [[v] for v in vals] if sub == 'tiny-units' else [vals]
                # ---------- bracket in Coq
                if kind in ('quad', 'cubic'):
                    k = choose_k(params, t0, t1, 2e-7 if not vanish else 1e-4, kmax)
                    for g in groups:
                        bez_terms.append('(%s, %s, %s, %d, %s, %s, %s)' % (
                            coq_list([cbf(p) for p in params]), bf(t0), bf(t1), k, bf(tol), bf(slack),
                            coq_list([bf(v) for _, v in g])))
                        bez_meta.append((kind, params, sub, t0, t1, g, tol, k))
                elif kind == 'arc':
                    # nearly circular arcs are judged at 1e-6 by a tighter bracket (1024 cells: chord deficit < 4e-7)
                    ps, w = arc_partition(seg, t0, t1, 1e-7 if sub == 'near-circular' else 3e-7,
                                          max(nmax, 1024) if sub == 'near-circular' else nmax)
                    widths.append(w)
                    for g in groups:
                        arc_terms.append('(%s, %s, %s, %s, %s, %s, %s, %s, %s, %s, %s, %s)' % (
                            bf(seg.radius.real), bf(seg.radius.imag), bf(seg.rot_matrix.real), bf(seg.rot_matrix.imag),
                            cbf(seg.center), bf(float(seg.theta)), bf(float(seg.delta)), bf(t0),
                            coq_list([bf(p) for p in ps]), bf(tol), bf(slack), coq_list([bf(v) for _, v in g])))
                        arc_meta.append((kind, params, sub, t0, t1, g, tol, len(ps)))
                # ---------- closed-form models (line, quad)
                if kind == 'line' or (kind == 'quad' and not vanish and not sub.startswith(('near-collinear', 'collinear'))):
                    # the binary64 closed form carries an absolute rounding error ~ eps |b|^2/|a| (cancellation of
                    # terms of size beta |b|); C06_quad_* are exact statements: this tie is about the formula
                    extra = 0.0
                    if kind == 'quad':
                        a_ = params[0] - 2 * params[1] + params[2]; b_ = 2 * (params[1] - params[0])
                        extra = 1e-14 * abs(b_) ** 2 / abs(a_) if abs(a_) >= 1e-12 else 0.0
                    ctol = 1e-9 * max(vals[0][1], scale * 1e-3) + extra
                    closed_terms.append('(%d, %s, %s, %s, %s, %s)' % (
                        0 if kind == 'line' else 1, coq_list([cbf(p) for p in params]), bf(t0), bf(t1), bf(ctol), bf(vals[0][1])))
                    closed_meta.append((kind, params, sub, t0, t1, vals[:1], ctol))
                # ---------- recursive chord rule (no-scipy), default error for cubics; for arcs a
                #            coarser error keeps the model's trig evaluations affordable
                if kind in ('cubic', 'arc') and n_sl < (24 if quick else 400) and not vanish:
                    import svgpathtools.path as P
                    err, md = ((1e-12, 5) if n_sl % 2 == 0 else (1e-4 * scale, 2)) if kind == 'cubic' else (1e-5 * scale, 3)
                    P._quad_available = False
                    try:
                        Ls = float(guarded(lambda: mk_seg(kind, params).length(t0, t1, error=err, min_depth=md), 30))
                    except Exception:
                        Ls = None
                    finally:
                        P._quad_available = True
                    if Ls is not None and math.isfinite(Ls):
                        n_sl += 1
                        if kind == 'cubic':
                            nums = [x for p in params for x in (p.real, p.imag)]
                        else:
                            nums = [seg.radius.real, seg.radius.imag, seg.rot_matrix.real, seg.rot_matrix.imag,
                                    seg.center.real, seg.center.imag, float(seg.theta), float(seg.delta)]
                        stol = 1e-8 * max(Ls, scale * 1e-3)
                        sl_terms.append('(%d, %s, %s, %s, %s, %d, %s, %s)' % (
                            0 if kind == 'cubic' else 1, coq_list([bf(x) for x in nums]), bf(t0), bf(t1), bf(err), md, bf(stol), bf(Ls)))
                        sl_meta.append((kind, params, sub, t0, t1, [(False, Ls)], stol))

        rep.cov['wall_observe_s'] = round(time.time() - T_START, 1)
        # ------------------------------------------------ paths (implementation + model)
        path_terms, path_meta, psub_terms, psub_meta = [], [], [], []
        if not replay:
            from svgpathtools import Path
            import svgpathtools.path as P
            pool = [(k, p) for k, p, s, _ in todo if not s.startswith(('collinear', 'near-collinear', 'repeated'))]
            for _ in range(40 if quick else 300):
                n = rng.randint(1, 5)
                segs = [rng.choice(pool) for _ in range(n)]
                if rng.random() < 0.4:
                    # a curved segment that returns to its start (start == end): alone, first, middle or last;
                    # near-full arcs (start close to, not equal to, end) as well
                    sc_ = 10 ** rng.uniform(-1, 2)
                    a_ = rnd_c(rng, sc_)
                    loop = rng.choice([('cubic', [a_, a_ + rnd_c(rng, sc_), a_ + rnd_c(rng, sc_), a_]),
                                       ('cubic', [0j, 100 + 100j, -100 + 100j, 0j]),
                                       ('quad', [a_, a_ + rnd_c(rng, sc_), a_]),
                                       ('quad', [6 + 2j, 5 - 1j, 6 + 2j]),
                                       ('arc', [a_, complex(sc_, sc_ * rng.uniform(0.3, 3)), 0.0, True, rng.random() < 0.5,
                                                a_ + sc_ * 1e-3 * rnd_c(rng, 1)])])
                    pos = rng.choice([0, n - 1, rng.randrange(n)])
                    segs[pos] = loop
                    try:
                        mk_seg(*loop)
                    except Exception:
                        segs[pos] = rng.choice(pool)
                cfg = rng.random() < 0.5
                P._quad_available = cfg
                try:
                    path = Path(*[mk_seg(k, p) for k, p in segs])
                    tot = float(path.length())
                    lens = [float(mk_seg(k, p).length()) for k, p in segs]
                    T0 = rng.uniform(0, 1); T1 = rng.uniform(T0, 1)
                    sub_obs = float(path.length(T0, T1))
                    i0, t0 = path.T2t(T0); i1, t1 = path.T2t(T1)
                    i0, i1, t0, t1 = int(i0), int(i1), float(t0), float(t1)
                    first = float(mk_seg(*segs[i0]).length(t0, 1)); lst = float(mk_seg(*segs[i1]).length(0, t1))
                    same = float(mk_seg(*segs[i0]).length(t0, t1)) if i0 == i1 else 0.0
                    single = float(mk_seg(*segs[0]).length(T0, T1)) if n == 1 else 0.0
                    mids = [float(mk_seg(*segs[i]).length()) for i in range(i0 + 1, i1)]
                except Exception as e:           # noqa
                    P._quad_available = True
                    continue
                finally:
                    P._quad_available = True
                evals += 2
                if not all(math.isfinite(x) for x in lens + [tot, sub_obs]):
                    continue
                ptol = 1e-9 * max(tot, 1e-300)
                path_terms.append('(%s, %s, %s)' % (coq_list([bf(x) for x in lens]), bf(ptol), bf(tot)))
                path_meta.append((segs, cfg, lens, tot))
                # "a path's length is the sum of its segments' lengths" — also after the MutableSequence was
                # edited without changing the number of segments (pop+append / del+insert), lengths cached
                if n >= 2:
                    P._quad_available = cfg
                    try:
                        j = rng.randrange(n)
                        newseg = rng.choice(pool)
                        segs2 = list(segs)
                        if rng.random() < 0.5:
                            path.pop(); path.append(mk_seg(*newseg)); segs2[-1] = newseg
                        else:
                            del path[j]; path.insert(j, mk_seg(*newseg)); segs2[j] = newseg
                        tot2 = float(path.length())
                        lens2 = [float(mk_seg(k, p).length()) for k, p in segs2]
                    except Exception:
                        tot2 = None
                    finally:
                        P._quad_available = True
                    if tot2 is not None and all(math.isfinite(x) for x in lens2 + [tot2]):
                        evals += 1
                        path_terms.append('(%s, %s, %s)' % (coq_list([bf(x) for x in lens2]),
                                                            bf(1e-9 * max(sum(lens2), 1e-300)), bf(tot2)))
                        path_meta.append((segs2, cfg, lens2, tot2, 'after pop+append / del+insert'))
                if n == 1:
                    t0, t1 = T0, T1
                psub_terms.append('(%d, %s, %d, %s, %d, %s, %s, %s, %s, %s, %s, %s)' % (
                    i0, bf(t0), i1, bf(t1), n, bf(first), coq_list([bf(x) for x in mids]), bf(lst), bf(same), bf(single),
                    bf(ptol), bf(sub_obs)))
                psub_meta.append((segs, cfg, T0, T1, sub_obs))

        rep.cov['wall_paths_s'] = round(time.time() - T_START, 1)
        # ------------------------------------------------ run the Coq comparisons
        def report(fails, meta, what):
            for idx, code in fails:
                kind, params, sub, t0, t1, vals, tol = meta[idx][:7]
                bad = CODE_NAMES.get(code, str(code))
                cfgs = {True: 'scipy', False: 'no-scipy'}
                rep.violation('C06 (%s): %s length(%r, %r) = %s is %s' % (what, kind, t0, t1,
                              ', '.join('%s:%r' % (cfgs[c], v) for c, v in vals), bad),
                              replay_of(kind, params, sub, t0, t1, {'check': what, 'code': code, 'values': [[cfgs[c], v] for c, v in vals],
                                                                     'tolerance': tol}),
                              key=fail_key(kind, sub, {1: 'below-bracket', 2: 'above-bracket', 3: 'vs-closed-form-model',
                                                       4: 'vs-chord-rule-model', 5: 'chord-rule-fuel'}.get(code, 'code%d' % code),
                                           vals[0][0] if (len(vals) == 1 and sub == 'tiny-units') else None, params))

        jobs = [('bez', OKDEF_BEZ, bez_terms, bez_meta, 12), ('arc', OKDEF_ARC, arc_terms, arc_meta, 3),
                ('closed', okdef_closed, closed_terms, closed_meta, 60), ('seglen', OKDEF_SEGLEN, sl_terms, sl_meta, 2),
                ('path', OKDEF_PATH, path_terms, path_meta, 100), ('pathsub', OKDEF_PATHSUB, psub_terms, psub_meta, 100)]
        results = run_jobs_bf(tmp, [(n, o, t, sh) for n, o, t, m, sh in jobs if t])
        for name, okdef, terms, meta, shard in jobs:
            if not terms:
                continue
            fails, errors = results[name]
            for e in errors:
                rep.violation('correspondence case file (%s) failed to evaluate' % name, {'kind': 'cases', 'error': e},
                              found_input=False, key='cases-error')
            evals += len(terms)
            if name in ('path', 'pathsub'):
                for idx, code in fails:
                    m = meta[idx]
                    rep.violation('C06: %s' % CODE_NAMES[code],
                                  {'kind': 'path', 'segments': [repr(mk_seg(k, p)) for k, p in m[0]], 'scipy': m[1],
                                   'observed': m[2:]}, key=('path-length-sum-after-edit' if len(m) > 4 else 'path-length-sum') if code == 6 else 'path-length-sub')
            else:
                report(fails, meta, {'bez': 'bracket', 'arc': 'bracket', 'closed': 'closed-form model',
                                     'seglen': 'chord-rule model'}[name])
        rep.cov['wall_coq_s'] = round(time.time() - T_START, 1)

        # ------------------------------------------------ kernel certificates (RInt, `integral`)
        ncert = certificates(rep, tmp, bez_meta, 4 if quick else 24)

        if info['agree_failed'] and not rep.violations:
            rep.violation('agreement lemma(s) %s no longer check: generated code differs from the model' % info['agree_failed'],
                          {'kind': 'agreement', 'lemmas': info['agree_failed'], 'file': 'coq/GenAgree/Length.v',
                           'messages': info.get('agree_msgs', {})}, found_input=False, key='agree')
        rep.cov['evaluations'] = evals
        rep.cov['traces_validated_against_impl'] = len(bez_terms) + len(arc_terms) + len(closed_terms) + len(sl_terms) + len(path_terms) + len(psub_terms)
        rep.cov['distinct_nontrivial'] = len(nontriv)
        rep.cov['rule'] = ('one case = (segment, sub-interval) observed under both _quad_available configurations on fresh objects; '
                           'non-trivial = t0 < t1 and positive arc length; judged inside Coq (120-bit bigfloats) by the theorem-backed '
                           'bracket [chord sum, control-polygon sum] of the 2^k de Casteljau subdivision (k<=%d chosen so that the bracket '
                           'is tighter than 2e-7) / for arcs [chord sum, Cauchy-Schwarz sum] over <=%d cells' % (kmax, nmax))
        rep.cov['input_distribution'] = dist
        rep.cov['bracket_cases'] = {'bezier': len(bez_terms), 'arc': len(arc_terms), 'closed_form_model': len(closed_terms),
                                    'chord_rule_model': len(sl_terms), 'path_sum': len(path_terms), 'path_sub': len(psub_terms),
                                    'kernel_certificates': ncert,
                                    'arc_bracket_relative_width_max': max(widths) if widths else None,
                                    'arc_bracket_relative_width_median': sorted(widths)[len(widths) // 2] if widths else None}
        rep.cov['samples'] = [{'segment': repr(mk_seg(m[0], m[1])), 't0': m[3], 't1': m[4],
                               'length': dict(('scipy' if c else 'no-scipy', v) for c, v in m[5])} for m in (bez_meta[:2] + arc_meta[:1])]
    rep.assumptions += ['scipy.integrate.quad (QUADPACK) and libm log/hypot/cos/sin are oracles judged per case by the bracket',
                        'bigfloat evaluation (Base/BigF.v, 120 bit) of the bracket is accurate to far below the 1e-6 tolerance (unverified enclosure)',
                        'Arc derived parameters (center, theta, delta, radius) are taken from the implementation (C04 is about them)']


def run_jobs_bf(tmp, jobs):
    """jobs: [(name, okdef, terms, shard)].  All shards of all jobs are compiled in ONE
    pool (heaviest first).  Returns {name: (fails, errors)}"""
    texts, owner = [], []
    for name, okdef, terms, shard in jobs:
        for s in range(0, len(terms), shard):
            chunk = terms[s:s + shard]
            texts.append(common.CASE_HEADER_BF + okdef + '\nDefinition the_cases : list casety :=\n [%s].\n' % ';\n  '.join(chunk) +
                         'Eval vm_compute in (run_cases ok the_cases).\n')
            owner.append((name, s))
    order = sorted(range(len(texts)), key=lambda i: -len(texts[i]))
    res_sorted = common.run_case_files([texts[i] for i in order], tmp, prefix='cases_c06', timeout=1500)
    res = [None] * len(texts)
    for i, r in zip(order, res_sorted):
        res[i] = r
    out = {name: ([], []) for name, _, _, _ in jobs}
    for (name, s), (rc, o, dt) in zip(owner, res):
        codes = common.parse_codes(o) if rc == 0 else None
        if codes is None:
            out[name][1].append('%s shard @%d: rc=%s %s' % (name, s, rc, o[-1500:]))
            continue
        for i, c in codes:
            out[name][0].append((s + i, c))
    return out


def certificates(rep, tmp, bez_meta, n):
    """per-case kernel certificates  |RInt speed - impl| <= tol  by `integral` (generic cubics)"""
    picks = [m for m in bez_meta if m[0] == 'cubic' and m[2] == 'generic' and m[6] == TOL and m[4] - m[3] > 0.05][:n]
    if not picks:
        return 0
    texts = []
    for m in picks:
        kind, params, sub, t0, t1, vals, tol, k = m
        P0, P1, P2, P3 = params
        # B'(t) = c2 t^2 + c1 t + c0 (exact rational coefficients of the binary64 control points)
        F = lambda z: (Fraction(z.real), Fraction(z.imag))
        p = [F(z) for z in params]
        co = []
        for j in (0, 1):
            a0, a1, a2, a3 = p[0][j], p[1][j], p[2][j], p[3][j]
            co.append((3 * (a3 - 3 * a2 + 3 * a1 - a0), 6 * (a2 - 2 * a1 + a0), 3 * (a1 - a0)))
        rq = lambda fr: '(%d / %d)' % (fr.numerator, fr.denominator)
        dx = '(%s * (t * t) + %s * t + %s)' % tuple(rq(c) for c in co[0])
        dy = '(%s * (t * t) + %s * t + %s)' % tuple(rq(c) for c in co[1])
        impl = vals[0][1]
        ctol = 1e-6 * impl
        texts.append('From Coq Require Import Reals.\nFrom Coquelicot Require Import Coquelicot.\nFrom Interval Require Import Tactic.\n'
                     'Local Open Scope R_scope.\n'
                     'Goal Rabs (RInt (fun t => sqrt (%s * %s + %s * %s)) %s %s - %s) <= %s.\n'
                     'Proof. integral with (i_prec 60, i_fuel 2000, i_degree 8). Qed.\n'
                     % (dx, dx, dy, dy, rq(Fraction(t0)), rq(Fraction(t1)), rq(Fraction(impl)), rq(Fraction(ctol))))
    res = common.run_case_files(texts, tmp, prefix='cert_c06', timeout=300)
    okc = 0
    rep.cov['obligations'] += len(res)
    for m, (rc, out, dt) in zip(picks, res):
        if rc == 0:
            okc += 1
            rep.cov['discharged'] += 1
        else:
            rep.notes.append('certificate not closed for %r on [%r,%r]: %s' % (m[1], m[3], m[4], out[-300:]))
    return okc
