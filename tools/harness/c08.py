"""C08 — bbox() contains the curve and every side of it is touched by the curve.
Theorems: coq/Props/C08.v.  Ties: translator (Line.bbox; bezier_real_minmax is
recorded as untranslatable because of the polyroots fall-through) and a
correspondence check computed INSIDE Coq in 120-bit bigfloats: the
implementation's 4-tuple against Model/Extrema.v (np.roots output handed over
as data, so the model's filtering / de-duplication / min / max logic is what is
compared).  Plus the property itself on the implementation: 257 sampled points
+ local refinement are inside the box and every side is attained."""
import math, warnings, json
import common
from common import bf, cbf, coq_list

GEN_GROUPS = ['GenBoxes', 'GenExtrema']
AGREE = ['Extrema.v']
ATOL, RTOL = 1e-8, 1e-5       # misctools.isclose defaults (read back from the implementation in run())

OKDEF = r'''
From SVP Require Import Model.Extrema.
Definition N := NumB.
Definition T := NumTB.
Definition atol : bf := %(atol)s.
Definition rtol : bf := %(rtol)s.
Definition fixed : bool := %(fixed)s.     (* polyroots de-duplication variant of the tree under test (probed) *)
Definition stable : bool := %(stable)s.   (* bezier_real_minmax closed-form variant of the tree under test (probed) *)
Definition box : Type := (bf * bf * bf * bf)%%type.
Definition boxclose (tol : bf) (a b : box) : bool :=
  let '(a1, a2, a3, a4) := a in let '(b1, b2, b3, b4) := b in
  bclose tol a1 b1 && bclose tol a2 b2 && bclose tol a3 b3 && bclose tol a4 b4.
Definition boxeq (a b : box) : bool :=
  let '(a1, a2, a3, a4) := a in let '(b1, b2, b3, b4) := b in
  bf_eqb a1 b1 && bf_eqb a2 b2 && bf_eqb a3 b3 && bf_eqb a4 b4.
Inductive ccase : Type :=
| CLine (s e : Cplx bf) (bx : box)
| CQuad (p0 p1 p2 : Cplx bf) (rx ry : list (Cplx bf)) (tol : bf) (bx : box)
| CCubic (p0 p1 p2 p3 : Cplx bf) (rx ry : list (Cplx bf)) (tol : bf) (bx : box)
| CArc (A : @arcp bf) (tol : bf) (bx : box)
| CPath (bbs : list box) (bx : box).
Definition ok (c : ccase) : nat :=
  match c with
  | CLine s e bx => first_fail [(boxeq bx (line_bbox N s e), 1)]
  | CQuad p0 p1 p2 rx ry tol bx => first_fail [(boxclose tol bx (quad_bbox N fixed atol rtol p0 p1 p2 rx ry), 2)]
  | CCubic p0 p1 p2 p3 rx ry tol bx =>
      first_fail [(boxclose tol bx (cubic_bbox N T stable fixed atol rtol p0 p1 p2 p3 rx ry), 3)]
  | CArc A tol bx => first_fail [(boxclose tol bx (arc_bbox N T A), 4)]
  | CPath bbs bx => first_fail [(boxeq bx (path_bbox N bbs), 5)]
  end.
'''
OBS = {1: 'Line.bbox vs model (exact)', 2: 'QuadraticBezier.bbox vs model', 3: 'CubicBezier.bbox vs model',
       4: 'Arc.bbox vs model', 5: 'Path.bbox vs component-wise min/max of the segment boxes (exact)'}


# ------------------------------------------------------- variant probing
def probe_polyroots_fixed():
    """which de-duplication loop does polytools.polyroots run?  Five sorted roots with a close pair at
    positions (1,2): the pinned loop (pair index used as root index) returns [.9,.6,.600001,.4], the repaired
    one (drop the later root of a close pair) [.9,.6,.4,.2].  Anything else is compared with the pinned model."""
    import numpy as np
    import svgpathtools.polytools as pt
    orig = pt.np.roots
    try:
        pt.np.roots = lambda p: np.array([0.9, 0.6, 0.600001, 0.4, 0.2])
        out = [float(x) for x in pt.polyroots01([1, 0, 0, 0, 0, 0])]
    except Exception:
        out = None
    finally:
        pt.np.roots = orig
    return out == [0.9, 0.6, 0.4, 0.2]


def probe_minmax_stable():
    """which closed form does bezier_real_minmax evaluate?  Control values with cubic coefficient -6e-13:
    (tau -+ sqrt(delta))/denom cancels and yields max 18.67975; the cancellation-free form gives the true
    maximum 18.68000.  Anything else is compared with the pinned model."""
    from svgpathtools.bezier import bezier_real_minmax
    try:
        mn, mx = bezier_real_minmax([complex(v) for v in (-16.0, 18.0, 27.0, 11.000000000000313)])
        return abs(float(mx) - 18.68) < 1e-9
    except Exception:
        return False


# ------------------------------------------------------------------ oracle
class RootsTap:
    """wraps numpy.roots as seen by svgpathtools.polytools; records (coeffs, roots)"""
    def __init__(self):
        import svgpathtools.polytools as pt
        import numpy as np
        self.pt, self.np = pt, np
        self.orig = np.roots
        self.calls = []

    def __enter__(self):
        tap = self

        def roots(p):
            r = tap.orig(p)
            tap.calls.append(([complex(c) for c in tap.np.atleast_1d(p)], [complex(x) for x in r]))
            return r
        self.pt.np.roots = roots
        return self

    def __exit__(self, *a):
        self.pt.np.roots = self.orig


def oracle_roots(coeffs):
    """np.roots on coefficients the harness built (when the implementation
    did not consult the oracle for this coordinate but the model might)"""
    import numpy as np
    try:
        return [complex(x) for x in np.roots(coeffs)]
    except Exception:
        return []


# -------------------------------------------------------------- generators
def rnd(rng, sc):
    return complex(rng.uniform(-sc, sc), rng.uniform(-sc, sc))


def gen_line(rng):
    mode = rng.choice(['rand', 'int', 'horizontal', 'vertical', 'point'])
    if mode == 'rand':
        sc = 10 ** rng.uniform(-3, 5); return [rnd(rng, sc), rnd(rng, sc)], mode
    if mode == 'int':
        return [complex(rng.randint(-50, 50), rng.randint(-50, 50)) for _ in range(2)], mode
    a = rnd(rng, 100)
    if mode == 'horizontal': return [a, complex(rng.uniform(-100, 100), a.imag)], mode
    if mode == 'vertical': return [a, complex(a.real, rng.uniform(-100, 100))], mode
    return [a, a], mode


def gen_quad(rng):
    mode = rng.choice(['rand', 'rand', 'int', 'x-linear', 'y-linear', 'collinear', 'coincident', 'vertex-at-end',
                       'near-linear'])
    if mode == 'rand':
        sc = 10 ** rng.uniform(-3, 5); return [rnd(rng, sc) for _ in range(3)], mode
    if mode == 'int':
        return [complex(rng.randint(-50, 50), rng.randint(-50, 50)) for _ in range(3)], mode
    if mode in ('x-linear', 'y-linear', 'near-linear'):
        # the quadratic coefficient a0 - 2a1 + a2 of one coordinate is exactly (or nearly) zero
        a0, a2 = rng.randint(-40, 40), rng.randint(-40, 40)
        a1 = (a0 + a2) / 2
        if mode == 'near-linear': a1 += rng.choice([1, -1]) * 2.0 ** rng.randint(-50, -30)
        b = [rng.uniform(-40, 40) for _ in range(3)]
        if mode == 'y-linear': return [complex(b[i], a) for i, a in enumerate((a0, a1, a2))], mode
        return [complex(a, b[i]) for i, a in enumerate((a0, a1, a2))], mode
    if mode == 'collinear':
        a, d = rnd(rng, 50), rnd(rng, 10)
        return [a + d * k for k in (0, rng.choice([0.5, 1, 2, -1, 3]), rng.choice([1, 2, -1]))], mode
    if mode == 'coincident':
        a = rnd(rng, 50); pts = [a, a, a]
        if rng.random() < 0.6: pts[rng.randrange(3)] = rnd(rng, 50)
        return pts, mode
    # derivative root exactly at t=0 or t=1 in one coordinate (control == start / end)
    a, b = rnd(rng, 50), rnd(rng, 50)
    c = complex(a.real, rng.uniform(-50, 50)) if rng.random() < 0.5 else complex(rng.uniform(-50, 50), b.imag)
    return [a, c, b], mode


def cubic_from_poly(a, b, c, d):
    """control values of a t^3 + b t^2 + c t + d (standard basis change)"""
    return [d, d + c / 3, d + 2 * c / 3 + b / 3, a + b + c + d]


def gen_cubic_coord(rng, mode):
    """4 real control values of one coordinate"""
    if mode == 'rand':
        sc = 10 ** rng.uniform(-3, 5); return [rng.uniform(-sc, sc) for _ in range(4)]
    if mode == 'int':
        return [float(rng.randint(-30, 30)) for _ in range(4)]
    if mode == 'deg2':       # denom = 0 exactly, tau != 0
        a0, a1, a2 = [float(rng.randint(-30, 30)) for _ in range(3)]
        return [a0, a1, a2, a0 - 3 * a1 + 3 * a2]
    if mode == 'deg2-near':  # denom tiny but not zero
        a0, a1, a2 = [float(rng.randint(-30, 30)) for _ in range(3)]
        a3 = a0 - 3 * a1 + 3 * a2
        e = rng.choice([1, -1]) * 2.0 ** rng.randint(-48, -20) * max(1.0, abs(a3))
        return [a0, a1, a2, a3 + e]
    if mode == 'deg1':       # equally spaced control values
        a0, d = float(rng.randint(-30, 30)), float(rng.randint(-9, 9))
        return [a0, a0 + d, a0 + 2 * d, a0 + 3 * d]
    if mode == 'deg1-near':
        a0, d = float(rng.randint(-30, 30)), float(rng.randint(1, 9))
        v = [a0, a0 + d, a0 + 2 * d, a0 + 3 * d]
        v[rng.randrange(4)] += rng.choice([1, -1]) * 2.0 ** rng.randint(-45, -25)
        return v
    if mode == 'deg0':
        a0 = float(rng.randint(-30, 30)); return [a0] * 4
    if mode == 'monotone':
        return sorted(rng.uniform(-50, 50) for _ in range(4))[::rng.choice([1, -1])]
    if mode == 'double-root':   # x(t) = k (t - r)^3 + c : delta = 0, x' >= 0 with a double root inside
        r = rng.choice([0.5, 0.25, 0.75, 0.125, 0.375])
        k = 3.0 * rng.choice([1, 2, -1, 8, -16]); c = float(rng.randint(-9, 9))
        return cubic_from_poly(k, -3 * k * r, 3 * k * r * r, -k * r ** 3 + c)
    if mode == 'double-root-near':
        r = rng.uniform(0.1, 0.9); k = rng.uniform(-30, 30); c = rng.uniform(-9, 9)
        return cubic_from_poly(k, -3 * k * r, 3 * k * r * r, -k * r ** 3 + c)
    if mode == 'root-at-end':   # x'(0) = 0 or x'(1) = 0
        v = [rng.uniform(-30, 30) for _ in range(4)]
        if rng.random() < 0.5: v[1] = v[0]
        else: v[2] = v[3]
        return v
    raise ValueError(mode)


CUBIC_MODES = ['rand', 'rand', 'int', 'int', 'deg2', 'deg2', 'deg2-near', 'deg2-near', 'deg1', 'deg1-near', 'deg0',
               'monotone', 'double-root', 'double-root-near', 'root-at-end']


def gen_cubic(rng):
    if rng.random() < 0.12:
        # a quadratic written as a cubic (degree elevation, as font converters do): denom = 0 up to rounding
        sc = 10 ** rng.uniform(-1, 3)
        q = [rnd(rng, sc) for _ in range(3)]
        return [q[0], q[0] + 2 / 3 * (q[1] - q[0]), q[2] + 2 / 3 * (q[1] - q[2]), q[2]], 'elevated-quadratic'
    mx, my = rng.choice(CUBIC_MODES), rng.choice(CUBIC_MODES)
    xs, ys = gen_cubic_coord(rng, mx), gen_cubic_coord(rng, my)
    return [complex(x, y) for x, y in zip(xs, ys)], mx + '/' + my


ROT_CLASSES = [0, 0, 90, 180, 270, 360, -90, 45, 30, 135, 'rand', 'rand', 'tiny', 'near90']


def gen_arc(rng):
    """an arc described by centre, radii, rotation, start angle and sweep
    (degrees on the unit circle); returns constructor arguments"""
    rc = rng.choice(ROT_CLASSES)
    rot = rc
    if rc == 'rand': rot = rng.uniform(-360, 360)
    if rc == 'tiny': rot = rng.choice([1, -1]) * 10 ** rng.uniform(-12, -3)
    if rc == 'near90': rot = 90 + rng.choice([1, -1]) * 10 ** rng.uniform(-12, -3)
    rx = 10 ** rng.uniform(-1, 2)
    ry = rx * rng.choice([1, 1, 0.5, 2, 0.1, 10, rng.uniform(0.2, 5)])
    center = rnd(rng, 100)
    th = rng.uniform(-180, 180)
    span = rng.choice([5, 30, 80, 100, 170, 190, 260, 280, 350, rng.uniform(1, 359)]) * rng.choice([1, -1])
    if rng.random() < 0.15:     # start or end exactly on an axis extreme of the unrotated ellipse
        th = rng.choice([0, 90, 180, -90, -180])
    phi = math.radians(rot)

    def pt(deg):
        a = math.radians(deg)
        return center + complex(rx * math.cos(a), ry * math.sin(a)) * complex(math.cos(phi), math.sin(phi))
    start, end = pt(th), pt(th + span)
    return dict(start=start, radius=complex(rx, ry), rotation=float(rot), large_arc=abs(span) > 180,
                sweep=span > 0, end=end), 'rot=%s' % rc


def arc_from_angles(center, rx, ry, rot, th, span):
    """constructor arguments of the arc with the given centre, radii, rotation (degrees), start angle th and
    sweep span (degrees on the unit circle)"""
    phi = math.radians(rot)

    def pt(deg):
        a = math.radians(deg)
        return center + complex(rx * math.cos(a), ry * math.sin(a)) * complex(math.cos(phi), math.sin(phi))
    return dict(start=pt(th), radius=complex(rx, ry), rotation=float(rot), large_arc=abs(span) > 180,
                sweep=span > 0, end=pt(th + span))


def wide_arc_corpus():
    """arcs whose angle interval [theta, theta + delta] reaches beyond +-450 degrees: start near the 'left' end
    of the ellipse (|theta| within 20 degrees of 180) and nearly a full turn in the direction that leaves the
    interval (-180, 180]; the axis extremes at atan_x/atan_y +- 3 pi (k = +-3 in Arc.bbox) lie on them.
    Both sweep flags, rotations 0/30/90/135/-60, circular and eccentric, ordinary scale."""
    out = []
    for rot in (0, 30, 90, 135, -60):
        for rx, ry in ((5.0, 5.0), (4.7, 2.58), (2.0, 9.0)):
            for th, span in ((170.0, 340.0), (-165.0, -330.0), (178.0, 359.9), (-160.0, -300.0), (162.0, 305.0),
                             (-179.0, -350.0)):
                out.append(('arc', arc_from_angles(complex(3, -2), rx, ry, rot, th, span),
                            'corpus/wide-arc rot=%s' % rot))
    # the witness of the seeded change C08_1, alone and inside a path
    w = dict(start=-2.45 - 4.96j, radius=4.7 + 2.58j, rotation=90.0, large_arc=True, sweep=True, end=-3.79 - 2.98j)
    out.append(('arc', w, 'corpus/wide-arc witness'))
    out.append(('path', [('line', [-2.45 - 6j, -2.45 - 4.96j]), ('arc', w), ('line', [-3.79 - 2.98j, -1 + 0j])],
                'corpus/wide-arc witness in path'))
    return out


def gen_wide_arc(rng):
    """random member of the same class: |theta| in [160, 180], |delta| in [300, 359.9], sign(delta) = sign(theta)"""
    sg = rng.choice([1, -1])
    th = sg * rng.uniform(160, 180)
    span = sg * rng.uniform(300, 359.9)
    rot = rng.choice([0, 30, 90, 135, -60, rng.uniform(-180, 180), rng.uniform(-180, 180)])
    rx = 10 ** rng.uniform(-0.5, 1.5)
    ry = rx * rng.choice([1, 1, 0.55, 2, 0.2, 5, rng.uniform(0.2, 5)])
    return arc_from_angles(rnd(rng, 50), rx, ry, rot, th, span), 'wide-arc rot=%s' % (
        rot if isinstance(rot, int) else 'rand')


# --------------------------------------------------------- implementation
def make_seg(kind, data):
    from svgpathtools import Line, QuadraticBezier, CubicBezier, Arc
    if kind == 'line': return Line(*data)
    if kind == 'quad': return QuadraticBezier(*data)
    if kind == 'cubic': return CubicBezier(*data)
    return Arc(data['start'], data['radius'], data['rotation'], data['large_arc'], data['sweep'], data['end'])


def golden(fn, lo, hi, sign, it=60):
    """local minimum of sign*fn on [lo, hi]"""
    g = (math.sqrt(5) - 1) / 2
    a, b = lo, hi
    c, d = b - g * (b - a), a + g * (b - a)
    fc, fd = sign * fn(c), sign * fn(d)
    for _ in range(it):
        if fc < fd:
            b, d, fd = d, c, fc
            c = b - g * (b - a); fc = sign * fn(c)
        else:
            a, c, fc = c, d, fd
            d = a + g * (b - a); fd = sign * fn(d)
    t = (a + b) / 2
    return t, fn(t)


def refined_extremes(point, n=257):
    """(min x, max x, min y, max y) over 257 samples, each local extremum among
    the samples refined by golden-section search; also every sampled point"""
    ts = [i / (n - 1) for i in range(n)]
    ps = [complex(point(t)) for t in ts]
    out = []
    for part, sign in ((0, 1), (0, -1), (1, 1), (1, -1)):
        f = (lambda t: complex(point(t)).real) if part == 0 else (lambda t: complex(point(t)).imag)
        vals = [(p.real if part == 0 else p.imag) for p in ps]
        best = min(sign * v for v in vals)
        bt = None
        for i in range(n):
            v = sign * vals[i]
            if (i == 0 or v <= sign * vals[i - 1]) and (i == n - 1 or v <= sign * vals[i + 1]):
                lo, hi = ts[max(i - 1, 0)], ts[min(i + 1, n - 1)]
                t, fv = golden(f, lo, hi, sign)
                if sign * fv < best:
                    best, bt = sign * fv, t
        out.append(sign * best)
    return out, ps


def impl_property(segs, box, size):
    """the statement of C08 on the implementation; returns None or (what, detail)"""
    xmin, xmax, ymin, ymax = [float(v) for v in box]
    slack, tight = 1e-9 * size, 1e-7 * size
    ext = None
    for seg in segs:
        e, ps = refined_extremes(seg.point)
        for p in ps:
            if not (xmin - slack <= p.real <= xmax + slack and ymin - slack <= p.imag <= ymax + slack):
                return 'not-containing', 'point %r outside box %r' % (p, (xmin, xmax, ymin, ymax))
        ext = e if ext is None else [min(ext[0], e[0]), max(ext[1], e[1]), min(ext[2], e[2]), max(ext[3], e[3])]
    if ext[0] < xmin - slack or ext[1] > xmax + slack or ext[2] < ymin - slack or ext[3] > ymax + slack:
        return 'not-containing', 'refined extreme %r outside box %r' % (ext, (xmin, xmax, ymin, ymax))
    for name, b, e in (('xmin', xmin, ext[0]), ('xmax', xmax, ext[1]), ('ymin', ymin, ext[2]), ('ymax', ymax, ext[3])):
        if abs(b - e) > tight:
            return 'not-tight', '%s=%r but the curve only reaches %r' % (name, b, e)
    return None


def tiny_denom(data):
    """a coordinate whose cubic coefficient is non-zero but negligible: the closed form
    (tau -+ sqrt(delta))/denom cancels catastrophically there"""
    for part in (0, 1):
        a = [(p.real if part == 0 else p.imag) for p in data]
        denom = a[0] - 3 * a[1] + 3 * a[2] - a[3]
        if denom != 0 and abs(denom) <= 1e-6 * max(abs(v) for v in a):
            return True
    return False


def seg_size(kind, data):
    if kind == 'arc':
        return max(1e-300, abs(data['start']), abs(data['end']), abs(data['radius'].real), abs(data['radius'].imag))
    return max(1e-300, max(max(abs(p.real), abs(p.imag)) for p in data))


def roots_term(rs):
    return coq_list([cbf(r) for r in rs])


def box_term(b):
    return '(%s, %s, %s, %s)' % tuple(bf(float(v)) for v in b)


def observe(kind, data):
    """run the implementation; returns (case term, box, seg, info)"""
    import numpy as np
    from svgpathtools.bezier import bezier2polynomial
    seg = make_seg(kind, data)
    with RootsTap() as tap:
        box = seg.bbox()
    box = tuple(float(v) for v in box)
    size = seg_size(kind, data)
    tol = bf(1e-9 * size)
    info = {'oracle_calls': len(tap.calls)}
    if kind == 'line':
        return 'CLine %s %s %s' % (cbf(data[0]), cbf(data[1]), box_term(box)), box, seg, info
    if kind == 'quad':
        # bezier_bounding_box asks for the roots of dx then dy
        rx, ry = (tap.calls + [([], []), ([], [])])[:2]
        return ('CQuad %s %s %s %s %s %s %s' % (cbf(data[0]), cbf(data[1]), cbf(data[2]), roots_term(rx[1]),
                                                roots_term(ry[1]), tol, box_term(box))), box, seg, info
    if kind == 'cubic':
        calls = list(tap.calls)
        rts = []
        for part in (0, 1):
            a = [(p.real if part == 0 else p.imag) for p in data]
            denom = a[0] - 3 * a[1] + 3 * a[2] - a[3]
            if denom == 0 and calls:
                rts.append(calls.pop(0)[1])
            else:
                # not consulted by the implementation; the model takes this path only if ITS denom is 0
                rts.append(oracle_roots(bezier2polynomial(a, return_poly1d=True).deriv().coeffs))
        info['denom0'] = [(a == 0) for a in (data[0].real - 3 * data[1].real + 3 * data[2].real - data[3].real,
                                             data[0].imag - 3 * data[1].imag + 3 * data[2].imag - data[3].imag)]
        return ('CCubic %s %s %s %s %s %s %s %s' % (cbf(data[0]), cbf(data[1]), cbf(data[2]), cbf(data[3]),
                                                   roots_term(rts[0]), roots_term(rts[1]), tol, box_term(box))), box, seg, info
    # arc: derived parameters are inputs of the model (C04's subject)
    A = '(mkArcp %s %s %s %s %s %s %s %s)' % (cbf(seg.start), cbf(seg.end), bf(float(seg.radius.real)),
                                              bf(float(seg.radius.imag)), bf(float(seg.phi)), bf(float(seg.theta)),
                                              bf(float(seg.delta)), cbf(complex(seg.center)))
    return 'CArc %s %s %s' % (A, tol, box_term(box)), box, seg, info


def arc_extremes_crossed(seg):
    """number of interior sign changes of x'(t) and y'(t) on 513 samples (coverage only)"""
    n, cnt = 513, 0
    prev = None
    for i in range(1, n - 1):
        d = complex(seg.derivative(i / (n - 1)))
        cur = (d.real > 0, d.imag > 0)
        if prev is not None:
            cnt += (cur[0] != prev[0]) + (cur[1] != prev[1])
        prev = cur
    return cnt


def ser(kind, data):
    if kind == 'arc':
        return {'kind': kind, 'start': common.chex(data['start']), 'radius': common.chex(data['radius']),
                'rotation': common.fhex(data['rotation']), 'large_arc': bool(data['large_arc']),
                'sweep': bool(data['sweep']), 'end': common.chex(data['end'])}
    return {'kind': kind, 'points': [common.chex(p) for p in data]}


def deser(d):
    cx = lambda h: complex(float.fromhex(h[0]), float.fromhex(h[1]))
    if d['kind'] == 'arc':
        return 'arc', dict(start=cx(d['start']), radius=cx(d['radius']), rotation=float.fromhex(d['rotation']),
                           large_arc=d['large_arc'], sweep=d['sweep'], end=cx(d['end']))
    return d['kind'], [cx(p) for p in d['points']]


def has_tiny_denom(sercase):
    cs = sercase['segments'] if sercase['kind'] == 'path' else [sercase]
    return any(c['kind'] == 'cubic' and tiny_denom(deser(c)[1]) for c in cs)


def arc_endpoint_mismatch(segs, size):
    """an Arc whose point(0) / point(1) is not its stored start / end (theta, delta recovered through acos near
    +-1: property C04's subject); Arc.bbox seeds its extrema with start / end, the curve starts at point(0)"""
    for s in segs:
        if hasattr(s, 'large_arc'):
            if abs(complex(s.point(0)) - s.start) > 1e-9 * size or abs(complex(s.point(1)) - s.end) > 1e-9 * size:
                return True
    return False


def gen_special_path(rng):
    """paths on which "the path's box is the union of its segments' boxes" is easy to get wrong: segments that
    return to their own start without being a point (closed cubic / quadratic loops), genuinely degenerate point
    segments (connected, and isolated far from the rest), nearly closed arcs"""
    mode = rng.choice(['loop-cubic', 'loop-cubic', 'loop-quad', 'point-seg', 'isolated-point', 'near-closed-arc', 'mixed'])
    ri = lambda lo, hi: float(rng.randint(lo, hi))
    p = complex(ri(-20, 20), ri(-20, 20))
    lead = ('line', [p - complex(ri(1, 6), ri(-2, 2)), p])
    tail = ('line', [p, p + complex(ri(1, 6), ri(-2, 2))])

    def loop_cubic(q):      # teardrop: start == end, the loop reaches far beyond the neighbours
        sg = rng.choice([1, -1])
        return ('cubic', [q, q + complex(ri(3, 30), sg * ri(3, 30)), q + complex(-ri(3, 30), sg * ri(3, 30)), q])

    def loop_quad(q):       # out and back along a segment: start == end, extent control/2
        return ('quad', [q, q + complex(ri(-30, 30), ri(4, 30) * rng.choice([1, -1])), q])

    def point_seg(q):
        return rng.choice([('line', [q, q]), ('quad', [q, q, q]), ('cubic', [q, q, q, q])])

    def near_closed_arc(q):
        rx = 10 ** rng.uniform(0, 1.5); ry = rx * rng.choice([1, 0.5, 2])
        e = q + complex(rng.choice([1, -1]), rng.choice([1, -1, 0])) * 10 ** rng.uniform(-6, -2) * rx
        return ('arc', dict(start=q, radius=complex(rx, ry), rotation=float(rng.choice([0, 30, 90, rng.uniform(0, 180)])),
                            large_arc=True, sweep=rng.random() < 0.5, end=e))
    if mode == 'loop-cubic':
        segs = [lead, loop_cubic(p), tail]
        if rng.random() < 0.3: segs = [loop_cubic(p), tail]
        if rng.random() < 0.2: segs = [('quad', [p - 2, p - 1 + 1j, p]), loop_cubic(p)]
    elif mode == 'loop-quad':
        segs = [lead, loop_quad(p), tail]
    elif mode == 'point-seg':
        segs = [lead, point_seg(p), tail]
        if rng.random() < 0.3: segs = [point_seg(p)]
    elif mode == 'isolated-point':      # a disconnected path: the point is nobody's end point
        q = p + complex(ri(30, 90) * rng.choice([1, -1]), ri(30, 90) * rng.choice([1, -1]))
        segs = [lead, point_seg(q), tail]
        rng.shuffle(segs)
    elif mode == 'near-closed-arc':
        a = near_closed_arc(p)
        segs = [lead, a, ('line', [a[1]['end'], a[1]['end'] + complex(ri(1, 6), ri(-2, 2))])]
    else:
        a = near_closed_arc(p)
        segs = [lead, loop_cubic(p), point_seg(p), loop_quad(p), a]
    return segs, mode


def scale_case(kind, data, s):
    """the same shape in other user units: every coordinate (and radius) multiplied by the power of two s,
    so that exact structure (denom == 0, start == end, double roots) is preserved"""
    if kind == 'path':
        return [(k, scale_case(k, d, s)) for k, d in data]
    if kind == 'arc':
        d = dict(data)
        for f in ('start', 'end', 'radius'):
            d[f] = data[f] * s
        return d
    return [p * s for p in data]


def gen_case(rng):
    """a base case, or (30%) the same shape in tiny (2^-30..2^-14 ~ 1e-9..6e-5) or huge (2^20..2^30 ~ 1e6..1e9)
    user units; every judge is relative to the curve's own size"""
    k, d, m = gen_base_case(rng)
    u = rng.random()
    if u < 0.18:
        return k, scale_case(k, d, 2.0 ** rng.randint(-30, -14)), m + '@tiny-units'
    if u < 0.30:
        return k, scale_case(k, d, 2.0 ** rng.randint(20, 30)), m + '@huge-units'
    return k, d, m


def gen_base_case(rng):
    k = rng.choice(['line', 'quad', 'quad', 'cubic', 'cubic', 'cubic', 'cubic', 'arc', 'arc', 'arc', 'path', 'path'])
    if k == 'line': d, m = gen_line(rng)
    elif k == 'quad': d, m = gen_quad(rng)
    elif k == 'cubic': d, m = gen_cubic(rng)
    elif k == 'arc': d, m = gen_arc(rng)
    elif rng.random() < 0.5:
        segs, m = gen_special_path(rng)
        return 'path', segs, 'path/' + m
    else:
        segs = []
        for _ in range(rng.randint(1, 5)):
            kk = rng.choice(['line', 'quad', 'cubic', 'arc'])
            dd, _m = {'line': gen_line, 'quad': gen_quad, 'cubic': gen_cubic, 'arc': gen_arc}[kk](rng)
            segs.append((kk, dd))
        return 'path', segs, 'path'
    return k, d, m


def run(rep, tier, seed, replay=None):
    warnings.simplefilter('ignore')
    import numpy as np
    np.seterr(all='ignore')
    from svgpathtools import Path
    import svgpathtools.misctools as mt
    import inspect
    sig = inspect.signature(mt.isclose)
    atol, rtol = sig.parameters['atol'].default, sig.parameters['rtol'].default
    fixed, stable = probe_polyroots_fixed(), probe_minmax_stable()
    rep.cov['variant'] = {'polyroots_dedup': 'repaired (fixed=true)' if fixed else 'pinned (fixed=false)',
                          'bezier_real_minmax_closed_form': 'repaired (stable=true)' if stable else 'pinned (stable=false)'}
    rng = common.mkrng(seed, 'C08')
    with common.Scratch() as tmp:
        info = common.std_static(rep, 'C08', GEN_GROUPS, AGREE, tmp)
        rep.cov['trusted_base'] = sorted(set(rep.cov['trusted_base']) | {
            'oracle: numpy.roots (output handed to the model as data; contract stated in the _partial theorems)',
            'Base/BigF.v: 120-bit bigfloat evaluation of the model (unverified enclosure)'})
        # bezier_real_minmax is listed only to record why the translator tie is unavailable for it
        expected_untranslated = {'gen_bezier_real_minmax_4'}
        changed = bool(info['agree_failed']) or bool(set(info['untranslated']) - expected_untranslated)
        n = 420 if tier == 'quick' else 15000
        if changed: n *= 3
        todo = []
        if replay:
            r = json.load(open(replay))['replay']
            c = r['case']
            if c['kind'] == 'path':
                todo.append(('path', [deser(s) for s in c['segments']], 'replay'))
            else:
                k, d = deser(c); todo.append((k, d, 'replay'))
        else:
            # hand-picked: a quadratic written as a cubic (degree elevation); cubic coefficient ~1e-14
            q = [-99.81684816601224 - 94.61705857858904j, 97.53500247585552 + 47.20998662855288j,
                 -98.00181415191666 + 12.90781526648037j]
            todo.append(('cubic', [q[0], q[0] + 2 / 3 * (q[1] - q[0]), q[2] + 2 / 3 * (q[1] - q[2]), q[2]],
                         'corpus/elevated-quadratic'))
            # hand-picked: start on an axis extreme, tiny rotation: theta is recovered through acos(1 - 3e-16)
            todo.append(('arc', dict(start=132.34614912707576 - 34.0372645125598j,
                                     radius=43.40627831336215 + 86.8125566267243j, rotation=6.139591554618287e-06,
                                     large_arc=False, sweep=True, end=132.18097432261396 - 26.471051677633955j),
                         'corpus/start-on-extreme'))
            # hand-picked: a teardrop cubic loop (start == end) between two lines: M 0,0 L 2,0 C 6,5 -2,5 2,0 L 4,0
            todo.append(('path', [('line', [0j, 2 + 0j]), ('cubic', [2 + 0j, 6 + 5j, -2 + 5j, 2 + 0j]),
                                  ('line', [2 + 0j, 4 + 0j])], 'corpus/teardrop-loop'))
            # hand-picked: ordinary cubics with interior x- and y-extrema drawn in tiny and in huge user units
            for sc, nm in ((2.0 ** -17, 'tiny'), (2.0 ** -27, 'tiny'), (2.0 ** 27, 'huge')):
                todo.append(('cubic', [p * sc for p in (0j, 3 + 4j, -2 + 4j, 1 + 0j)], 'corpus/loop@%s-units' % nm))
                todo.append(('path', [('line', [-1 * sc + 0j, 0j]), ('cubic', [p * sc for p in (0j, 3 + 4j, -2 + 4j, 1 + 0j)]),
                                      ('quad', [p * sc for p in (1 + 0j, 2 - 3j, 3 + 0j)])], 'corpus/path@%s-units' % nm))
            # always first: arcs reaching beyond +-450 degrees (k = +-3), then a random family of the same class
            # drawn from its own stream (so that its size does not depend on the main case stream)
            todo[:0] = wide_arc_corpus()
            wrng = common.mkrng(seed, 'C08-wide-arcs')
            for _ in range(48 if tier == 'quick' else 1000):
                d, m = gen_wide_arc(wrng)
                todo.append(('arc', d, m))
            for _ in range(n):
                todo.append(gen_case(rng))
        cases, meta = [], []
        modes, kinds, arc_cross, nontrivial = {}, {}, {}, set()
        evaluations = 0
        for kind, data, mode in todo:
            kinds[kind] = kinds.get(kind, 0) + 1
            key = kind + ':' + mode
            modes[key] = modes.get(key, 0) + 1
            try:
                if kind == 'path':
                    segs = [make_seg(k, d) for k, d in data]
                    path = Path(*segs)
                    box = tuple(float(v) for v in path.bbox())
                    bbs = [tuple(float(v) for v in s.bbox()) for s in segs]
                    term = 'CPath %s %s' % (coq_list([box_term(b) for b in bbs]), box_term(box))
                    size = max(seg_size(k, d) for k, d in data)
                    sercase = {'kind': 'path', 'segments': [ser(k, d) for k, d in data]}
                    oi = {}
                else:
                    if kind == 'line' and data[0] == data[1]:
                        pass   # a zero-length Line still has a bbox
                    term, box, seg, oi = observe(kind, data)
                    segs = [seg]
                    size = seg_size(kind, data)
                    sercase = ser(kind, data)
                    if kind == 'arc':
                        c = arc_extremes_crossed(seg)
                        arc_cross[c] = arc_cross.get(c, 0) + 1
            except Exception as e:
                rep.violation('implementation raised %s computing bbox()' % type(e).__name__,
                              {'kind': 'exception', 'case': ser(kind, data) if kind != 'path' else
                               {'kind': 'path', 'segments': [ser(k, d) for k, d in data]}, 'error': repr(e)},
                              key='impl-exception-%s' % kind)
                continue
            cases.append(term); meta.append((kind, mode, sercase, box, segs, size, oi))
            evaluations += 1
            if box[0] < box[1] or box[2] < box[3]:
                nontrivial.add(json.dumps(sercase, sort_keys=True))
        okdef = OKDEF % {'atol': bf(atol), 'rtol': bf(rtol), 'fixed': common.coq_bool(fixed), 'stable': common.coq_bool(stable)}
        fails, errors = common.run_cases(tmp, 'From SVP Require Import Base.BigF.\n', 'ccase', okdef, cases, shard=40)
        for e in errors:
            rep.violation('correspondence case file failed to evaluate', {'kind': 'cases', 'error': e},
                          found_input=False, key='cases-error')
        failed_idx = {i: c for i, c in fails}
        # the property on the implementation, every case
        nprop = 0
        vkeys = {}
        for i, (kind, mode, sercase, box, segs, size, oi) in enumerate(meta):
            res = impl_property(segs, box, size)
            nprop += 1
            if res is not None:
                what, detail = res
                key = 'bbox-%s-%s' % (what, kind)
                if has_tiny_denom(sercase) and not stable:      # the pinned closed form only
                    key = 'bbox-cubic-tiny-denom-cancellation'
                elif arc_endpoint_mismatch(segs, size):
                    key = 'bbox-arc-endpoint-mismatch'
                vkeys[key] = vkeys.get(key, 0) + 1
                rep.violation('C08: %s bbox() is %s: %s' % (kind, what.replace('-', ' '), detail),
                              {'kind': 'property', 'case': sercase, 'bbox': [common.fhex(v) for v in box],
                               'mode': mode, 'detail': detail, 'how': './check C08 --replay <this file>'},
                              key=key)
            elif i in failed_idx:
                key = 'corr-%s' % kind
                if has_tiny_denom(sercase) and not stable:
                    key = 'bbox-cubic-tiny-denom-cancellation'
                vkeys[key] = vkeys.get(key, 0) + 1
                rep.violation('C08: %s (difference above 1e-9*size although 257 samples are inside and the sides '
                              'are attained to 1e-7*size)' % OBS[failed_idx[i]],
                              {'kind': 'correspondence', 'case': sercase, 'bbox': [common.fhex(v) for v in box],
                               'mode': mode, 'oracle': oi, 'how': './check C08 --replay <this file>'},
                              key=key)
        rep.cov['violation_keys'] = vkeys
        rep.cov['evaluations'] = evaluations + nprop
        rep.cov['traces_validated_against_impl'] = len(cases)
        rep.cov['distinct_nontrivial'] = len(nontrivial)
        rep.cov['rule'] = ('segments / paths from the mode pools below; non-trivial = distinct input whose box has positive '
                           'extent in at least one direction; every case: implementation 4-tuple vs Model/Extrema.v in '
                           '120-bit bigfloats inside Coq (tol 1e-9*size, Line and Path exact) AND 257 samples + golden-section '
                           'refinement of every sampled local extremum inside the box (1e-9*size) with each side attained (1e-7*size)')
        rep.cov['input_distribution'] = {'kinds': kinds, 'modes': modes, 'arc_axis_extremes_crossed': arc_cross}
        rep.cov['samples'] = [{'case': m[2], 'bbox': list(m[3])} for m in meta[:3]]
        if info['agree_failed'] and not rep.violations:
            rep.violation('agreement lemma(s) %s no longer check: generated code differs from the model'
                          % info['agree_failed'],
                          {'kind': 'agreement', 'lemmas': info['agree_failed'], 'file': 'coq/GenAgree/Extrema.v',
                           'messages': info.get('agree_msgs', {})}, found_input=False, key='agree')
    rep.assumptions += ['np.roots is an oracle: its output is data of the correspondence check; the theorems assume it '
                        'lists every real root in [0,1] and that no two surviving roots are isclose',
                        'Arc derived parameters (theta, delta, phi, center) are inputs (property C04)',
                        '120-bit bigfloat evaluation of the model (Base/BigF.v) is accurate far below 1e-9*size']
