"""Shared pieces of the C11 / C12 harnesses: segment descriptions, generators of
segment pairs in constructed configurations (crossing through a common point
with known parameters, touching, disjoint, near-miss), guarded calls of the
implementation, the np.roots wrapper, Coq literal printers for Model/Isect.v."""
import math, cmath, signal, warnings
from fractions import Fraction
import common
from common import qc, cq, bf, cbf, coq_list

KINDS = ['L', 'Q', 'C', 'A']
KNAME = {'L': 'Line', 'Q': 'Quadratic', 'C': 'Cubic', 'A': 'Arc'}


# ------------------------------------------------------------ timeouts
class Timeout(Exception):
    pass


def _alarm(*a):
    raise Timeout()


def guarded(f, secs=60):
    """run f() under signal.alarm; returns ('ok', value) | ('timeout', None) | ('exc', exception)"""
    old = signal.signal(signal.SIGALRM, _alarm)
    signal.alarm(secs)
    try:
        return 'ok', f()
    except Timeout:
        return 'timeout', None
    except Exception as e:        # noqa
        return 'exc', e
    finally:
        signal.alarm(0)
        signal.signal(signal.SIGALRM, old)


# ------------------------------------------------------------ segments
def mkseg(d):
    from svgpathtools import Line, QuadraticBezier, CubicBezier, Arc
    k = d[0]
    if k == 'L': return Line(d[1], d[2])
    if k == 'Q': return QuadraticBezier(d[1], d[2], d[3])
    if k == 'C': return CubicBezier(d[1], d[2], d[3], d[4])
    return Arc(d[1], d[2], d[3], d[4], d[5], d[6])


def desc_of(seg):
    """description tuple of a segment object"""
    from svgpathtools import Line, QuadraticBezier, CubicBezier
    if isinstance(seg, Line): return ('L', complex(seg.start), complex(seg.end))
    if isinstance(seg, QuadraticBezier): return ('Q', complex(seg.start), complex(seg.control), complex(seg.end))
    if isinstance(seg, CubicBezier):
        return ('C', complex(seg.start), complex(seg.control1), complex(seg.control2), complex(seg.end))
    return ('A', complex(seg.start), complex(seg.radius), float(seg.rotation), bool(seg.large_arc), bool(seg.sweep),
            complex(seg.end))


def desc_hex(d):
    out = [d[0]]
    for x in d[1:]:
        if isinstance(x, bool): out.append(x)
        elif isinstance(x, complex): out.append(common.chex(x))
        else: out.append(common.fhex(x))
    return out


def desc_unhex(h):
    out = [h[0]]
    for x in h[1:]:
        if isinstance(x, bool): out.append(x)
        elif isinstance(x, list): out.append(complex(float.fromhex(x[0]), float.fromhex(x[1])))
        else: out.append(float.fromhex(x))
    return tuple(out)


def arc_kind(d):
    """sub-kind of an arc description: circular/elliptic, rotated or not"""
    if d[0] != 'A': return ''
    circ = d[2].real == d[2].imag
    return ('circ' if circ else 'ell') + ('-rot' if d[3] != 0 else '')


def is_circ_unrot(d):
    return d[0] == 'A' and d[2].real == d[2].imag and d[3] == 0


def arc_branch(d1, d2):
    """which branch of Arc.intersect serves the pair"""
    a, o = (d1, d2) if d1[0] == 'A' else (d2, d1)
    if o[0] == 'A':
        return 'circle-circle' if is_circ_unrot(a) and is_circ_unrot(o) else 'arc-arc-subdivision'
    if o[0] == 'L' and a[3] == 0:
        return 'arc-line-algebraic'
    return 'arc-u1transform'


def seg_size(seg):
    """extent of a segment: largest distance between its defining points"""
    from svgpathtools import Arc
    if isinstance(seg, Arc):
        r = max(seg.radius.real, seg.radius.imag)
        return max(abs(seg.end - seg.start), 2 * r)
    pts = seg.bpoints()
    return max(abs(a - b) for a in pts for b in pts)


def pair_size(s1, s2):
    return max(seg_size(s1), seg_size(s2))


# Coq terms ---------------------------------------------------------------
def seg_term(seg, num=cq, real=qc):
    from svgpathtools import Line, QuadraticBezier, CubicBezier, Arc
    if isinstance(seg, Line): return '(SLine %s %s)' % (num(seg.start), num(seg.end))
    if isinstance(seg, QuadraticBezier):
        return '(SQuad %s %s %s)' % (num(seg.start), num(seg.control), num(seg.end))
    if isinstance(seg, CubicBezier):
        return '(SCubic %s %s %s %s)' % (num(seg.start), num(seg.control1), num(seg.control2), num(seg.end))
    return '(SArc (mkArc %s %s %s %s %s %s %s %s %s))' % (
        num(seg.start), num(seg.radius), real(seg.rotation), common.coq_bool(seg.large_arc),
        common.coq_bool(seg.sweep), num(seg.end), num(seg.center), real(seg.theta), real(seg.delta))


def pairs_term(l, real=qc):
    return coq_list(['(%s, %s)' % (real(float(a)), real(float(b))) for a, b in l])


# ------------------------------------------------------------ generators
def rnd_c(rng, scale):
    return complex(rng.uniform(-scale, scale), rng.uniform(-scale, scale))


def unit(rng):
    a = rng.uniform(0, 2 * math.pi)
    return complex(math.cos(a), math.sin(a))


def gen_scale(rng):
    return rng.choice([1.0, 1.0, 10.0, 100.0, 100.0, 1000.0, 0.01])


def random_arc(rng, scale, sub=None):
    """a valid Arc description; sub in {'circ','ell','circ-rot','ell-rot'} or None"""
    sub = sub or rng.choice(['circ', 'ell', 'circ-rot', 'ell-rot'])
    for _ in range(50):
        s = rnd_c(rng, scale)
        e = s + unit(rng) * rng.uniform(0.3, 1.5) * scale
        half = abs(e - s) / 2
        rx = half * rng.uniform(1.05, 3.0)
        ry = rx if sub.startswith('circ') else half * rng.uniform(1.05, 3.0)
        rot = rng.choice([15.0, 30.0, 45.0, 77.0, -60.0, 120.0]) if sub.endswith('rot') else 0.0
        d = ('A', s, complex(rx, ry), rot, rng.random() < 0.5, rng.random() < 0.5, e)
        try:
            a = mkseg(d)
        except Exception:
            continue
        # keep the description of what was actually built (radius may have been scaled)
        return ('A', a.start, a.radius, a.rotation, a.large_arc, a.sweep, a.end)
    raise RuntimeError('no arc')


def random_seg(rng, kind, scale, arc_sub=None):
    if kind == 'A':
        return random_arc(rng, scale, arc_sub)
    n = {'L': 2, 'Q': 3, 'C': 4}[kind]
    while True:
        pts = [rnd_c(rng, scale) for _ in range(n)]
        if kind == 'L' and abs(pts[0] - pts[1]) < 0.05 * scale:
            continue
        return (kind,) + tuple(pts)


def bezier_through(rng, kind, P, t, d, scale):
    """Line/Quadratic/Cubic description passing through P at parameter t with
    tangent roughly along the unit vector d"""
    L = scale * rng.uniform(0.4, 1.6)
    if kind == 'L':
        return ('L', P - t * L * d, P + (1 - t) * L * d)
    n = d * 1j
    if kind == 'Q':
        s = P - t * L * d + n * rng.uniform(-0.3, 0.3) * L
        e = P + (1 - t) * L * d + n * rng.uniform(-0.3, 0.3) * L
        c = (P - (1 - t) ** 2 * s - t ** 2 * e) / (2 * t * (1 - t))
        return ('Q', s, c, e)
    s = P - t * L * d + n * rng.uniform(-0.3, 0.3) * L
    e = P + (1 - t) * L * d + n * rng.uniform(-0.3, 0.3) * L
    c1 = s + (d * rng.uniform(0.1, 0.6) + n * rng.uniform(-0.5, 0.5)) * L
    c2 = (P - (1 - t) ** 3 * s - 3 * (1 - t) ** 2 * t * c1 - t ** 3 * e) / (3 * (1 - t) * t ** 2)
    return ('C', s, c1, c2, e)


def arc_t_of_point(arc, P):
    """parameter of P on the arc's ellipse from the stored parameterisation, or None"""
    z = (P - arc.center) / cmath.exp(1j * math.radians(arc.rotation))
    u = math.degrees(math.atan2(z.imag / arc.radius.imag, z.real / arc.radius.real))
    if arc.delta == 0:
        return None
    if arc.delta > 0:
        t = ((u - arc.theta) % 360.0) / arc.delta
    else:
        t = -(((arc.theta - u) % 360.0)) / arc.delta
    return t


def arc_through(rng, P, scale, sub, tlo=0.1, thi=0.9):
    """an Arc description whose arc passes through P at an interior parameter;
    returns (desc, t) or None"""
    for _ in range(40):
        rx = scale * rng.uniform(0.3, 1.5)
        ry = rx if sub.startswith('circ') else scale * rng.uniform(0.3, 1.5)
        rot = rng.choice([15.0, 30.0, 45.0, 77.0, -60.0, 120.0]) if sub.endswith('rot') else 0.0
        R = cmath.exp(1j * math.radians(rot))
        us = math.radians(rng.uniform(0, 360))
        a = math.radians(rng.uniform(25, 120)); b = math.radians(rng.uniform(25, 120))
        def pt(u, c):
            return c + R * complex(rx * math.cos(u), ry * math.sin(u))
        c = P - R * complex(rx * math.cos(us), ry * math.sin(us))
        s, e = pt(us - a, c), pt(us + b, c)
        if rng.random() < 0.5:
            s, e = e, s
        for large in (False, True):
            for sweep in (False, True):
                d = ('A', s, complex(rx, ry), rot, large, sweep, e)
                try:
                    arc = mkseg(d)
                except Exception:
                    continue
                if abs(arc.center - c) > 1e-7 * scale or abs(arc.radius - complex(rx, ry)) > 1e-9 * scale:
                    continue
                t = arc_t_of_point(arc, P)
                if t is None or not (tlo < t < thi):
                    continue
                if abs(arc.point(t) - P) > 1e-9 * scale:
                    continue
                return ('A', arc.start, arc.radius, arc.rotation, arc.large_arc, arc.sweep, arc.end), t
    return None


def tangent_angle_deg(s1, t1, s2, t2):
    d1, d2 = s1.derivative(t1), s2.derivative(t2)
    if abs(d1) == 0 or abs(d2) == 0:
        return 0.0
    c = (d1.real * d2.real + d1.imag * d2.imag) / (abs(d1) * abs(d2))
    a = math.degrees(math.acos(max(-1.0, min(1.0, c))))
    return min(a, 180.0 - a)


def crossing_pair(rng, k1, k2, scale=None, sub1=None, sub2=None, min_angle=6.0):
    """two segment descriptions of kinds k1,k2 through a common point, with the
    parameters of that point; returns (d1, d2, t1, t2, P, angle) or None"""
    scale = scale or gen_scale(rng)
    for _ in range(60):
        t1 = rng.uniform(0.08, 0.92); t2 = rng.uniform(0.08, 0.92)
        if k1 == 'A':
            d1 = random_arc(rng, scale, sub1)
            s1 = mkseg(d1); P = s1.point(t1)
        else:
            P = rnd_c(rng, scale)
            d1 = bezier_through(rng, k1, P, t1, unit(rng), scale)
            s1 = mkseg(d1)
        if k2 == 'A':
            r = arc_through(rng, P, scale, sub2 or rng.choice(['circ', 'ell', 'circ-rot', 'ell-rot']))
            if r is None:
                continue
            d2, t2 = r
        else:
            tan1 = s1.derivative(t1)
            if abs(tan1) == 0:
                continue
            ang = math.radians(rng.choice([1, -1]) * rng.uniform(max(min_angle, 8.0), 90.0))
            dirn = tan1 / abs(tan1) * cmath.exp(1j * ang)
            d2 = bezier_through(rng, k2, P, t2, dirn, scale)
        s2 = mkseg(d2)
        if abs(s1.point(t1) - s2.point(t2)) > 1e-9 * scale:
            continue
        a = tangent_angle_deg(s1, t1, s2, t2)
        if a < min_angle:
            continue
        if d1 == d2:
            continue
        return d1, d2, t1, t2, P, a
    return None


def shift_desc(d, v):
    if d[0] == 'A':
        return ('A', d[1] + v, d[2], d[3], d[4], d[5], d[6] + v)
    return (d[0],) + tuple(p + v for p in d[1:])


def config_pair(rng, k1, k2, config, sub1=None, sub2=None):
    """(d1, d2, meta) for a configuration in crossing/touching/disjoint/nearmiss/random"""
    scale = gen_scale(rng)
    if config == 'random':
        return random_seg(rng, k1, scale, sub1), random_seg(rng, k2, scale, sub2), {'scale': scale}
    if config == 'disjoint':
        d1 = random_seg(rng, k1, scale, sub1)
        d2 = shift_desc(random_seg(rng, k2, scale, sub2), (6 + rng.random()) * scale * unit(rng))
        return d1, d2, {'scale': scale}
    r = crossing_pair(rng, k1, k2, scale, sub1, sub2)
    if r is None:
        return None
    d1, d2, t1, t2, P, a = r
    meta = {'scale': scale, 't1': t1, 't2': t2, 'angle': a}
    if config == 'crossing':
        return d1, d2, meta
    # touching: the second segment ENDS on the first one (T-junction);
    # nearmiss: it stops short of it by gap*scale
    s2 = mkseg(d2)
    if k2 == 'A':
        # move the arc so that its end point is P (touch) or misses by the gap
        target = P
        if config == 'nearmiss':
            gap = 10 ** rng.uniform(-7, -3)
            n = mkseg(d1).derivative(t1); n = n / abs(n) * 1j
            target = P + gap * scale * n
            meta['gap'] = gap
        d2 = shift_desc(d2, target - s2.end)
        return d1, d2, meta
    try:
        cr = s2.cropped(0.0, t2)
    except Exception:
        return None
    pts = list(cr.bpoints())
    if config == 'nearmiss':
        gap = 10 ** rng.uniform(-7, -3)
        back = pts[-2] - pts[-1]
        if abs(back) == 0:
            return None
        # pull the whole piece back along its end tangent by the gap
        v = back / abs(back) * gap * scale
        pts = [p + v for p in pts]
        meta['gap'] = gap
    else:
        pts[-1] = P
    return d1, (d2[0],) + tuple(pts), meta


# ------------------------------------------------------------ np.roots oracle
class RootsSpy:
    """records every np.roots(p) call made by the implementation"""
    def __enter__(self):
        import numpy
        self.np = numpy
        self.orig = numpy.roots
        self.calls = []
        def spy(p):
            r = self.orig(p)
            self.calls.append(([complex(c) for c in numpy.atleast_1d(p)], [complex(z) for z in numpy.atleast_1d(r)]))
            return r
        numpy.roots = spy
        return self

    def __exit__(self, *a):
        self.np.roots = self.orig


def norm_result(r):
    """list of (float, float) from what intersect returned (tuples or lists, numpy scalars)"""
    return [(float(a), float(b)) for a, b in r]


# ------------------------------------------------------------ code variants
_VARIANTS = None


def detect_variants():
    """Which variant of four known-defective places the implementation under test
    has (False = pinned, True = repaired), probed through behaviour.  The model
    flags of Model/Isect.v (polyroots01_of fixed / rm_fixed / idx_fixed) follow it,
    and the keys of the registered findings are only assigned to the pinned variant,
    so that a regression of a repaired place is not masked."""
    global _VARIANTS
    if _VARIANTS is not None:
        return _VARIANTS
    import numpy as np
    from cmath import phase
    from svgpathtools import QuadraticBezier, CubicBezier, Arc, Path, Line
    from svgpathtools.polytools import polyroots01
    v, notes = {}, []
    # polyroots de-duplication: [.9,.6,.600001,.4,.2]
    orig = np.roots
    try:
        np.roots = lambda p: np.array([.9, .6, .600001, .4, .2], dtype=complex)
        got = [float(x) for x in polyroots01([1.0, 0, 0, 0, 0, 0])]
    finally:
        np.roots = orig
    if got == [.9, .6, .4, .2]:
        v['dedup_fixed'] = True
    elif got == [.9, .6, .600001, .4]:
        v['dedup_fixed'] = False
    else:
        v['dedup_fixed'] = True
        notes.append('polyroots de-duplication probe returned %s: neither known variant' % got)
    # redundancy loop of bezier_intersections (remove-while-iterating pinned / marking repaired).
    # Two witnesses: the old one distinguishes on trees with the open box test (1 pair pinned,
    # 2 repaired; 3 on both variants since the boxes are closed), the new one on the current code:
    # Cubic.intersect(Quadratic) finds 1 of the 2 crossings when pairs are removed from the list
    # being iterated, 2 when they are marked
    st, r = guarded(lambda: QuadraticBezier(54j, 18 + 54j, 36 + 45j).intersect(QuadraticBezier(22j, 18 + 94j, 36 + 13j)), 20)
    n_old = len(r) if st == 'ok' else -1
    wa = QuadraticBezier(4 + 73j, 30 + 61j, 90 + 45j)
    wb = CubicBezier(50 + 59j, 27 + 25j, 35 + 25j, 38 + 71j)
    st, r = guarded(lambda: wb.intersect(wa), 20)
    n_new = len(r) if st == 'ok' else -1
    st, r = guarded(lambda: wa.intersect(wb), 20)
    n_new_swapped = len(r) if st == 'ok' else -1
    if n_old == 1 or n_new == 1 or n_new != n_new_swapped:
        v['rm_fixed'] = False
    else:
        v['rm_fixed'] = True
        if n_new != 2:
            notes.append('bezier_intersections redundancy probes returned %s / %s pairs: neither known variant' % (n_old, n_new))
    # Arc.phase2t for delta < 0
    try:
        arc = Arc(0j, 1 + 1j, 0, False, False, 1 + 1j)
        t = arc.phase2t(phase(arc.u1transform(arc.point(0.3))))
        v['phase2t_fixed'] = bool(abs(t - 0.3) < 1e-9)
        if not v['phase2t_fixed'] and not t < 0:
            notes.append('phase2t probe returned %r: neither known variant' % t)
    except Exception as e:
        v['phase2t_fixed'] = False
        notes.append('phase2t probe raised %r' % e)
    # Path.intersect: T from index() or from the position
    try:
        p = Path(Line(0, 3), Line(3, 3 + 4j), Line(3 + 4j, 0), Line(0, 3))
        res = p.intersect(Path(Line(1 - 1j, 1 + 1j)), tol=0)
        Ts = sorted(float(e[0][0]) for e in res)
        v['idx_fixed'] = len(Ts) == 2 and abs(Ts[1] - 13 / 15) < 1e-12
        if not v['idx_fixed'] and not (len(Ts) == 2 and abs(Ts[1] - 1 / 15) < 1e-12):
            notes.append('Path.intersect index probe returned T1 = %s: neither known variant' % Ts)
    except Exception as e:
        v['idx_fixed'] = False
        notes.append('Path.intersect index probe raised %r' % e)
    # bezier_intersections: box overlap test / stopping rule, relative resolution, merging
    try:
        from svgpathtools.bezier import boxes_intersect
        v['bx_fixed'] = bool(boxes_intersect((0, 1, 0, 0), (0, 1, 0, 0)))
    except Exception as e:
        v['bx_fixed'] = False
        notes.append('boxes_intersect probe raised %r' % e)
    sc = 1e-4
    st, r = guarded(lambda: QuadraticBezier(54j * sc, (18 + 54j) * sc, (36 + 45j) * sc).intersect(
        QuadraticBezier(22j * sc, (18 + 94j) * sc, (36 + 13j) * sc)), 20)
    v['rel_fixed'] = bool(st == 'ok' and r and min(abs(float(a) - 1 / 3) for a, b in r) < 1e-5)
    st, r = guarded(lambda: QuadraticBezier(15.324665862845563 + 15.884670584687983j, 22.19462280287324 + 42.67661440069012j,
                                            47.19486262028253 + 56.61845286837022j).intersect(
        QuadraticBezier(-53.19202893744374 - 26.296810658075483j, 1.6174496564117706 - 31.592201899846756j,
                        30.612474610639474 + 54.356993597602084j)), 20)
    n = len(r) if st == 'ok' else -1
    v['mg_fixed'] = (n == 2)
    if n < 2:
        notes.append('merge probe returned %s pairs for 2 crossings' % n)
    # Path.intersect joint de-duplication: by point (pinned) or by point and place
    try:
        p = Path(Line(0, 3), Line(3, 3 + 4j), Line(3 + 4j, 0), Line(0, 3))
        res = p.intersect(Path(Line(1 - 1j, 1 + 1j)))
        v['jd_fixed'] = len(res) == 2
    except Exception as e:
        v['jd_fixed'] = False
        notes.append('joint de-duplication probe raised %r' % e)
    # Arc.intersect(Line), algebraic branch: every (x root, y root) combination tried (pinned)
    # or each x root paired with its own y root
    try:
        arc = Arc(49.10460182528382 + 67.33973585572906j, 74.45441113047303 + 74.45441113047303j, 0.0, True, True,
                  1.1285834236142733 - 11.49066280063579j)
        r = arc.intersect(Line(16.34396621855292 - 85.40089376229798j, 16.343964195274165 + 300.1465124459535j))
        v['al_fixed'] = len(r) == 1
        if len(r) not in (1, 2):
            notes.append('arc-line pairing probe returned %d pairs' % len(r))
    except Exception as e:
        v['al_fixed'] = False
        notes.append('arc-line pairing probe raised %r' % e)
    v['notes'] = notes
    _VARIANTS = v
    return v


def pinned_key(key, fixed_flag):
    """the registered key for the pinned variant; a distinct one once repaired"""
    return key if not fixed_flag else key + '-after-repair'


def is_dyadic(t, bits=12):
    x = t * (1 << bits)
    return x == int(x)


# ------------------------------------------------------------ touching control boxes
def _mono(kind, A, B, rng):
    """a Line/Quadratic/Cubic from A to B whose control points lie in the box of
    A and B, monotone in both coordinates (so the control-polygon box IS that
    box); integer offsets, hence exactly representable"""
    if kind == 'L':
        return ('L', A, B)
    dx, dy = B.real - A.real, B.imag - A.imag
    def inner(f, g):
        return complex(A.real + math.floor(abs(dx) * f) * (1 if dx >= 0 else -1),
                       A.imag + math.floor(abs(dy) * g) * (1 if dy >= 0 else -1))
    if kind == 'Q':
        return ('Q', A, inner(rng.random(), rng.random()), B)
    f1, f2 = sorted([rng.random(), rng.random()]); g1, g2 = sorted([rng.random(), rng.random()])
    return ('C', A, inner(f1, g1), inner(f2, g2), B)


def _arch(kind, x0, x1, c, h, rng):
    """an arch from (x0,c) to (x1,c) whose control points are h above (h<0: below) the chord"""
    if kind == 'Q':
        return ('Q', complex(x0, c), complex((x0 + x1) // 2, c + h), complex(x1, c))
    w = x1 - x0
    return ('C', complex(x0, c), complex(x0 + w // 4, c + h), complex(x1 - w // 4, c + h), complex(x1, c))


def box_touch_pair(rng, k1, k2):
    """two Bezier segments (kinds in L/Q/C) whose control-polygon boxes TOUCH exactly
    on an edge, with the contact point of the curves on that edge; integer
    coordinates times a power of two.  Returns (d1, d2, meta) or None."""
    s = rng.choice([1.0, 1.0, 0.25, 8.0, 64.0])
    ri = rng.randint
    px, py = ri(-40, 40), ri(-40, 40)
    P = complex(px, py)
    shapes = ['chain', 'chain-overlap', 'leave-axis']
    if 'L' not in (k1, k2) or k1 != k2:
        shapes.append('chord')
    shape = rng.choice(shapes)
    if shape == 'chord' and not (k1 == 'L' and k2 == 'L'):
        x0 = px; x1 = px + 4 * ri(2, 12); h = ri(2, 30)
        m = rng.choice([0, 0, ri(1, 9)])
        if k1 == 'L':
            d1 = ('L', complex(x0 - m, py), complex(x1 + m, py)); d2 = _arch(k2, x0, x1, py, h, rng)
        elif k2 == 'L':
            d1 = _arch(k1, x0, x1, py, h, rng); d2 = ('L', complex(x0 - m, py), complex(x1 + m, py))
        else:
            d1 = _arch(k1, x0, x1, py, h, rng); d2 = _arch(k2, x0, x1, py, -ri(2, 30), rng)
        if rng.random() < 0.5:      # the same with x and y exchanged
            d1 = (d1[0],) + tuple(complex(z.imag, z.real) for z in d1[1:])
            d2 = (d2[0],) + tuple(complex(z.imag, z.real) for z in d2[1:])
        contacts = 2
    else:
        a, b, c, d = ri(2, 40), ri(2, 40), ri(2, 40), ri(2, 40)
        A = complex(px - a, py - b)
        if shape == 'chain':
            B = complex(px + c, py + d)                 # boxes meet in the corner P only
        elif shape == 'chain-overlap':
            B = complex(px + c, py - d)                 # x-ranges touch, y-ranges overlap
        else:
            B = complex(px, py + rng.choice([-1, 1]) * d)   # axis-parallel departure from P
            if k2 != 'L':
                B = complex(px + c, py - d)
        d1 = _mono(k1, A, P, rng)
        d2 = _mono(k2, P, B, rng)
        if shape == 'leave-axis' and k2 == 'L':
            d2 = ('L', P, B)
        if rng.random() < 0.5:
            d1 = (d1[0],) + tuple(reversed(d1[1:]))     # contact at t1 = 0 instead of 1
        if rng.random() < 0.5:
            d2 = (d2[0],) + tuple(reversed(d2[1:]))
        if rng.random() < 0.5:
            d1 = (d1[0],) + tuple(complex(z.imag, z.real) for z in d1[1:])
            d2 = (d2[0],) + tuple(complex(z.imag, z.real) for z in d2[1:])
        contacts = 1
    d1 = (d1[0],) + tuple(z * s for z in d1[1:]); d2 = (d2[0],) + tuple(z * s for z in d2[1:])
    if d1 == d2 or (d1[0] == 'L' and d1[1] == d1[2]) or (d2[0] == 'L' and d2[1] == d2[2]):
        return None
    return d1, d2, {'config': 'box-touch', 'shape': shape, 'contacts': contacts, 'scale': 40 * s}


# ------------------------------------------------------------ integer-grid Bezier pairs
# witnesses of the remove-while-iterating loop on the current (closed-box) code: with the loop
# pinned the second operand order loses one of the two crossings
SKIP_WITNESSES = [
    (('Q', 4 + 73j, 30 + 61j, 90 + 45j), ('C', 50 + 59j, 27 + 25j, 35 + 25j, 38 + 71j)),
    (('C', 54 + 62j, 81 + 57j, 91 + 30j, 22 + 52j), ('C', 67 + 4j, 18 + 22j, 94 + 100j, 47 + 75j)),
    (('Q', 42 + 26j, 16 + 93j, 72 + 16j), ('Q', 80 + 100j, 52 + 13j, 21 + 55j)),
]


def integer_bezier_pair(rng):
    """a Quadratic/Cubic pair with integer control points in [0,100]^2 (times a power of two):
    sub-curve boxes coincide exactly along shared coordinates, several crossings are common, and
    the redundancy marking of bezier_intersections fires often"""
    s = rng.choice([1.0, 1.0, 0.125, 4.0])
    def mk(k):
        n = 3 if k == 'Q' else 4
        return (k,) + tuple(complex(rng.randint(0, 100), rng.randint(0, 100)) * s for _ in range(n))
    d1, d2 = mk(rng.choice('QC')), mk(rng.choice('QC'))
    if d1 == d2:
        return None
    return d1, d2, {'config': 'integer-grid', 'scale': 100 * s}
