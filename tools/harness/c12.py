"""C12 — every transversal crossing is reported, exactly once.
Theorems: coq/Props/C12.v (models: coq/Model/Isect.v).

Checks (all comparisons computed INSIDE Coq on the exact binary64 values):
  A  constructed crossings: two segments built through a common point with known
     parameters (t1*,t2*) and tangent angle >= 6 degrees, all ordered kind pairs
     (two arcs only when both are circular and unrotated), plus two structured
     families (axis-parallel straight curves given as Quadratic/Cubic; parabola
     pairs with the same x(t) and two rational crossing parameters): the crossing
     must be reported within 1e-4, once;
  B  exact crossing counts: Line/Bezier pairs in general position, the number of
     crossings is decided in Coq by Sturm sequences / Tarski queries over Q
     (Model/Isect.v crossing_count) and compared with len(result);
  C  Path.intersect: constructed crossings strictly inside segments appear once;
     for poly-lines the total number of entries equals the exact count;
  D  model tie: polyroots' de-duplication AS CODED (Model/Isect.v polyroots01_of)
     vs polytools.polyroots01 on root lists supplied through a wrapper around
     np.roots (clusters, permutations).
"""
import math, warnings, json, collections, itertools, os
from fractions import Fraction
import common
from common import qc, cq, bf, cbf, coq_list
from harness import isect_common as ic
from harness.c11 import Keyed, kinds_label, core_of, outcome, arcarc_tolerated

GEN_GROUPS = ['GenBoxes', 'GenIsect', 'GenBezierN']
AGREE = ['Isect.v']

OK_A = r'''
Definition casety : Type := (Qc * Qc * list (Qc * Qc))%type.
Definition e4 : Qc := @E4@.
Definition ok (c : casety) : nat :=
  let '(t1, t2, res) := c in
  let n := length (filter (fun uu => qclose e4 t1 (fst uu) && qclose e4 t2 (snd uu)) res) in
  match n with 0 => 1 | 1 => 0 | _ => 2 end.
'''

OK_E = r'''
(* case: the crossings that exist by construction (exact count), the pairs returned *)
Definition casety : Type := (list (Qc * Qc) * list (Qc * Qc))%type.
Definition e4 : Qc := @E4@.
Definition hits (e : Qc * Qc) (res : list (Qc * Qc)) : nat :=
  length (filter (fun uu => qclose e4 (fst e) (fst uu) && qclose e4 (snd e) (snd uu)) res).
Definition ok (c : casety) : nat :=
  let '(expected, res) := c in
  if existsb (fun e => Nat.eqb (hits e res) 0) expected then 1            (* a crossing is not reported *)
  else if existsb (fun e => Nat.ltb 1 (hits e res)) expected then 2       (* ... reported more than once *)
  else if Nat.eqb (length res) (length expected) then 0 else 3.           (* pairs that are no crossing *)
'''

OK_F = r'''
(* case: crossings certified from BOTH operand orders, the pairs one order returned *)
Definition casety : Type := (list (Qc * Qc) * list (Qc * Qc))%type.
Definition e4 : Qc := @E4@.
Definition hits (e : Qc * Qc) (res : list (Qc * Qc)) : nat :=
  length (filter (fun uu => qclose e4 (fst e) (fst uu) && qclose e4 (snd e) (snd uu)) res).
Definition ok (c : casety) : nat :=
  let '(expected, res) := c in
  if existsb (fun e => Nat.eqb (hits e res) 0) expected then 1 else 0.
'''

OK_B = r'''
From Bignums Require Import BigQ.
From SVP Require Import Model.Bezier Model.Isect Model.IsectExec.
Definition N := NumBQ.
Definition eps7 : bigQ := bqc 1 10000000.
(* case: control points of the curve, line start, line end, number of pairs returned,
   hints = approximate crossing parameters (only used to build certificates) *)
Definition casety : Type := (list (Cplx bigQ) * Cplx bigQ * Cplx bigQ * Z * list bigQ)%type.
(* a bracket [r-eps, r+eps] inside (0,1) on which the crossing polynomial changes
   sign and the foot point is strictly inside the segment at both ends *)
Definition bracket_ok (g h : list bigQ) (n2 r : bigQ) : bool :=
  let a := sub N r eps7 in let b := add N r eps7 in
  ltb N (zero N) a && ltb N b (one N)
  && ltb N (mul N (peval N g a) (peval N g b)) (zero N)
  && ltb N (zero N) (peval N h a) && ltb N (peval N h a) n2
  && ltb N (zero N) (peval N h b) && ltb N (peval N h b) n2.
Fixpoint separated (l : list bigQ) : bool :=
  match l with
  | a :: ((b :: _) as r) => ltb N (add N a (add N eps7 eps7)) b && separated r
  | _ => true
  end.
Definition ok (c : casety) : nat :=
  let '(bez, l0, l1, nobs, hints) := c in
  match crossing_count N bez l0 l1 with
  | None => 99                                   (* not in general position: nothing claimed *)
  | Some n =>
      let g := cross_poly N bez l0 l1 in let h := dot_poly N bez l0 l1 in
      let n2 := cnorm2 N (csub N l1 l0) in
      if negb (Z.eqb n (Z.of_nat (length hints)) && separated hints && forallb (bracket_ok g h n2) hints)
      then 98                                    (* count not confirmed by sign-change brackets: nothing claimed *)
      else if Z.eqb n nobs then 0 else if Z.ltb nobs n then 1 else 2
  end.
'''

OK_G = r'''
From Bignums Require Import BigQ.
From SVP Require Import Model.Bezier Model.Isect Model.IsectExec.
Definition N := NumBQ.
Definition eps7 : bigQ := bqc 1 10000000.
(* case: control points of the curve, line start, line end, number of pairs returned,
   hints = approximate crossing parameters (only used to build certificates) *)
(* nobs: the numbers of pairs returned by the four call forms *)
Definition casety : Type := (list (Cplx bigQ) * Cplx bigQ * Cplx bigQ * list Z * list bigQ)%type.
(* a bracket [r-eps, r+eps] inside (0,1) on which the crossing polynomial changes
   sign and the foot point is strictly inside the segment at both ends *)
Definition bracket_ok (g h : list bigQ) (n2 r : bigQ) : bool :=
  let a := sub N r eps7 in let b := add N r eps7 in
  ltb N (zero N) a && ltb N b (one N)
  && ltb N (mul N (peval N g a) (peval N g b)) (zero N)
  && ltb N (zero N) (peval N h a) && ltb N (peval N h a) n2
  && ltb N (zero N) (peval N h b) && ltb N (peval N h b) n2.
Fixpoint separated (l : list bigQ) : bool :=
  match l with
  | a :: ((b :: _) as r) => ltb N (add N a (add N eps7 eps7)) b && separated r
  | _ => true
  end.
Definition ok (c : casety) : nat :=
  let '(bez, l0, l1, nobs, hints) := c in
  match crossing_count N bez l0 l1 with
  | None => 99                                   (* not in general position: nothing claimed *)
  | Some n =>
      let g := cross_poly N bez l0 l1 in let h := dot_poly N bez l0 l1 in
      let n2 := cnorm2 N (csub N l1 l0) in
      if negb (Z.eqb n (Z.of_nat (length hints)) && separated hints && forallb (bracket_ok g h n2) hints)
      then 98                                    (* count not confirmed by sign-change brackets: nothing claimed *)
      else if forallb (Z.eqb n) nobs then 0 else if existsb (fun m => Z.ltb m n) nobs then 1 else 2
  end.
'''

OK_C = r'''
From Bignums Require Import BigQ.
From SVP Require Import Model.Bezier Model.Isect Model.IsectExec.
(* case: list of (line1, line2) segment pairs of two poly-lines, number of entries returned *)
Definition casety : Type := (list ((Cplx bigQ * Cplx bigQ) * (Cplx bigQ * Cplx bigQ)) * Z)%type.
Fixpoint total (l : list ((Cplx bigQ * Cplx bigQ) * (Cplx bigQ * Cplx bigQ))) : option Z :=
  match l with
  | [] => Some 0%Z
  | (a, b) :: r =>
      match crossing_count NumBQ [fst a; snd a] (fst b) (snd b), total r with
      | Some n, Some m => Some (n + m)%Z
      | _, _ => None
      end
  end.
Definition ok (c : casety) : nat :=
  let '(pairs, nobs) := c in
  match total pairs with
  | None => 99
  | Some n => if Z.eqb n nobs then 0 else if Z.ltb nobs n then 1 else 2
  end.
'''

OK_D = r'''
From SVP Require Import Model.Bezier Model.Isect.
Definition rtol5 : Qc := @RTOL@.
Definition atol8 : Qc := @ATOL@.
Definition casety : Type := (list (Cplx Qc) * list Qc)%type.
Definition ok (c : casety) : nat :=
  let '(raw, obs) := c in
  if lclose Qc_eq_bool (polyroots01_of NumQ @DEDUP@ rtol5 atol8 raw) obs then 0 else 1.
'''


def bq(x):
    fr = Fraction(x)
    return '(bqc (%d) %d)' % (fr.numerator, fr.denominator)


def cbq(z):
    z = complex(z)
    return '(%s, %s)' % (bq(z.real), bq(z.imag))


def degenerate_axis(d):
    """control polygon with zero width or zero height"""
    if d[0] == 'A':
        return False
    pts = d[1:]
    return len({p.real for p in pts}) == 1 or len({p.imag for p in pts}) == 1


arc_branch = ic.arc_branch


def miss_key(d1, d2, what, tt=None):
    """narrow key of a missed / duplicated constructed crossing"""
    core = core_of(d1, d2)
    var = ic.detect_variants()
    if core == 'subdivision':
        if what == 'missed' and (degenerate_axis(d1) or degenerate_axis(d2)):
            return ic.pinned_key('subdivision-prunes-zero-width-box', var['bx_fixed'])
        if what == 'missed' and tt is not None and (ic.is_dyadic(tt[0]) or ic.is_dyadic(tt[1])):
            # the crossing sits exactly on a subdivision boundary of one curve: the boxes of the
            # neighbouring sub-curves only TOUCH there (overlap width 0): same rule, touching flavour
            return ic.pinned_key('subdivision-prunes-zero-width-box', var['bx_fixed'])
        if what == 'duplicate':
            return ic.pinned_key('subdivision-duplicate-crossing', var['mg_fixed'])
        if what == 'missed':
            # registered for the pinned remove-while-iterating loop only
            return ic.pinned_key('subdivision-missed-crossing', var['rm_fixed'])
        return 'subdivision-%s-crossing' % what
    if core == 'arc':
        br = arc_branch(d1, d2)
        a = d1 if d1[0] == 'A' else d2
        if br == 'arc-u1transform' and what == 'missed':
            delta = ic.mkseg(a).delta
            if delta < 0:
                return ic.pinned_key('arc-u1transform-missed-negative-delta', var['phase2t_fixed'])
            return 'arc-u1transform-missed-positive-delta'
        return '%s-%s' % (br, what)
    return '%s-%s' % (core, what)


def replay_pair(d1, d2, extra):
    r = {'kind': 'pair', 'seg1': ic.desc_hex(d1), 'seg2': ic.desc_hex(d2), 'kinds': kinds_label(d1, d2),
         'core': core_of(d1, d2), 'seg1_repr': repr(ic.mkseg(d1)), 'seg2_repr': repr(ic.mkseg(d2)),
         'how': './check C12 --replay <this file>'}
    r.update(extra)
    return r


# ----------------------------------------------------------------- A
def straight_curve(rng, kind, P, t, horizontal, scale):
    """an axis-parallel straight segment written as a Quadratic / Cubic with
    equally spaced control points (so B(t) = s + t (e - s))"""
    L = scale * rng.uniform(0.5, 1.5)
    d = 1.0 if horizontal else 1j
    s, e = P - t * L * d, P + (1 - t) * L * d
    if kind == 'Q':
        return ('Q', s, (s + e) / 2, e)
    return ('C', s, s + (e - s) / 3, s + 2 * (e - s) / 3, e)


def aligned_parabolas(rng):
    """two quadratics with the same x(t); y1 - y2 = beta (t-r1)(t-r2), r1, r2 rational"""
    for _ in range(100):
        r1 = Fraction(rng.randint(1, 9), rng.choice([3, 5, 6, 7, 9, 10, 11]))
        r2 = Fraction(rng.randint(1, 9), rng.choice([3, 5, 6, 7, 9, 10, 11]))
        if not (0 < r1 < 1 and 0 < r2 < 1) or abs(r1 - r2) < Fraction(1, 10):
            continue
        ya = [Fraction(rng.randint(-6, 6)) for _ in range(3)]
        if ya[0] == ya[1] == ya[2]:
            continue
        beta = Fraction(rng.choice([-8, -4, -2, 2, 4, 8, 16]))
        a2 = ya[0] - 2 * ya[1] + ya[2]; a1 = 2 * (ya[1] - ya[0]); a0 = ya[0]
        b2, b1, b0 = a2 - beta, a1 + beta * (r1 + r2), a0 - beta * r1 * r2
        yb = [b0, b0 + b1 / 2, b0 + b1 + b2]
        den = 1
        for v in yb:
            den = den * v.denominator // math.gcd(den, v.denominator)
        W = Fraction(4)
        A = [complex(float(x * den), float(y * den)) for x, y in zip([0, W / 2, W], ya)]
        B = [complex(float(x * den), float(y * den)) for x, y in zip([0, W / 2, W], yb)]
        if max(abs(z) for z in A + B) > 1e4:
            continue
        return ('Q',) + tuple(A), ('Q',) + tuple(B), [float(r1), float(r2)]
    return None


def gen_A(rng, per, n_axis, n_aligned):
    # hand-picked: two parabolas crossing at t = 1/3 and t = 2/3; the pinned
    # remove-while-iterating loop loses the second crossing (Props/C12.v C12_subdiv_skip_refuted)
    out = [(('Q', 54j, 18 + 54j, 36 + 45j), ('Q', 22j, 18 + 94j, 36 + 13j),
            [(1 / 3, 1 / 3), (2 / 3, 2 / 3)], {'family': 'corpus:skip-pair'})]
    for k1 in ic.KINDS:
        for k2 in ic.KINDS:
            for i in range(per):
                sub1 = rng.choice(['circ', 'ell', 'circ-rot', 'ell-rot']) if k1 == 'A' else None
                sub2 = rng.choice(['circ', 'ell', 'circ-rot', 'ell-rot']) if k2 == 'A' else None
                if k1 == 'A' and k2 == 'A':
                    sub1 = sub2 = 'circ'
                try:
                    r = ic.crossing_pair(rng, k1, k2, None, sub1, sub2)
                except Exception:
                    r = None
                if r is None:
                    continue
                d1, d2, t1, t2, P, a = r
                out.append((d1, d2, [(t1, t2)], {'family': 'through-a-point', 'angle': a}))
    for i in range(n_axis):
        scale = ic.gen_scale(rng)
        P = ic.rnd_c(rng, scale); t1 = rng.uniform(0.15, 0.85); t2 = rng.uniform(0.15, 0.85)
        hor = rng.random() < 0.5
        k1, k2 = rng.choice(['Q', 'C']), rng.choice(['Q', 'C'])
        d1 = straight_curve(rng, k1, P, t1, hor, scale)
        ang = math.radians(rng.uniform(30, 150)) + (0 if hor else math.pi / 2)
        d2 = ic.bezier_through(rng, k2, P, t2, complex(math.cos(ang), math.sin(ang)), scale)
        if rng.random() < 0.5:
            out.append((d1, d2, [(t1, t2)], {'family': 'axis-parallel-straight-curve'}))
        else:
            out.append((d2, d1, [(t2, t1)], {'family': 'axis-parallel-straight-curve'}))
    for i in range(n_aligned):
        r = aligned_parabolas(rng)
        if r:
            out.append((r[0], r[1], [(r[2][0], r[2][0]), (r[2][1], r[2][1])], {'family': 'aligned-parabolas'}))
    return out


def run_A(rep, K, tmp, items, secs):
    cases, meta = [], []
    stats = collections.Counter()
    for d1, d2, crossings, m in items:
        s1, s2 = ic.mkseg(d1), ic.mkseg(d2)
        st, val = ic.guarded(lambda: s1.intersect(s2), secs)
        k, res = outcome(st, val)
        stats['A:' + d1[0] + d2[0]] += 1
        stats['A:family:' + m['family']] += 1
        size = ic.pair_size(s1, s2)
        if k == 9:
            # wall-clock guard fired: inconclusive under machine load (termination is not C12's subject); counted, not judged
            stats['timeouts-skipped'] += 1
            continue
        if k != 0:
            K.add('intersect-exception-%s-%s' % (core_of(d1, d2), type(val).__name__),
                  'C12: intersect raised %r on a %s pair with a constructed transversal crossing' % (val, kinds_label(d1, d2)),
                  replay_pair(d1, d2, {'crossings': crossings, 'family': m['family']}), size)
            continue
        for (t1, t2) in crossings:
            cases.append('(%s, %s, %s)' % (qc(t1), qc(t2), ic.pairs_term(res)))
            meta.append((d1, d2, (t1, t2), res, m, size))
    fails, errors = common.run_cases(tmp, '', 'casety', OK_A.replace('@E4@', qc(1e-4)), cases, shard=200, prefix='a')
    for idx, code in fails:
        d1, d2, tt, res, m, size = meta[idx]
        what = 'missed' if code == 1 else 'duplicate'
        near = [x for x in res if abs(x[0] - tt[0]) < 1e-4 and abs(x[1] - tt[1]) < 1e-4]
        key = miss_key(d1, d2, what, tt)
        if (key.startswith('subdivision-missed-crossing') or key.startswith('subdivision-prunes-zero-width-box')) \
                and what == 'missed' and size < 0.1 and \
                any(abs(x[0] - tt[0]) < 2e-3 and abs(x[1] - tt[1]) < 2e-3 for x in res):
            # (a pruned crossing returns nothing near it; a NEARBY report is the resolution class whatever the
            #  family of the pair — seed 6 drew an axis-parallel straight cubic of size 0.008)
            # reported, but further than 1e-4 away: the absolute stopping tolerance (box area 1e-12)
            # is too coarse for curves of this size (same class as in C11)
            key = ic.pinned_key('subdivision-residual-small-scale', ic.detect_variants()['rel_fixed'])
        K.add(key,
              'C12: constructed transversal crossing at (t1,t2) = (%.9g, %.9g) of a %s pair (%s) is %s; returned %s'
              % (tt[0], tt[1], kinds_label(d1, d2), m['family'],
                 'not reported' if code == 1 else 'reported %d times' % len(near), res[:6]),
              replay_pair(d1, d2, {'crossing': list(tt), 'returned': res[:40], 'family': m['family'], 'angle': m.get('angle')}),
              size)
    return len(cases), errors, stats


# ----------------------------------------------------------------- E
def exact_line_ellipse(arc, l0, l1):
    """line parameters s of the two crossings of the line l0->l1 with the FULL ellipse of an
    unrotated arc (stored center / radii), solved in 60-digit decimals; [] when there is none;
    None when the discriminant is too close to 0 to be called"""
    from decimal import Decimal, getcontext
    getcontext().prec = 60
    D_ = Decimal
    cx, cy = D_(arc.center.real), D_(arc.center.imag)
    a, b = D_(arc.radius.real), D_(arc.radius.imag)
    x0, y0 = D_(l0.real) - cx, D_(l0.imag) - cy
    dx, dy = D_(l1.real) - D_(l0.real), D_(l1.imag) - D_(l0.imag)
    A = dx * dx / (a * a) + dy * dy / (b * b)
    B = 2 * (x0 * dx / (a * a) + y0 * dy / (b * b))
    C = x0 * x0 / (a * a) + y0 * y0 / (b * b) - 1
    disc = B * B - 4 * A * C
    if abs(disc) < D_('1e-9') * B * B + D_('1e-24'):
        return None
    if disc < 0:
        return []
    r = disc.sqrt()
    out = []
    for s_ in ((-B - r) / (2 * A), (-B + r) / (2 * A)):
        out.append((float(s_), complex(float(D_(l0.real) + s_ * dx), float(D_(l0.imag) + s_ * dy))))
    return out


def near_axis_case(rng, rot=0.0):
    """an unrotated circular / elliptical arc (possibly far from the origin) and a Line that is
    exactly or ALMOST axis-parallel (tilt log-uniform 1e-9..1e-3, either sign, either axis) crossing
    the ellipse twice, once, nearly tangentially (two close crossings) or just not; the crossings
    with the arc are computed from the exact line-ellipse quadratic.  Returns (d_arc, d_line,
    expected [(t_arc, t_line)], meta) or None when a crossing is too close to an end to be called"""
    scale = rng.choice([1.0, 10.0, 100.0])
    sub = rng.choice(['circ', 'ell'])
    d = ic.random_arc(rng, scale, sub)
    if rng.random() < 0.4:                         # far from the origin / from y = 0
        d = ic.shift_desc(d, complex(rng.choice([0, 1, -1]) * rng.uniform(50, 2000) * scale,
                                     rng.choice([1, -1]) * rng.uniform(50, 2000) * scale))
    if rot:                                        # a multiple of 180: the same ellipse, another parameterisation
        d = (d[0], d[1], d[2], float(rot), d[4], d[5], d[6])
    arc = ic.mkseg(d)
    a, b = arc.radius.real, arc.radius.imag
    tilt = 0.0 if rng.random() < 0.2 else rng.choice([1, -1]) * 10 ** rng.uniform(-9, -3)
    vertical = rng.random() < 0.5
    shape = rng.choice(['twice', 'twice', 'once', 'near-tangent-in', 'near-tangent-out', 'through-arc-point'])
    half = b if not vertical else a                # half extent of the ellipse across the line direction
    along = a if not vertical else b
    if shape == 'through-arc-point':
        P = arc.point(rng.uniform(0.15, 0.85))
        off = None
    elif shape.startswith('near-tangent'):
        dl = 10 ** rng.uniform(-3, -2)
        off = rng.choice([1, -1]) * half * (1 - dl if shape.endswith('in') else 1 + dl)
    else:
        off = rng.uniform(-0.9, 0.9) * half
    if off is not None:
        P = arc.center + (1j * off if not vertical else off) + (rng.uniform(-0.3, 0.3) * along) * (1 if not vertical else 1j)
    dirn = complex(1, tilt) if not vertical else complex(tilt, 1)
    L = 2.5 * along
    if shape == 'once':
        l0, l1 = P, P + dirn * L * rng.choice([1, -1])          # starts inside the ellipse
    else:
        l0, l1 = P - dirn * L * rng.uniform(0.6, 1.0), P + dirn * L * rng.uniform(0.6, 1.0)
    sols = exact_line_ellipse(arc, l0, l1)
    if sols is None:
        return None
    expected = []
    for s_, p in sols:
        if min(abs(s_), abs(s_ - 1)) < 1e-6:
            return None
        if not (0 < s_ < 1):
            continue
        ta = ic.arc_t_of_point(arc, p)
        if ta is None or min(abs(ta), abs(ta - 1)) < 1e-6 or abs(arc.delta) >= 360 - 1e-9:
            return None
        # the representative of the angle inside the arc's sweep, if any
        if 0 < ta < 1:
            expected.append((ta, s_))
    if len(expected) == 2 and abs(expected[0][0] - expected[1][0]) < 1e-3:
        return None
    meta = {'family': 'near-axis-parallel-line-x-arc' if not rot else 'half-turn-arc-x-line (rotation %g)' % rot, 'tilt': tilt, 'axis': 'vertical' if vertical else 'horizontal',
            'shape': shape, 'arc': sub, 'far': abs(arc.center) > 40 * scale}
    return d, ('L', l0, l1), expected, meta


def run_E(rep, K, tmp, rng, n, secs, only=None):
    from svgpathtools import Path
    cases, meta = [], []
    stats = collections.Counter()
    items = list(only) if only else []
    for i in range(4 * n):
        if len(items) >= n:
            break
        try:
            r = near_axis_case(rng)
        except Exception:
            r = None
        if r is not None:
            items.append(r)
    for da, dl, expected, m in items:
        arc, line = ic.mkseg(da), ic.mkseg(dl)
        band = 'exact' if m['tilt'] == 0 else '1e%d' % math.floor(math.log10(abs(m['tilt'])))
        stats['E:tilt ' + band] += 1
        stats['E:expected crossings = %d' % len(expected)] += 1
        calls = (('Arc.intersect(Line)', lambda: arc.intersect(line), False),
                 ('Line.intersect(Arc)', lambda: line.intersect(arc), True),
                 ('Path.intersect', lambda: [(e[0][2], e[1][2]) for e in Path(arc).intersect(Path(line))], False))
        for name, f, swapped in calls:
            st, val = ic.guarded(f, secs)
            if st == 'timeout':
                stats['timeouts-skipped'] += 1
                continue
            if st != 'ok':
                K.add('arc-line-algebraic-exception-%s' % type(val).__name__,
                      'C12: %s raised %r for a (nearly) axis-parallel line and an unrotated arc' % (name, val),
                      replay_pair(da, dl, {'family': m['family'], 'meta': m}), ic.pair_size(arc, line))
                continue
            res = [(float(y), float(x)) if swapped else (float(x), float(y)) for x, y in val]
            cases.append('(%s, %s)' % (ic.pairs_term(expected), ic.pairs_term(res)))
            meta.append((da, dl, expected, res, m, name))
    fails, errors = common.run_cases(tmp, '', 'casety', OK_E.replace('@E4@', qc(1e-4)), cases, shard=200, prefix='e')
    for idx, code in fails:
        da, dl, expected, res, m, name = meta[idx]
        near = 'exactly' if m['tilt'] == 0 else 'nearly'
        if code == 1:
            key = 'arc-line-algebraic-missed-%s-axis-parallel' % near
            what = 'a crossing is not reported'
        elif code == 2:
            key = ic.pinned_key('arc-line-algebraic-duplicate-%s-axis-parallel' % near, ic.detect_variants()['al_fixed'])
            what = 'a crossing is reported more than once'
        else:
            key = 'arc-line-algebraic-extra-pair'
            what = 'pairs are returned that are no crossing'
        K.add(key, 'C12: %s, %s %s line (tilt %.3g) x unrotated %s arc%s: %s; exact crossings %s, returned %s'
              % (name, near, m['axis'], m['tilt'], 'circular' if m['arc'] == 'circ' else 'elliptical',
                 ' far from the origin' if m['far'] else '', what, expected, res[:6]),
              replay_pair(da, dl, {'family': m['family'], 'crossings': [list(e) for e in expected], 'returned': res[:12],
                                   'tilt': m['tilt'], 'call': name}), ic.pair_size(ic.mkseg(da), ic.mkseg(dl)))
    return len(cases), errors, stats


# ----------------------------------------------------------------- G
def axis_line_case(rng):
    """a Quadratic / Cubic against an EXACTLY axis-parallel Line, in one of the four directions
    (left-to-right, right-to-left, bottom-to-top, top-to-bottom); integer or generic coordinates.
    Built for a left-to-right horizontal line and then turned by 1, -1, 1j or -1j (exact).
    Returns (d_bez, d_line, known crossings [(t_bez, t_line)] or None, meta)"""
    kind = rng.choice(['Q', 'C', 'C'])
    n = 3 if kind == 'Q' else 4
    known = None
    if rng.random() < 0.5:
        # integer control points, the line on a half-integer level through the control polygon's range
        pts = [complex(rng.randint(0, 60), rng.randint(0, 60)) for _ in range(n)]
        ys = sorted({p.imag for p in pts})
        if len(ys) < 2:
            return None
        lvl = rng.randint(int(ys[0]), int(ys[-1]) - 1) + 0.5
        line = ('L', complex(-rng.randint(5, 20), lvl), complex(60 + rng.randint(5, 20), lvl))
        coords = 'integer'
    else:
        # y(t) = lvl + k prod (t - r_i) with 1..3 roots in (0,1); x(t) spread over the line
        scale = rng.choice([1.0, 10.0, 100.0])
        deg = n - 1
        nroots = rng.randint(1, deg)
        roots = sorted(rng.uniform(0.08, 0.92) for _ in range(nroots))
        if any(b - a < 0.05 for a, b in zip(roots, roots[1:])):
            return None
        allr = roots + [rng.choice([-1, 1]) * rng.uniform(1.5, 4) + 0.5 for _ in range(deg - nroots)]
        import numpy as np
        co = [float(c) for c in np.poly(allr)]
        k = rng.choice([1, -1]) * scale * rng.uniform(0.5, 20)
        lvl = rng.uniform(-1, 1) * scale
        if deg == 2:
            a2, a1, a0 = [c * k for c in co]
            ys = [a0, a1 / 2 + a0, a2 + a1 + a0]
        else:
            a3, a2, a1, a0 = [c * k for c in co]
            ys = [a0, a1 / 3 + a0, (a2 + 2 * a1) / 3 + a0, a3 + a2 + a1 + a0]
        xs = sorted(rng.uniform(0, scale) for _ in range(n))
        pts = [complex(x, y + lvl) for x, y in zip(xs, ys)]
        line = ('L', complex(-0.3 * scale, lvl), complex(1.3 * scale, lvl))
        bez = ic.mkseg((kind,) + tuple(pts))
        known = [(r, (bez.point(r).real - line[1].real) / (line[2].real - line[1].real)) for r in roots]
        coords = 'generic'
    turn = rng.choice([1, -1, 1j, -1j])
    direction = {1: 'left-to-right', -1: 'right-to-left', 1j: 'bottom-to-top', -1j: 'top-to-bottom'}[turn]
    db = (kind,) + tuple(p * turn for p in pts)
    dl = ('L', line[1] * turn, line[2] * turn)
    return db, dl, known, {'family': 'axis-parallel-line-%s' % direction, 'coords': coords}


def run_G(rep, K, tmp, rng, n, secs):
    """exactly axis-parallel lines in the four directions x Quadratic/Cubic: the number of pairs
    returned by bez.intersect(line), line.intersect(bez), Path(bez).intersect(Path(line)) and
    Path(line).intersect(Path(bez)) against the exact crossing count (Sturm/Tarski in Coq);
    constructed crossings (known parameters) through check A in both call orders"""
    from svgpathtools import Path
    cases, meta, aitems = [], [], []
    stats = collections.Counter()
    made = 0
    for i in range(6 * n):
        if made >= n:
            break
        try:
            r = axis_line_case(rng)
        except Exception:
            r = None
        if r is None:
            continue
        db, dl, known, m = r
        bez, line = ic.mkseg(db), ic.mkseg(dl)
        try:
            hints = general_position(list(db[1:]), dl[1], dl[2])
        except Exception:
            continue
        if hints is False:
            continue
        made += 1
        stats['G:' + m['family'] + ' (' + m['coords'] + ')'] += 1
        forms = (lambda: bez.intersect(line), lambda: line.intersect(bez),
                 lambda: Path(bez).intersect(Path(line)), lambda: Path(line).intersect(Path(bez)))
        counts, bad = [], False
        for f in forms:
            st, val = ic.guarded(f, secs)
            if st != 'ok':
                bad = True
                if st == 'exc':
                    K.add('intersect-exception-bezier-line-%s' % type(val).__name__,
                          'C12: intersect raised %r for an axis-parallel line (%s) x %s' % (val, m['family'], ic.KNAME[db[0]]),
                          replay_pair(db, dl, {'family': m['family']}), ic.pair_size(bez, line))
                break
            counts.append(len(val))
        if bad:
            continue
        cases.append('(%s, %s, %s, %s, %s)' % (coq_list([cbq(z) for z in db[1:]]), cbq(dl[1]), cbq(dl[2]),
                                               coq_list(['(%d)%%Z' % c for c in counts]), coq_list([bq(h) for h in hints])))
        meta.append((db, dl, m, counts))
        if known:
            aitems.append((db, dl, known, {'family': m['family']}))
            aitems.append((dl, db, [(b, a) for a, b in known], {'family': m['family']}))
    fails, errors = common.run_cases(tmp, '', 'casety', OK_G, cases, shard=25, prefix='g')
    for idx, code in fails:
        if code in (98, 99):
            stats['G:undecided'] += 1
            continue
        db, dl, m, counts = meta[idx]
        K.add('bezier-line-count-%s-axis-parallel' % ('too-few' if code == 1 else 'too-many'),
              'C12: %s x %s Line (%s coordinates): pairs returned by [bez.intersect(line), line.intersect(bez), '
              'Path(bez).intersect(Path(line)), Path(line).intersect(Path(bez))] = %s; the exact number of crossings '
              '(Sturm count in Coq) is %s' % (ic.KNAME[db[0]], m['family'], m['coords'], counts,
                                             'larger than some' if code == 1 else 'smaller than some'),
              replay_pair(db, dl, {'family': m['family'], 'counts': counts}), ic.pair_size(ic.mkseg(db), ic.mkseg(dl)))
    nA2, eA2, sA2 = run_A(rep, K, tmp, aitems, secs)
    stats.update(sA2)
    return len(cases) + nA2, errors + eA2, stats


# ----------------------------------------------------------------- F
def run_F(rep, K, tmp, rng, n, secs):
    """Bezier-Bezier pairs on an integer grid, BOTH operand orders.  The exact number of crossings of
    two curves is not decided here (no exact solver for curve-curve pairs); the reference is the
    union of what the two orders report, each member certified as a transversal crossing strictly
    inside both curves (residual <= 1e-6 x size, tangent angle >= 6 degrees, parameters in
    (1e-3, 1-1e-3), no other reported crossing within 1e-2): every such crossing must be reported by
    EACH order."""
    items = [(a, b, {'family': 'integer-grid-witness'}) for a, b in ic.SKIP_WITNESSES]
    for i in range(n):
        r = ic.integer_bezier_pair(rng)
        if r:
            items.append((r[0], r[1], {'family': 'integer-grid'}))
    cases, meta = [], []
    stats = collections.Counter()
    for d1, d2, m in items:
        s1, s2 = ic.mkseg(d1), ic.mkseg(d2)
        st1, v1 = ic.guarded(lambda: s1.intersect(s2), secs)
        st2, v2 = ic.guarded(lambda: s2.intersect(s1), secs)
        if st1 != 'ok' or st2 != 'ok':
            stats['F:skipped (timeout / exception)'] += 1
            continue
        r12 = ic.norm_result(v1); r21 = [(b, a) for a, b in ic.norm_result(v2)]
        size = ic.pair_size(s1, s2)
        cl = []
        for tt in r12 + r21:
            if not any(abs(c[0] - tt[0]) < 1e-4 and abs(c[1] - tt[1]) < 1e-4 for c in cl):
                cl.append(tt)
        expected = []
        for c in cl:
            if not (1e-3 < c[0] < 1 - 1e-3 and 1e-3 < c[1] < 1 - 1e-3):
                continue
            if abs(s1.point(c[0]) - s2.point(c[1])) > 1e-6 * size:
                continue
            if ic.tangent_angle_deg(s1, c[0], s2, c[1]) < 6:
                continue
            if any(o is not c and abs(o[0] - c[0]) < 1e-2 and abs(o[1] - c[1]) < 1e-2 for o in cl):
                continue
            expected.append(c)
        stats['F:pairs'] += 1
        stats['F:certified crossings'] += len(expected)
        for name, res in (('seg1.intersect(seg2)', r12), ('seg2.intersect(seg1)', r21)):
            cases.append('(%s, %s)' % (ic.pairs_term(expected), ic.pairs_term(res)))
            meta.append((d1, d2, expected, res, m, name, size))
    fails, errors = common.run_cases(tmp, '', 'casety', OK_F.replace('@E4@', qc(1e-4)), cases, shard=100, prefix='f')
    for idx, code in fails:
        d1, d2, expected, res, m, name, size = meta[idx]
        lost = [e for e in expected if not any(abs(x[0] - e[0]) < 1e-4 and abs(x[1] - e[1]) < 1e-4 for x in res)]
        tt = lost[0] if lost else (0.5, 0.5)
        K.add(miss_key(d1, d2, 'missed', tt),
              'C12: %s of a %s pair (%s) does not report the transversal crossing at (t1,t2) = (%.9g, %.9g) that the other '
              'operand order reports (residual <= 1e-6 x size, angle >= 6 deg); returned %s'
              % (name, kinds_label(d1, d2), m['family'], tt[0], tt[1], res[:6]),
              (replay_pair(d1, d2, {'crossing': list(tt), 'returned': res[:20], 'family': m['family'], 'call': name})
               if name.startswith('seg1') else
               replay_pair(d2, d1, {'crossing': [tt[1], tt[0]], 'returned': [(b, a) for a, b in res[:20]],
                                    'family': m['family'], 'call': 'seg1.intersect(seg2) [operands as stored here]'})), size)
    return len(cases), errors, stats


# ----------------------------------------------------------------- B
def general_position(bez, l0, l1):
    """float pre-filter of the input domain (the exact count is decided in Coq):
    no crossing within 1e-6 of an end of either segment, real roots separated by
    more than 1e-9, complex roots at least 1e-6 off the real axis"""
    import numpy as np
    e = l1 - l0
    n2 = abs(e) ** 2
    g = [((z - l0).imag * e.real - (z - l0).real * e.imag) for z in bez]
    h = [((z - l0).real * e.real + (z - l0).imag * e.imag) for z in bez]
    from svgpathtools.bezier import bezier2polynomial, bezier_point
    gp = bezier2polynomial(g)
    if abs(gp[0]) < 1e-9 * max(abs(c) for c in gp):
        return False
    roots = np.roots(gp)
    real = sorted(r.real for r in roots if abs(r.imag) < 1e-6)
    if len(real) != sum(1 for r in roots if abs(r.imag) < 1e-3):
        return False
    for a, b in zip(real, real[1:]):
        if b - a < 1e-9:
            return False
    hints = []
    for r in real:
        if min(abs(r), abs(r - 1)) < 1e-6:
            return False
        if -1e-3 < r < 1 + 1e-3:
            s = bezier_point(h, r) / n2
            if min(abs(s), abs(s - 1)) < 1e-6:
                return False
            if 0 < r < 1 and 0 < s < 1:
                hints.append(float(r))
    return hints


def cubic_with_yroots(rng, roots, k):
    """CubicBezier with x(t) = 3t and y(t) = k (t-r0)(t-r1)(t-r2), against the x axis"""
    import numpy as np
    a3, a2, a1, a0 = [float(c) * k for c in np.poly(roots)]
    ys = [a0, a1 / 3 + a0, (a2 + 2 * a1) / 3 + a0, a3 + a2 + a1 + a0]
    return ('C',) + tuple(complex(x, y) for x, y in zip([0.0, 1.0, 2.0, 3.0], ys)), ('L', -1 + 0j, 4 + 0j)


def corpus_B():
    out = []
    d = os.path.join(common.VERIF, 'corpus', 'C12')
    if os.path.isdir(d):
        for fn in sorted(os.listdir(d)):
            if fn.endswith('.json'):
                j = json.load(open(os.path.join(d, fn)))
                if j.get('kind') == 'pair':
                    out.append((ic.desc_unhex(j['seg1']), ic.desc_unhex(j['seg2']), {'family': 'corpus:' + fn}))
    return out


def gen_B(rng, n, n_cluster):
    out = corpus_B()
    for i in range(n):
        kb = rng.choice(['L', 'Q', 'C', 'C'])
        cfg = rng.choice(['crossing', 'random', 'random'])
        order = rng.random() < 0.5
        k1, k2 = (kb, 'L') if order else ('L', kb)
        r = ic.config_pair(rng, k1, k2, cfg)
        if r is None:
            continue
        out.append((r[0], r[1], {'family': cfg}))
    for i in range(n_cluster):
        a = rng.uniform(0.05, 0.95); d = rng.choice([1e-6, 3e-6, 5e-6, 8e-6, 1e-4, 1e-3])
        c = a + rng.choice([-1, 1]) * rng.uniform(0.005, 0.3)
        if not 0.03 < c < 0.97:
            continue
        k = rng.choice([1, -1]) * 10 ** rng.uniform(-1, 3)
        d1, d2 = cubic_with_yroots(rng, [a, a + d, c], k)
        out.append((d1, d2, {'family': 'clustered-roots'}) if rng.random() < 0.5 else (d2, d1, {'family': 'clustered-roots'}))
    return out


def run_B(rep, K, tmp, items, secs):
    cases, meta = [], []
    stats = collections.Counter()
    for d1, d2, m in items:
        s1, s2 = ic.mkseg(d1), ic.mkseg(d2)
        bezd, lined = (d2, d1) if (d1[0] == 'L' and d2[0] != 'L') else (d1, d2)
        if lined[0] != 'L':
            continue
        bez, l0, l1 = list(bezd[1:]), lined[1], lined[2]
        try:
            hints = general_position(bez, l0, l1)
            if hints is False:
                stats['B:not-general-position(float pre-filter)'] += 1
                continue
        except Exception:
            continue
        with ic.RootsSpy() as spy:
            st, val = ic.guarded(lambda: s1.intersect(s2), secs)
        k, res = outcome(st, val)
        if k != 0:
            K.add('intersect-exception-%s' % core_of(d1, d2), 'C12: intersect raised / timed out on a generic %s pair' % kinds_label(d1, d2),
                  replay_pair(d1, d2, {'family': m['family']}), ic.pair_size(s1, s2))
            continue
        stats['B:' + d1[0] + d2[0]] += 1
        stats['B:returned=%d' % len(res)] += 1
        cases.append('(%s, %s, %s, (%d)%%Z, %s)' % (coq_list([cbq(z) for z in bez]), cbq(l0), cbq(l1), len(res),
                                                    coq_list([bq(r) for r in hints])))
        meta.append((d1, d2, m, res, spy.calls[:]))
    fails, errors = common.run_cases(tmp, '', 'casety', OK_B, cases, shard=25, prefix='b')
    undecided = 0
    for idx, code in fails:
        if code == 99:
            undecided += 1
            continue
        if code == 98:
            stats['B:count-not-confirmed-by-brackets'] += 1
            continue
        d1, d2, m, res, calls = meta[idx]
        s1, s2 = ic.mkseg(d1), ic.mkseg(d2)
        core = core_of(d1, d2)
        key = '%s-count-%s' % (core, 'too-few' if code == 1 else 'too-many')
        note = ''
        if core == 'bezier-line' and calls:
            raw = calls[0][1]
            valid = sorted({r.real for r in raw if abs(r.imag) < 1e-8 and 0 <= r.real <= 1})
            rep_ts = sorted({(a if d1[0] != 'L' else b) for a, b in res})
            lost = [r for r in valid if not any(abs(r - t) < 1e-12 for t in rep_ts)]
            if code == 1 and lost:
                def close(a, b): return abs(a - b) < 1e-8 + 1e-5 * abs(b)
                iso = [r for r in lost if not any(close(r, o) or close(o, r) for o in valid if o != r)]
                if iso:
                    key = ic.pinned_key('polyroots-dedup-drops-root', ic.detect_variants()['dedup_fixed'])
                    note = ' (np.roots found %s; the isolated root(s) %s were dropped by the de-duplication)' % (valid, iso)
                else:
                    key = 'polyroots-merges-close-roots'
                    note = ' (np.roots found %s; close roots were merged)' % valid
        K.add(key, 'C12: %s pair in general position: %d pair(s) returned, the exact number of crossings (Sturm count in Coq) is %s%s'
              % (kinds_label(d1, d2), len(res), 'larger' if code == 1 else 'smaller', note),
              replay_pair(d1, d2, {'returned': res, 'family': m['family']}), ic.pair_size(s1, s2))
    stats['B:undecided(not general position in exact arithmetic)'] = undecided
    return len(cases), errors, stats


# ----------------------------------------------------------------- C
def gen_path_C(rng):
    """path1 random (1..4 segments, no two equal); path2: segments each built through
    an interior point of a segment of path1.  Returns descs + constructed crossings
    (i, t1, j, t2)"""
    scale = ic.gen_scale(rng)
    n1, n2 = rng.randint(1, 4), rng.randint(1, 4)
    p1 = []
    for i in range(n1):
        k = rng.choice(['L', 'L', 'Q', 'C', 'A'])
        p1.append(ic.random_seg(rng, k, scale, 'circ' if k == 'A' else None))
    p2, cross = [], []
    for j in range(n2):
        i = rng.randrange(len(p1))
        k2 = rng.choice(['L', 'L', 'Q', 'C'])
        s1 = ic.mkseg(p1[i])
        t1 = rng.uniform(0.15, 0.85); t2 = rng.uniform(0.15, 0.85)
        P = s1.point(t1)
        tan = s1.derivative(t1)
        if abs(tan) == 0:
            continue
        ang = math.radians(rng.choice([1, -1]) * rng.uniform(20, 90))
        dirn = tan / abs(tan) * complex(math.cos(ang), math.sin(ang))
        d2 = ic.bezier_through(rng, k2, P, t2, dirn, scale)
        if ic.tangent_angle_deg(s1, t1, ic.mkseg(d2), t2) < 6:
            continue
        cross.append((i, t1, len(p2), t2))
        p2.append(d2)
    if not p2:
        return None
    return p1, p2, cross, scale


def gen_polylines(rng):
    scale = ic.gen_scale(rng)
    def poly(n):
        pts = [ic.rnd_c(rng, scale) for _ in range(n + 1)]
        return [('L', pts[i], pts[i + 1]) for i in range(n)]
    return poly(rng.randint(1, 4)), poly(rng.randint(1, 4)), scale


def run_C(rep, K, tmp, rng, n, n_poly, secs, only=None):
    from svgpathtools import Path
    stats = collections.Counter()
    acases, ameta = [], []
    todo = [([('L', 0j, 3 + 0j), ('L', 3 + 0j, 3 + 4j), ('L', 3 + 4j, 0j), ('L', 0j, 3 + 0j)], [('L', 1 - 1j, 1 + 1j)],
             [(0, 1 / 3, 0, 0.5), (3, 1 / 3, 0, 0.5)], 4.0)]
    if only:
        todo = list(only)
    for i in range(n):
        r = gen_path_C(rng)
        if r:
            todo.append(r)
    for p1d, p2d, cross, scale in todo:
        path1 = Path(*[ic.mkseg(d) for d in p1d]); path2 = Path(*[ic.mkseg(d) for d in p2d])
        if path1 == path2:
            continue
        st, val = ic.guarded(lambda: path1.intersect(path2), secs)
        stats['C:path_pairs'] += 1
        replay = {'kind': 'path', 'path1': [ic.desc_hex(d) for d in p1d], 'path2': [ic.desc_hex(d) for d in p2d],
                  'path1_repr': repr(path1), 'path2_repr': repr(path2)}
        if st != 'ok':
            if st == 'exc' and any(arcarc_tolerated(a, b) for a in p1d for b in p2d):
                continue
            if st == 'timeout':
                stats['timeouts-skipped'] += 1      # inconclusive under load; not judged
                continue
            K.add('path-intersect-%s' % ('timeout' if st == 'timeout' else 'exception-' + type(val).__name__),
                  'C12: Path.intersect %s' % ('timed out' if st == 'timeout' else 'raised %r' % (val,)), replay, scale)
            continue
        dup = any(a == b for x, a in enumerate(p1d) for b in p1d[x + 1:]) or any(a == b for x, a in enumerate(p2d) for b in p2d[x + 1:])
        for (i, t1, j, t2) in cross:
            seg1, seg2 = path1[i], path2[j]
            hits = [(float(e[0][2]), float(e[1][2])) for e in val if e[0][1] is seg1 and e[1][1] is seg2]
            near = [h for h in hits if abs(h[0] - t1) < 1e-4 and abs(h[1] - t2) < 1e-4]
            stats['C:constructed_crossings'] += 1
            if len(near) == 1:
                continue
            # is the segment pair itself at fault?
            st2, v2 = ic.guarded(lambda: seg1.intersect(seg2), secs)
            segres = ic.norm_result(v2) if st2 == 'ok' else []
            segnear = [h for h in segres if abs(h[0] - t1) < 1e-4 and abs(h[1] - t2) < 1e-4]
            what = 'missed' if not near else 'duplicate'
            if len(segnear) != 1:
                key = miss_key(p1d[i], p2d[j], 'missed' if not segnear else 'duplicate', (t1, t2))
                if key.startswith('subdivision-missed-crossing') and ic.pair_size(seg1, seg2) < 0.1 and \
                        any(abs(h[0] - t1) < 2e-3 and abs(h[1] - t2) < 2e-3 for h in segres):
                    key = ic.pinned_key('subdivision-residual-small-scale', ic.detect_variants()['rel_fixed'])
                msg = 'seg1.intersect(seg2) itself reports it %d times' % len(segnear)
            elif dup and not ic.detect_variants()['idx_fixed']:
                key = 'path-intersect-index-duplicate-segment'
                msg = ('the path traverses an equal segment twice: the entry of the later traversal coincides with the earlier '
                       'one (same T from list.index, same point) and is removed as a joint redundancy')
            elif dup:
                key = ic.pinned_key('path-joint-dedup-removes-repeated-traversal', ic.detect_variants()['jd_fixed'])
                msg = ('the path traverses an equal segment twice: the entry of the later traversal has its own T (positions are '
                       'enumerated) but the same POINT as the earlier one, and is removed as a joint redundancy')
            else:
                key = 'path-intersect-%s-crossing' % what
                msg = 'the segment pair reports it once'
            K.add(key, 'C12: Path.intersect reports the constructed crossing of path1[%d] (t=%.6g) and path2[%d] (t=%.6g) %d times; %s'
                  % (i, t1, j, t2, len(near), msg), dict(replay, crossing=[i, t1, j, t2]), scale)
    # exact total counts for poly-lines
    ccases, cmeta = [], []
    for k in range(n_poly):
        p1d, p2d, scale = gen_polylines(rng)
        path1 = Path(*[ic.mkseg(d) for d in p1d]); path2 = Path(*[ic.mkseg(d) for d in p2d])
        ok = True
        for a in p1d:
            for b in p2d:
                try:
                    ok = ok and (general_position([a[1], a[2]], b[1], b[2]) is not False)
                except Exception:
                    ok = False
        if not ok:
            continue
        st, val = ic.guarded(lambda: path1.intersect(path2), secs)
        if st != 'ok':
            K.add('path-intersect-exception-polyline', 'C12: Path.intersect raised on two poly-lines: %r' % (val,),
                  {'kind': 'path', 'path1': [ic.desc_hex(d) for d in p1d], 'path2': [ic.desc_hex(d) for d in p2d]}, scale)
            continue
        prs = ['((%s, %s), (%s, %s))' % (cbq(a[1]), cbq(a[2]), cbq(b[1]), cbq(b[2])) for a in p1d for b in p2d]
        ccases.append('(%s, (%d)%%Z)' % (coq_list(prs), len(val)))
        cmeta.append((p1d, p2d, len(val), scale))
        stats['C:polyline_pairs'] += 1
    fails, errors = common.run_cases(tmp, '', 'casety', OK_C, ccases, shard=10, prefix='c')
    for idx, code in fails:
        if code == 99:
            stats['C:undecided'] += 1
            continue
        p1d, p2d, nobs, scale = cmeta[idx]
        K.add('path-polyline-count-%s' % ('too-few' if code == 1 else 'too-many'),
              'C12: Path.intersect of two poly-lines returned %d entries, the exact number of crossings is %s'
              % (nobs, 'larger' if code == 1 else 'smaller'),
              {'kind': 'path', 'path1': [ic.desc_hex(d) for d in p1d], 'path2': [ic.desc_hex(d) for d in p2d]}, scale)
    return len(ccases) + stats['C:constructed_crossings'], errors, stats


# ----------------------------------------------------------------- D
def run_D(rep, K, tmp, rng, n):
    import numpy as np
    from svgpathtools.polytools import polyroots01
    cases, meta = [], []
    base = [[0.9, 0.5, 0.5 + 1e-9, 0.1]]
    for i in range(n):
        if i < len(base):
            raw = [complex(x) for x in base[i]]
        else:
            m = rng.randint(1, 6)
            vals = []
            while len(vals) < m:
                r = rng.random()
                if vals and r < 0.4:
                    b = rng.choice(vals).real
                    vals.append(complex(b * (1 + rng.choice([1e-9, 3e-6, -2e-6, 0.0, 1e-4])), 0.0))
                elif r < 0.5:
                    vals.append(complex(rng.uniform(0, 1), rng.choice([1e-9, 5e-9, 2e-8, 1e-3, -1e-7])))
                elif r < 0.6:
                    vals.append(complex(rng.choice([-0.2, 1.3, 0.0, 1.0]), 0.0))
                else:
                    vals.append(complex(rng.uniform(0, 1), 0.0))
            rng.shuffle(vals)
            raw = vals
        orig = np.roots
        try:
            np.roots = lambda p, _r=raw: np.array(_r, dtype=complex)
            obs = [float(x) for x in polyroots01([1.0] + [0.0] * len(raw))]
        finally:
            np.roots = orig
        cases.append('(%s, %s)' % (coq_list([cq(z) for z in raw]), coq_list([qc(x) for x in obs])))
        meta.append((raw, obs))
    okdef = OK_D.replace('@RTOL@', qc(1e-5)).replace('@ATOL@', qc(1e-8)).replace(
        '@DEDUP@', common.coq_bool(ic.detect_variants()['dedup_fixed']))
    fails, errors = common.run_cases(tmp, '', 'casety', okdef, cases, shard=200, prefix='d')
    for idx, code in fails:
        raw, obs = meta[idx]
        K.add('model-polyroots-dedup', 'C12 model tie: polyroots01 differs from the model of its de-duplication as coded',
              {'kind': 'roots', 'np_roots': [str(z) for z in raw], 'returned': obs}, len(raw))
    dropped = 0
    for raw, obs in meta:
        reals = [z.real for z in raw if abs(z.imag) < 1e-8 and 0 <= z.real <= 1]
        for r in reals:
            if r not in obs and not any(o != r and abs(r - o) < 1e-8 + 1e-5 * abs(o) for o in reals):
                dropped += 1
                break
    rep.cov['polyroots_dedup_lists_where_an_isolated_root_is_dropped'] = dropped
    return len(cases), errors


# ----------------------------------------------------------------- driver
def run(rep, tier, seed, replay=None):
    warnings.simplefilter('ignore')
    rng = common.mkrng(seed, 'C12')
    quick = tier == 'quick'
    secs = 20
    with common.Scratch() as tmp:
        info = common.std_static(rep, 'C12', GEN_GROUPS, AGREE, tmp)
        K = Keyed(rep)
        var = ic.detect_variants()
        rep.cov['implementation_variants'] = {k: v for k, v in var.items() if k != 'notes'}
        rep.notes += var['notes']
        boost = 2 if (info['agree_failed'] or info['untranslated'].keys() - {'gen_bezier_by_line_2', 'gen_box_extent'}) else 1
        if replay:
            r = json.load(open(replay))['replay']
            if r.get('kind') == 'pair':
                d1, d2 = ic.desc_unhex(r['seg1']), ic.desc_unhex(r['seg2'])
                if r.get('family') == 'near-axis-parallel-line-x-arc':
                    run_E(rep, K, tmp, rng, 0, secs, only=[(d1, d2, [tuple(c) for c in r['crossings']],
                                                            {'family': r['family'], 'tilt': r.get('tilt', 1.0), 'axis': '?',
                                                             'shape': 'replay', 'arc': ic.arc_kind(d1)[:4], 'far': False})])
                elif 'crossing' in r:
                    run_A(rep, K, tmp, [(d1, d2, [tuple(r['crossing'])], {'family': r.get('family', 'replay')})], secs)
                elif 'crossings' in r:
                    run_A(rep, K, tmp, [(d1, d2, [tuple(c) for c in r['crossings']], {'family': r.get('family', 'replay')})], secs)
                else:
                    run_B(rep, K, tmp, [(d1, d2, {'family': 'replay'})], secs)
            elif r.get('kind') == 'path':
                p1 = [ic.desc_unhex(h) for h in r['path1']]; p2 = [ic.desc_unhex(h) for h in r['path2']]
                cr = [tuple(r['crossing'])] if 'crossing' in r else []
                cr = [(int(c[0]), c[1], int(c[2]), c[3]) for c in cr]
                run_C(rep, K, tmp, rng, 0, 0, secs, only=[(p1, p2, cr, 1.0)])
            K.flush()
            return
        itemsA = gen_A(rng, (6 if quick else 60) * boost, (10 if quick else 100) * boost, (12 if quick else 150) * boost)
        nA, eA, sA = run_A(rep, K, tmp, itemsA, secs)
        nB, eB, sB = run_B(rep, K, tmp, gen_B(rng, (220 if quick else 3000) * boost, (60 if quick else 6000) * boost), secs)
        nC, eC, sC = run_C(rep, K, tmp, rng, (40 if quick else 400) * boost, (40 if quick else 400) * boost, secs)
        nD, eD = run_D(rep, K, tmp, rng, (150 if quick else 2000) * boost)
        # nearly axis-parallel lines x unrotated arcs (drawn last: the streams above are unchanged)
        nE, eE, sE = run_E(rep, K, tmp, rng, (80 if quick else 1500) * boost, secs)
        # the same family with the arc rotated by a multiple of 180 degrees (same ellipse, the closed-form
        # branch must not be taken as if unrotated); own rng: no other stream moves (seeded change C11_8)
        rngH = common.mkrng(seed, 'C12-half-turn')
        itemsH = []
        for i in range(8 * (24 if quick else 400) * boost):
            if len(itemsH) >= (24 if quick else 400) * boost:
                break
            try:
                rH = near_axis_case(rngH, rot=rngH.choice([180.0, -180.0, 540.0, 360.0, -360.0]))
            except Exception:
                rH = None
            if rH is not None:
                itemsH.append(rH)
        nH, eH, sH = run_E(rep, K, tmp, rngH, 0, secs, only=itemsH)
        nE += nH; eE = eE + eH
        for k_, v_ in sH.items():
            sE['H' + k_[1:]] = sE.get('H' + k_[1:], 0) + v_
        # integer-grid Bezier-Bezier pairs, both operand orders (drawn last)
        nF, eF, sF = run_F(rep, K, tmp, rng, (45 if quick else 1500) * boost, secs)
        # exactly axis-parallel lines in the four directions x Quadratic/Cubic (drawn last)
        nG, eG, sG = run_G(rep, K, tmp, rng, (48 if quick else 1200) * boost, secs)
        for e in eA + eB + eC + eD + eE + eF + eG:
            rep.violation('C12 case file failed to evaluate', {'kind': 'cases', 'error': e}, found_input=False, key='cases-error')
        K.flush()
        stats = dict(sA); stats.update(sB); stats.update(sC); stats.update(sE); stats.update(sF)
        for k_, v_ in sG.items():
            stats[k_] = stats.get(k_, 0) + v_
        rep.cov['evaluations'] = nA + nB + nC + nD + nE + nF + nG
        rep.cov['traces_validated_against_impl'] = nB + nD
        rep.cov['distinct_nontrivial'] = nA + nB
        rep.cov['rule'] = ('A: constructed transversal crossings (all 16 ordered kind pairs, two arcs only circular+unrotated; '
                           'axis-parallel straight curves; aligned parabolas with two rational crossing parameters); '
                           'B: Line/Bezier pairs passing a float general-position pre-filter, exact crossing number by Sturm/Tarski '
                           'counting in Coq over Q (undecided cases are counted, not claimed); C: paths of 1-4 segments with '
                           'crossings strictly inside segments, poly-line totals; D: polyroots01 on supplied root lists; E: exactly / nearly '
                           'axis-parallel lines (tilt 1e-9..1e-3) x unrotated circular/elliptical arcs, crossings from the exact '
                           'line-ellipse quadratic, three call forms; the same with the arc rotated by k x 180 degrees (k != 0). '
                           'non-trivial = a crossing exists by construction (A) or the exact count was decided (B)')
        rep.cov['input_distribution'] = stats
        rep.cov['samples'] = [{'seg1': repr(ic.mkseg(d1)), 'seg2': repr(ic.mkseg(d2)), 'constructed_crossings': cr,
                               'family': m['family']} for d1, d2, cr, m in itemsA[:3]]
        rep.cov['case_counts'] = {'A_constructed_crossings': nA, 'B_exact_counts': nB, 'C_path': nC, 'D_polyroots_lists': nD,
                                  'E_near_axis_parallel_arc_line': nE, 'F_integer_grid_both_orders': nF,
                                  'G_axis_parallel_lines_four_directions': nG}
        if info['agree_failed'] and not rep.violations:
            rep.violation('agreement lemma(s) %s no longer check' % info['agree_failed'],
                          {'kind': 'agreement', 'lemmas': info['agree_failed'], 'file': 'coq/GenAgree/Isect.v'},
                          found_input=False, key='agree')
    rep.assumptions += ['the Sturm/Tarski crossing count of Model/Isect.v is executed in exact rationals; its correctness is proved '
                        'for degree <= 2 only where stated in Props/C12.v, otherwise cross-checked per case',
                        'np.roots is an oracle: completeness of Bezier-Line rests on it returning every root (sampled by B)',
                        'true parameters of constructed crossings are known to about 1e-12 (float construction); tolerance 1e-4']
