"""C18 — paths written to SVG (wsvg, Document) are read back unchanged, with
attributes.  Theorems: coq/Props/C18.v (model: coq/Model/SvgIO.v).

Streams
  wsvg     random lists of paths (Line/Quadratic/Cubic/Arc, several subpaths),
           attribute dictionaries (presentation attributes, ids, values with
           spaces / quotes / markup characters / non-ASCII), svg-level
           attributes, file names; wsvg -> {svg2paths2, Document, SaxDocument}.
           Property evaluated on the real code in Python (d-strings equal, the
           path equal to parse_path(p.d()) as == defines it and coordinate by
           coordinate, attribute inclusion); tie: the same file as the model
           (Model/SvgIO.v wsvg_file + the three readers) predicts it, computed
           inside Coq.
  style    the same with a style attribute (SaxDocument splits it).
  history  load / Document(None) -> add_path / add_group* -> paths() after
           every step -> save -> reload with the three readers; the history
           model (element tags as (namespace, local) pairs) is run inside Coq
           and compared with the element tree and with every observation.
Nothing is ever opened in a browser (wsvg: openinbrowser=False)."""
import os, math, json, tempfile, shutil, warnings, traceback
import common
from common import coq_list
from harness.c17 import ensure_own_vo, guarded

OWN = ['Model/SvgIO.v', 'Proofs/SvgIO.v', 'Proofs/SvgDocHist.v', 'Model/SvgIOCheck.v']
# (the saxsave stream also uses Model/SvgTree.v, Model/SvgTreeCheck.v: part of the static build)
SVGNS = 'http://www.w3.org/2000/svg'


# ----------------------------------------------------------------- Coq text
def cs(s):
    return '"' + str(s).replace('"', '""') + '"'


def cdict(d):
    if not d:
        return '(@nil (string * string))'
    return coq_list(['(%s, %s)' % (cs(k), cs(v)) for k, v in d.items()])


def clstr(l):
    return coq_list([cs(x) for x in l]) if l else '(@nil string)'


def cldict(l):
    return coq_list([cdict(d) for d in l]) if l else '(@nil dict)'


def coqable(s):
    """strings the case files carry verbatim: no control characters (Coq reads the bytes as they are)"""
    return all(ord(ch) >= 32 and ord(ch) != 127 for ch in str(s))


# ----------------------------------------------------------- path generator
def rnd_pt(rng, sc):
    mode = rng.random()
    if mode < 0.3:
        return complex(rng.randint(-50, 50), rng.randint(-50, 50))
    if mode < 0.5:
        return complex(rng.randint(-400, 400) / 8.0, rng.randint(-400, 400) / 8.0)
    return complex(rng.uniform(-sc, sc), rng.uniform(-sc, sc))


def gen_path(rng):
    from svgpathtools import Path, Line, QuadraticBezier, CubicBezier, Arc
    sc = 10 ** rng.uniform(-2, 4)
    segs = []
    for sub in range(rng.choice([1, 1, 2, 3])):
        cur = rnd_pt(rng, sc)
        start = cur
        for _ in range(rng.randint(1, 4)):
            k = rng.choice(['L', 'L', 'Q', 'C', 'A'])
            e = rnd_pt(rng, sc)
            while e == cur:
                e = rnd_pt(rng, sc)
            if k == 'L':
                segs.append(Line(cur, e))
            elif k == 'Q':
                segs.append(QuadraticBezier(cur, rnd_pt(rng, sc), e))
            elif k == 'C':
                segs.append(CubicBezier(cur, rnd_pt(rng, sc), rnd_pt(rng, sc), e))
            else:
                r = complex(abs(e - cur) * rng.uniform(0.3, 2.0) + 0.5, abs(e - cur) * rng.uniform(0.3, 2.0) + 0.5)
                segs.append(Arc(cur, r, rng.choice([0.0, 30.0, rng.uniform(-180, 180)]),
                                rng.random() < 0.5, rng.random() < 0.5, e))
            cur = e
        if rng.random() < 0.3 and cur != start:
            segs.append(Line(cur, start))
    return Path(*segs)


WEIRD = ['a b', 'two  spaces', 'q"uote', "apo's", 'a<b', 'x&y', 'réd', '✓ ok', '#ff0000', 'url(#g1)',
         'rgb(1, 2, 3)', '5 3 2', '0.5', 'none', '漢字', 'a>b', '&amp;', "mixed \"both\" 'kinds'"]
PRES = ['stroke', 'fill', 'stroke-width', 'stroke-dasharray', 'opacity', 'fill-opacity', 'stroke-linecap',
        'stroke-linejoin', 'visibility', 'class', 'id', 'data-name', 'data-x', 'fill-rule', 'clip-path']


def gen_attrs(rng, idx, with_style=None):
    a = {}
    for k in rng.sample(PRES, rng.randint(0, 5)):
        if k == 'id':
            a[k] = rng.choice(['p%d' % idx, 'my id %d' % idx, 'pé%d' % idx])
        else:
            a[k] = rng.choice(WEIRD + ['red', 'blue', '2', 'round'])
    if with_style is not None:
        a['style'] = with_style
    return a


def gen_svg_attrs(rng):
    r = rng.random()
    if r < 0.25:
        return None
    a = {}
    if rng.random() < 0.7: a['width'] = rng.choice(['100px', '50%', '300', '12.5cm'])
    if rng.random() < 0.7: a['height'] = rng.choice(['100px', '80%', '200', '3in'])
    if rng.random() < 0.6: a['viewBox'] = rng.choice(['0 0 10 10', '-5 -5 100 50.5', '0,0,1,1'])
    if rng.random() < 0.4: a['id'] = rng.choice(['root', 'my root', 'rööt'])
    if rng.random() < 0.3: a['class'] = rng.choice(WEIRD)
    if rng.random() < 0.3: a['preserveAspectRatio'] = rng.choice(['none', 'xMidYMid meet'])
    if rng.random() < 0.3: a['data-k'] = rng.choice(WEIRD)
    return a


def same_path(p, q):
    """== as the implementation defines it, and coordinate by coordinate"""
    from svgpathtools import Arc
    if not (p == q) or len(p) != len(q):
        return False
    for s, t in zip(p, q):
        if type(s) is not type(t):
            return False
        if isinstance(s, Arc):
            if (s.start, s.end, s.radius, s.rotation, bool(s.large_arc), bool(s.sweep)) != \
               (t.start, t.end, t.radius, t.rotation, bool(t.large_arc), bool(t.sweep)):
                return False
        elif list(s.bpoints()) != list(t.bpoints()):
            return False
    return True


# ----------------------------------------------------------------- wsvg case
def wsvg_case(rng, scratch, ci, stream):
    from svgpathtools import wsvg, svg2paths2, Document, SaxDocument, parse_path
    from svgpathtools import Path
    n = rng.randint(1, 5)
    paths = [gen_path(rng) for _ in range(n)]
    empty_at, viewbox = None, None
    if stream == 'wsvg' and rng.random() < 0.15:
        # the (legitimate) empty path at the front / in the middle / at the end of the list
        empty_at = rng.choice(['front', 'middle', 'end', 'only'])
        if empty_at == 'only':
            paths = [Path()]
        else:
            paths.insert({'front': 0, 'middle': max(1, len(paths) // 2) if len(paths) > 1 else 0, 'end': len(paths)}[empty_at], Path())
        n = len(paths)
        if rng.random() < 0.7:
            viewbox = '0 0 100 100'         # without it disvg asks every path for its bounding box
    style = None
    if stream == 'style':
        style = rng.choice(['fill:none;stroke:black', 'fill:none;stroke:black;', 'stroke-width:2', 'fill:red;', 'opacity:0.5;fill:blue'])
    use_attrs = stream == 'style' or empty_at is not None or rng.random() < 0.85
    attrs = [gen_attrs(rng, i, style if (stream == 'style' and i == 0) else None) for i in range(n)] if use_attrs else None
    if empty_at is not None:
        for i, a in enumerate(attrs):       # a distinct dictionary per path: a shifted pairing is visible
            a['id'] = 'p%d' % i
    svga = gen_svg_attrs(rng)
    fname = rng.choice(['out.svg', 'with space.svg', 'ünï.svg', 'sub dir/deeper/x.svg', 'a.b.c.svg'])
    fpath = os.path.join(scratch, 'w%d' % ci, fname)
    case = {'stream': stream, 'n': n, 'd': [p.d() for p in paths], 'attributes': attrs, 'svg_attributes': svga,
            'filename': fname, 'empty_path': empty_at, 'viewbox': viewbox}
    r = guarded(lambda: wsvg(paths, filename=fpath, attributes=[dict(a) for a in attrs] if attrs is not None else None,
                             svg_attributes=dict(svga) if svga is not None else None, viewbox=viewbox))
    case['write'] = {'exc': r['exc'], 'msg': r['msg']} if 'exc' in r else 'ok'
    if 'exc' in r:
        return case, paths
    def rd_s2p():
        ps, at, sa = svg2paths2(fpath)
        return ps, [dict(a) for a in at], dict(sa)
    def rd_doc():
        d = Document(fpath)
        ps = d.paths()
        return ps, [dict(p.element.attrib) for p in ps], dict(d.root.attrib)
    def rd_sax():
        s = SaxDocument(fpath)
        vals = [{k: v for k, v in t.items() if k not in ('matrix', 'name')} for t in s.tree]
        return s.flatten_all_paths(), vals, dict(s.root_values)
    case['readers'] = {'svg2paths': guarded(rd_s2p), 'document': guarded(rd_doc), 'sax': guarded(rd_sax)}
    shutil.rmtree(os.path.join(scratch, 'w%d' % ci), ignore_errors=True)
    return case, paths


def eval_wsvg(rep, case, paths, stats):
    """the property on the real code"""
    from svgpathtools import parse_path
    base = {'kind': 'wsvg', 'stream': case['stream'], 'd': case['d'], 'attributes': case['attributes'],
            'svg_attributes': case['svg_attributes'], 'filename': case['filename'],
            'empty_path': case.get('empty_path'), 'viewbox': case.get('viewbox')}
    if case['write'] != 'ok' and case.get('empty_path') and case['write']['exc'] == 'ValueError' and not case.get('viewbox'):
        rep.violation('C18: wsvg raises ValueError on a list that contains the empty Path() (its bbox() raises)',
                      dict(base, error=case['write']), key='wsvg-empty-path-bbox-valueerror')
        return
    if case['write'] != 'ok':
        rep.violation('C18: wsvg raises %s: %s' % (case['write']['exc'], case['write']['msg'][:100]),
                      dict(base, error=case['write']), key='wsvg-exception-%s' % case['write']['exc'])
        return
    expect = [parse_path(d) for d in case['d']]
    for p, e in zip(paths, expect):
        if not same_path(p, e):
            stats['c01_differs'] += 1      # property C01's business, not reported here
    for rd, r in case['readers'].items():
        if 'exc' in r:
            key = 'read-exception-%s-%s' % (rd, r['exc'])
            if rd == 'svg2paths' and r['exc'] == 'KeyError' and case.get('empty_path'):
                # svgwrite leaves the d attribute of the empty path out; svg2paths reads el['d']
                key = 'svg2paths-path-without-d-keyerror'
            if rd == 'sax' and r['exc'] == 'IndexError' and case['stream'] == 'style':
                key = 'sax-style-trailing-semicolon-indexerror'
            rep.violation('C18: %s raises %s on a file written by wsvg: %s' % (rd, r['exc'], r['msg'][:100]),
                          dict(base, reader=rd, error={k: v for k, v in r.items()}), key=key)
            continue
        ps, at, sa = r['ok']
        if len(ps) != len(paths) or len(at) != len(paths):
            rep.violation('C18: %s returns %d paths and %d attribute dictionaries, %d paths were written'
                          % (rd, len(ps), len(at), len(paths)),
                          dict(base, reader=rd), key='count-%s' % rd)
            continue
        for i, (got, e) in enumerate(zip(ps, expect)):
            if (at[i].get('d') or '') != case['d'][i]:
                rep.violation('C18: %s: the d attribute read back differs from Path.d()' % rd,
                              dict(base, reader=rd, index=i, got=at[i].get('d')), key='d-string-%s' % rd)
            elif not same_path(got, e):
                rep.violation('C18: %s: path %d read back differs from parse_path(p.d())' % (rd, i),
                              dict(base, reader=rd, index=i, got=got.d()), key='path-%s' % rd)
        if case['attributes'] is not None:
            for i, a in enumerate(case['attributes']):
                for k, v in a.items():
                    if k == 'd':
                        continue
                    want = v
                    if rd == 'sax' and 'style' in a:
                        # SaxDocument returns COMPUTED values: a declaration of the element's style attribute
                        # takes precedence over the presentation attribute of the same name (CSS cascade,
                        # SVG 1.1 6.4; theorem C18_sax_style_precedence) - the last declaration wins
                        for decl in a['style'].split(';'):
                            if ':' in decl and decl.split(':')[0] == k:
                                want = decl.split(':')[1]
                                stats['sax_style_precedence_seen'] = stats.get('sax_style_precedence_seen', 0) + 1
                    if at[i].get(k) != want:
                        key = 'attr-%s' % rd
                        v = want
                        rep.violation('C18: %s: attribute %r of path %d comes back as %r, supplied %r'
                                      % (rd, k, i, at[i].get(k), v),
                                      dict(base, reader=rd, index=i, attribute=k, got=at[i].get(k)), key=key)
        if case['svg_attributes'] is not None:
            for k, v in case['svg_attributes'].items():
                if sa.get(k) != v:
                    rep.violation('C18: %s: svg attribute %r comes back as %r, supplied %r' % (rd, k, sa.get(k), v),
                                  dict(base, reader=rd, attribute=k, got=sa.get(k)), key='svg-attr-%s' % rd)


def wsvg_coq_term(case):
    """(ds, attrs, svgattrs, size, observations) for check_wsvg, or None when not expressible"""
    if case['write'] != 'ok' or case['attributes'] is None:
        return None
    rd = case['readers']
    if 'exc' in rd['document']:
        return None
    s2p_ok = 'ok' in rd['svg2paths']
    if case.get('viewbox') and case['svg_attributes'] is not None:
        return None          # (disvg ignores the viewbox argument when svg_attributes are given)
    sax_ok = 'ok' in rd['sax']
    allstr = list(case['d'])
    for a in case['attributes']:
        allstr += list(a.keys()) + list(a.values())
    doc_ps, doc_at, doc_sa = rd['document']['ok']
    s2p_ps, s2p_at, s2p_sa = rd['svg2paths']['ok'] if s2p_ok else ([], [], doc_sa)
    sax_ps, sax_at, sax_sa = rd['sax']['ok'] if sax_ok else ([], [], {})
    for dd in s2p_at + doc_at + sax_at + [s2p_sa]:
        allstr += list(dd.keys()) + list(dd.values())
    if not all(coqable(s) for s in allstr):
        return None
    sva = case['svg_attributes'] or {}
    size = {k: v for k, v in s2p_sa.items() if k in ('width', 'height', 'viewBox') and k not in sva}
    return '(%s, %s, %s, %s, %s, %s, %s, %s)' % (
        clstr(case['d']), cldict(case['attributes']), cdict(sva), cdict(size),
        '(Some (%s, %s))' % (clstr([a.get('d', '') for a in s2p_at]), cldict(s2p_at)) if s2p_ok
        else '(@None (list string * list dict))',
        '(Some %s)' % cdict(s2p_sa) if s2p_ok else '(@None dict)',
        '(%s, %s)' % (clstr([a.get('d', '') for a in doc_at]), cldict(doc_at)),
        '(Some (%s, %s))' % (clstr([a.get('d', '') for a in sax_at]), cldict(sax_at)) if sax_ok
        else '(@None (list string * list dict))')


# ------------------------------------------------------------ history case
def xel_of(el):
    tag = el.tag
    if isinstance(tag, str) and tag.startswith('{'):
        ns, local = tag[1:].split('}', 1)
    else:
        ns, local = '', tag
    return {'ns': ns, 'local': local, 'attrs': dict(el.attrib), 'kids': [xel_of(c) for c in list(el)]}


def xel_coq(x):
    kids = coq_list([xel_coq(c) for c in x['kids']]) if x['kids'] else '(@nil xel)'
    return '(XE %s %s %s %s)' % (cs(x['ns']), cs(x['local']), cdict(x['attrs']), kids)


def positions(x, p=()):
    yield p, x
    for i, c in enumerate(x['kids']):
        for r in positions(c, p + (i,)):
            yield r


def pos_coq(p):
    return coq_list([str(i) for i in p]) if p else '(@nil nat)'


def simple_d(rng):
    pts = [(rng.randint(-20, 20), rng.randint(-20, 20)) for _ in range(rng.randint(2, 4))]
    return 'M %d,%d ' % pts[0] + ' '.join('L %d,%d' % p for p in pts[1:])


def initial_doc(rng, scratch, ci):
    from svgpathtools import Document, wsvg, parse_path
    kind = rng.choice(['none', 'wsvg', 'hand', 'hand', 'prefixed'])
    fpath = os.path.join(scratch, 'h%d_in.svg' % ci)
    if kind == 'none':
        return kind, Document(None), None
    if kind == 'wsvg':
        ps = [parse_path(simple_d(rng)) for _ in range(rng.randint(1, 3))]
        wsvg(ps, filename=fpath, attributes=[{'id': 'w%d' % i} for i in range(len(ps))])
    else:
        pre = 'svg:' if kind == 'prefixed' else ''
        cnt = [0]
        def grp(depth):
            s = ''
            for _ in range(rng.randint(0, 3)):
                if depth < 3 and rng.random() < 0.4:
                    s += '<%sg id="%s">%s</%sg>' % (pre, rng.choice(['A', 'B', 'C', 'A']), grp(depth + 1), pre)
                else:
                    cnt[0] += 1
                    s += '<%spath id="o%d" d="%s"/>' % (pre, cnt[0], simple_d(rng))
            return s
        body = grp(1)
        ns = 'xmlns:svg="%s"' % SVGNS if kind == 'prefixed' else 'xmlns="%s"' % SVGNS
        with open(fpath, 'w') as f:
            f.write('<%ssvg %s>%s</%ssvg>' % (pre, ns, body, pre))
    return kind, Document(fpath), fpath


def history_case(rng, scratch, ci):
    from svgpathtools import Document, svg2paths, SaxDocument, parse_path
    kind, doc, fin = initial_doc(rng, scratch, ci)
    root0 = xel_of(doc.tree.getroot())
    case = {'initial': kind, 'initial_tree': root0, 'ops': [], 'steps': [], 'invisible_after_add': [],
            'stale_d': [], 'attr_changed': []}
    added = {}
    ops_coq = []
    nadd = 0
    for step in range(rng.randint(1, 8)):
        cur = xel_of(doc.tree.getroot())
        allpos = list(positions(cur))
        gpos = [p for p, x in allpos if x['local'] == 'g' or p == ()]
        opk = rng.choice(['path-root', 'path-elem', 'path-names', 'group', 'group'])
        def elem_at(p):
            el = doc.tree.getroot()
            for i in p:
                el = list(el)[i]
            return el
        if opk.startswith('path'):
            nadd += 1
            d_in = simple_d(rng)
            # first argument: a Path object or a d-string; the path that must come back is its d()
            as_path = rng.random() < 0.5
            if rng.random() < 0.18:
                d_in = ''                  # the empty path: Path() / '' (front, middle or end of the history)
                case['empty_added'] = case.get('empty_added', 0) + 1
            arg = parse_path(d_in) if as_path else d_in
            d = arg.d() if as_path else d_in
            # attribute dicts: None, without 'd', and (the typical svg2paths -> edit -> add_path history)
            # with a 'd' entry that differs from the path being added: the path itself supersedes it
            stale = simple_d(rng)
            while stale == d:
                stale = simple_d(rng)
            at = rng.choice([None, {}, {'id': 'n%d' % nadd}, {'id': 'n%d' % nadd, 'stroke': 'red'},
                             {'d': stale, 'id': 'n%d' % nadd}, {'d': stale}, {'stroke': 'blue', 'd': stale, 'id': 'n%d' % nadd},
                             {'d': d, 'id': 'n%d' % nadd}])
            at_in = None if at is None else dict(at)
            atc = cdict(at or {})
            kindtag = ('Path' if as_path else 'str') + ('+d' if at and 'd' in at else '')
            if opk == 'path-root':
                new = doc.add_path(arg, at)
                case['ops'].append(['add_path', d, at_in, None, kindtag]); ops_coq.append('(OpAddPath %s %s (@nil nat))' % (cs(d), atc))
            elif opk == 'path-elem':
                p = rng.choice(gpos if rng.random() < 0.85 else [q for q, _ in allpos])
                new = doc.add_path(arg, at, group=elem_at(p))
                case['ops'].append(['add_path', d, at_in, list(p), kindtag]); ops_coq.append('(OpAddPath %s %s %s)' % (cs(d), atc, pos_coq(p)))
            else:
                # nested group names, up to four levels (layer / part / detail / ...)
                pool = rng.choice([['A', 'B', 'C', 'N'], ['layer', 'part', 'detail', 'item'], ['layer', 'A', 'part', 'B']])
                names = [rng.choice(pool) for _ in range(rng.randint(1, 4))] if rng.random() < 0.5 \
                    else ['layer', 'part', 'detail', 'item'][:rng.randint(1, 4)]
                new = doc.add_path(arg, at, group=list(names))
                case['ops'].append(['add_path', d, at_in, names, kindtag]); ops_coq.append('(OpAddPathNamed %s %s %s)' % (cs(d), atc, clstr(names)))
            added[id(new)] = (new, d)
            if new.get('d') != d:
                case['stale_d'].append({'step': step, 'expected_d': d, 'element_d': new.get('d'), 'attribs': at_in,
                                        'first_argument': 'Path' if as_path else 'd-string'})
            if at_in is not None and at != at_in:
                case['attr_changed'].append({'step': step, 'what': 'the caller\'s attribute dict was modified', 'attribs': at_in})
            bad = {k: (v, new.get(k)) for k, v in (at_in or {}).items() if k != 'd' and new.get(k) != v}
            if bad:
                case['attr_changed'].append({'step': step, 'what': 'supplied attributes changed', 'changed': bad})
            vis = any(p.element is new for p in doc.paths())
            # the property speaks of paths added to the document's groups: the parent must be the root
            # or a g reached from it through g elements (whatever their namespace)
            par = {id(c): e for e in doc.tree.getroot().iter() for c in list(e)}
            anc, reach_ok = par.get(id(new)), True
            while anc is not None and anc is not doc.tree.getroot():
                reach_ok = reach_ok and str(anc.tag).split('}')[-1] == 'g'
                anc = par.get(id(anc))
            if not vis and reach_ok:
                case['invisible_after_add'].append(step)
        else:
            at = rng.choice([None, {'id': rng.choice(['A', 'B', 'N'])}, {'id': 'G%d' % step, 'transform': 'translate(1,2)'}])
            if rng.random() < 0.35:
                doc.add_group(at)
                p = ()
            else:
                # add_group(parent=...) chains: prefer the deepest groups
                deep = max(len(q) for q in gpos)
                p = rng.choice([q for q in gpos if len(q) == deep] if rng.random() < 0.6 else gpos)
                doc.add_group(at, parent=elem_at(p))
            case['ops'].append(['add_group', at, list(p)]); ops_coq.append('(OpAddGroup %s %s)' % (cdict(at or {}), pos_coq(p)))
        case['steps'].append([p.element.get('d', '') for p in doc.paths()])
    final = xel_of(doc.tree.getroot())
    case['final_tree'] = final
    # paths_from_group by nested names (recursive and not) on every chain of named groups that exists
    locn = lambda e: str(e.tag).split('}')[-1]
    def gkids(e):
        return [c for c in list(e) if locn(c) == 'g']
    def below(e, recursive):
        out = [c.get('d', '') for c in list(e) if locn(c) == 'path']
        if recursive:
            for c in gkids(e):
                out += below(c, True)
        return out
    chains = []
    def walk(e, names, depth):
        seen = set()
        for c in gkids(e):
            nm = c.get('id')
            if nm is None or nm in seen:
                continue             # get_group takes the first group with that id
            seen.add(nm)
            chains.append((names + [nm], c, depth))
            if depth < 4:
                walk(c, names + [nm], depth + 1)
    walk(doc.tree.getroot(), [], 1)
    case['group_queries'] = []
    for names, el, depth in chains[:12]:
        for recursive in (True, False):
            r = guarded(lambda: sorted(p.element.get('d', '') for p in doc.paths_from_group(list(names), recursive=recursive)))
            case['group_queries'].append({'names': names, 'recursive': recursive, 'depth_below': group_depth(el, locn),
                                          'want': sorted(below(el, recursive)), 'got': r.get('ok'), 'error': r.get('exc')})
    fout = os.path.join(scratch, 'h%d_out.svg' % ci)
    doc.save(fout)
    case['saved_text'] = open(fout).read()
    # every reader: the paths AND the attribute dictionaries it returns; a path that does not belong to
    # the dictionary at its index (or a missing one) shows up as '<no path>' / '<other path>'
    def paired(ps, ds, comparable):
        out = []
        for i, dd in enumerate(ds):
            if i >= len(ps):
                out.append('<no path>')
            elif comparable[i] and not (ps[i] == parse_path(dd)):
                out.append('<other path>')
            else:
                out.append(dd)
        return out + ['<extra path>'] * max(0, len(ps) - len(ds))
    def rd_doc():
        ps = Document(fout).paths()
        return paired(ps, [p.element.get('d', '') for p in ps], [False] * len(ps))
    def rd_s2p():
        ps, at = svg2paths(fout)
        return paired(ps, [a['d'] for a in at], [True] * len(at))
    def rd_sax():
        sx = SaxDocument(fout)
        return paired(sx.flatten_all_paths(), [v['d'] for v in sx.tree], [v['matrix'] is None for v in sx.tree])
    r1, r2, r3 = guarded(rd_doc), guarded(rd_s2p), guarded(rd_sax)
    case['reload'] = {'document': r1, 'svg2paths': r2, 'sax': r3}
    for f in (fin, fout):
        if f and os.path.exists(f):
            os.remove(f)
    # the paths the document holds: for an added element the path that was ADDED (not what the
    # element's d attribute happens to say), for the others their d attribute
    loc = lambda e: str(e.tag).split('}')[-1]
    want_d = lambda e: added[id(e)][1] if id(e) in added else e.get('d', '')
    rt = doc.tree.getroot()
    case['all_path_d'] = [want_d(e) for e in rt.iter() if loc(e) == 'path']
    def reach_d(e):
        out = [want_d(c) for c in list(e) if loc(c) == 'path']
        for c in list(e):
            if loc(c) == 'g':
                out += reach_d(c)
        return out
    case['reachable_path_d'] = reach_d(rt)
    term = None
    strs = [case['saved_text']]
    if 'ok' in r1 and all(coqable(s) for s in strs):
        term = '(%s, %s, %s, %s, %s, %s, %s)' % (
            xel_coq(root0), coq_list(ops_coq), coq_list([clstr(s) for s in case['steps']]), xel_coq(final),
            clstr(r1['ok']), '(Some %s)' % clstr(r2['ok']) if 'ok' in r2 else '(@None (list string))',
            '(Some %s)' % clstr(r3['ok']) if 'ok' in r3 else '(@None (list string))')
    return case, term


def group_depth(e, locn):
    ks = [c for c in list(e) if locn(c) == 'g']
    return 1 + max([group_depth(c, locn) for c in ks]) if ks else 0


def eval_history(rep, case):
    base = {'kind': 'history', 'initial': case['initial'], 'ops': case['ops'], 'saved_text': case['saved_text'][:1500]}
    if case['stale_d']:
        rep.violation('C18: the element created by Document.add_path does not carry the path that was added: a \'d\' entry '
                      'of the attribute dict supersedes it (%s)' % case['stale_d'][0],
                      dict(base, stale=case['stale_d']), key='doc-add-path-d-overridden-by-attribs')
    if case['attr_changed']:
        rep.violation('C18: Document.add_path changes the supplied attributes: %s' % case['attr_changed'][0],
                      dict(base, changed=case['attr_changed']), key='doc-add-path-attribute-changed')
    for q in case.get('group_queries', []):
        if q['error'] or q['got'] != q['want']:
            rep.violation('C18: paths_from_group(%r, recursive=%s) returns %s of the %d paths below that group '
                          '(groups nested %d levels below it)'
                          % (q['names'], q['recursive'], 'an error instead' if q['error'] else len(q['got']),
                             len(q['want']), q['depth_below']),
                          dict(base, query=q), key='doc-paths-from-group-names-%s'
                          % ('recursive-misses-nested' if q['recursive'] else 'nonrecursive-mismatch'))
            break
    if case['invisible_after_add']:
        rep.violation('C18: a path added with Document.add_path is not returned by that Document\'s paths() '
                      '(steps %s)' % case['invisible_after_add'],
                      dict(base, steps_paths=case['steps']), key='doc-add-path-invisible')
    for rd, r in case['reload'].items():
        # Document flattens the groups below the root; svg2paths and SaxDocument take every path element
        want = sorted(case['reachable_path_d'] if rd == 'document' else case['all_path_d'])
        if 'exc' in r:
            rep.violation('C18: %s raises %s on a file saved by Document' % (rd, r['exc']),
                          dict(base, reader=rd, error=r), key='doc-save-read-exception-%s-%s' % (rd, r['exc']))
            continue
        if any(x in ('<no path>', '<other path>', '<extra path>') for x in r['ok']):
            rep.violation('C18: %s: the paths and the attribute dictionaries read back from a file saved by Document do '
                          'not correspond one to one, each dictionary with its own path: %s' % (rd, r['ok']),
                          dict(base, reader=rd, got=r['ok']), key='read-back-path-attribute-pairing-%s' % rd)
            continue
        got = sorted(r['ok'])
        if got != want:
            missing = [d for d in want if d not in got]
            rep.violation('C18: %s reads back %d of the %d paths of a file saved by Document'
                          % (rd, len(got), len(want)),
                          dict(base, reader=rd, missing=missing, got=r['ok']),
                          key=('doc-saved-path-differs-from-added-%s' % rd) if (case['stale_d'] and len(got) == len(want)) else
                              {'document': 'doc-saved-added-path-unreadable-by-document',
                               'sax': 'doc-saved-added-path-unreadable-by-sax',
                               'svg2paths': 'doc-save-svg-prefix-unreadable-by-svg2paths'}[rd])


def keycount_total(kc):
    return sum(kc.values())


def saxsave_case(rng, scratch, ci):
    """a file with per-path and group transforms (rotations, skews, general matrices: non-symmetric)
    -> SaxDocument -> save -> reload with SaxDocument and Document.paths()"""
    import re, numpy as np
    import xml.etree.ElementTree as ET
    from svgpathtools import wsvg, SaxDocument, Document, parse_path
    from harness import c17 as T
    f1 = os.path.join(scratch, 's%d_in.svg' % ci)
    f2 = os.path.join(scratch, 's%d_out.svg' % ci)
    def nonsym_tf():
        k = rng.choice(['rot', 'rot3', 'skewX', 'skewY', 'matrix', 'mixed', 'sym'])
        if k == 'rot':
            return [('rotate', T.gen_angle_rot(rng, False), None)]
        if k == 'rot3':
            return [('rotate', T.gen_angle_rot(rng, False), [T.dy(rng, -16, 16), T.dy(rng, -16, 16)])]
        if k in ('skewX', 'skewY'):
            return [(k, T.gen_angle_skew(rng, False))]
        if k == 'matrix':
            return [('matrix', [T.dy(rng, -4, 4), T.dy(rng, -4, 4), T.dy(rng, -4, 4), T.dy(rng, -4, 4), T.dy(rng), T.dy(rng)])]
        if k == 'mixed':
            return [T.gen_titem(rng, False) for _ in range(rng.randint(2, 3))]
        return [rng.choice([('translate', [T.dy(rng), T.dy(rng)]), ('scale', [2.0, 0.5])])]
    expect = []          # (d, segs, CTM) in document order
    via = rng.choice(['wsvg', 'hand', 'hand'])
    if via == 'wsvg':
        items = []
        for _ in range(rng.randint(1, 4)):
            d, segs = T.gen_path_d(rng, False)
            tf = nonsym_tf() if rng.random() < 0.8 else []
            items.append((d, segs, tf))
        wsvg([parse_path(d) for d, _, _ in items], filename=f1,
             attributes=[({'transform': T.tf_text(rng, tf)} if tf else {'stroke': 'red'}) for _, _, tf in items])
        for d, segs, tf in items:
            expect.append((segs, T.tf_matrix(tf)))
    else:
        def grp(depth, M):
            out = ''
            for _ in range(rng.randint(1, 3)):
                if depth < 3 and rng.random() < 0.4:
                    tf = nonsym_tf() if rng.random() < 0.7 else []
                    out += '<g%s>%s</g>' % (' transform="%s"' % T.tf_text(rng, tf) if tf else '', grp(depth + 1, T.tf_matrix(tf, M)))
                else:
                    d, segs = T.gen_path_d(rng, False)
                    tf = nonsym_tf() if rng.random() < 0.6 else []
                    out += '<path d="%s"%s fill="none"/>' % (d, ' transform="%s"' % T.tf_text(rng, tf) if tf else '')
                    expect.append((segs, T.tf_matrix(tf, M)))
            return out
        body = grp(1, None)
        with open(f1, 'w') as f:
            f.write('<svg xmlns="%s" width="100" height="100">%s</svg>' % (SVGNS, body))
    case = {'via': via, 'text': open(f1).read()[:3000], 'n': len(expect)}
    def work():
        s1 = SaxDocument(f1)
        rec = [None if v['matrix'] is None else np.array(v['matrix']).tolist() for v in s1.tree]
        s1.save(f2)
        written = []
        for el in ET.parse(f2).getroot():
            if str(el.tag).split('}')[-1] != 'path':
                continue
            t = el.get('transform')
            if t is None:
                written.append(None)
            else:
                m = re.match(r'^\s*matrix\(([^)]*)\)\s*$', t)
                written.append([float(x) for x in m.group(1).replace(',', ' ').split()] if m else 'unparsed:' + t)
        s2 = SaxDocument(f2)
        rel = [None if v['matrix'] is None else np.array(v['matrix']).tolist() for v in s2.tree]
        docp = [T.path_segs(p) for p in Document(f2).paths()]
        return rec, written, rel, docp, open(f2).read()[:3000]
    r = guarded(work)
    for f in (f1, f2):
        if os.path.exists(f):
            os.remove(f)
    case['result'] = r if 'exc' in r else 'ok'
    terms = []
    if 'ok' in r:
        rec, written, rel, docp, text2 = r['ok']
        case.update(recorded=rec, written=written, reloaded=rel, saved_text=text2)
        # property on the real code: Document.paths() of the re-saved file = the paths of the original,
        # each mapped by the product of its ancestors' transforms and its own
        bad = []
        if not (len(docp) == len(rec) == len(written) == len(rel) == len(expect)):
            bad.append('count: %d paths expected, recorded %d, written %d, reloaded %d, Document %d'
                       % (len(expect), len(rec), len(written), len(rel), len(docp)))
        else:
            for i, ((segs, M), got) in enumerate(zip(expect, docp)):
                pts = lambda sg: [q for q in sg[1:] if isinstance(q, tuple)]
                ex = [[(M[0][0] * x + M[0][1] * y + M[0][2], M[1][0] * x + M[1][1] * y + M[1][2]) for x, y in pts(sg)]
                      for sg in segs]
                gt = [pts(sg) for sg in got]
                sc = max([1.0] + [abs(v) for row in ex for q in row for v in q])
                same = [sg[0] for sg in segs] == [sg[0] for sg in got] and all(
                    len(a) == len(b) and all(abs(u - v) <= 1e-9 * sc for q1, q2 in zip(a, b) for u, v in zip(q1, q2))
                    for a, b in zip(ex, gt))
                if not same:
                    bad.append({'index': i, 'expected_ctm': M, 'written': written[i], 'got': str(got)[:300]})
        case['geometry_bad'] = bad
        if len(rec) == len(written) == len(rel):
            for a, w, b in zip(rec, written, rel):
                if isinstance(w, str):
                    continue
                sc = max([1.0] + [abs(v) for m in (a, b) if m for row in m for v in row] + [abs(v) for v in (w or [])])
                mc = lambda m: '(@None qmat)' if m is None else '(Some %s)' % T.mat_coq(m)
                wc = '(@None (list Qc))' if w is None else '(Some %s)' % coq_list([common.qc(v) for v in w])
                terms.append('(%s, (%s, %s, %s))' % (common.qc(1e-12 * sc), mc(a), wc, mc(b)))
    return case, terms


OKDEF_S = r'''
From SVP Require Import Model.SvgTree Model.SvgTreeCheck.
Definition casety : Type := (Qc * (option qmat * option (list Qc) * option qmat))%type.
Definition ok (c : casety) : nat := check_sax_dom (fst c) (snd c).
'''


OKDEF_W = r'''
From Coq Require Import String.
From SVP Require Import Model.SvgIO Model.SvgIOCheck.
Open Scope string_scope.
(* the variant of the code detected by the probes (false = pinned code) *)
Definition the_cfg : cfg := %s.
Definition casety : Type :=
  (list string * list dict * dict * dict * option (list string * list dict) * option dict
   * (list string * list dict) * option (list string * list dict))%%type.
Definition ok (c : casety) : nat :=
  let '(ds, attrs, sa, size, o1, o2, o3, o4) := c in check_wsvg the_cfg ds attrs sa size o1 o2 o3 o4.
'''
OKDEF_H = r'''
From Coq Require Import String.
From SVP Require Import Model.SvgIO Model.SvgIOCheck.
Open Scope string_scope.
Definition the_cfg : cfg := %s.
Definition casety : Type :=
  (xel * list op * list (list string) * xel * list string * option (list string) * option (list string))%%type.
Definition ok (c : casety) : nat :=
  let '(root, ops, steps, final, r1, r2, r3) := c in check_history the_cfg root ops steps final r1 r2 r3.
'''

FLAGS = ['style_skip', 'add_ns', 'default_ns', 'nod_empty']


def probe_flags(scratch):
    """which variant of each repaired behaviour does the implementation run?  The probes are the
    witnesses of the `_refuted` Examples of Props/C18.v"""
    from svgpathtools import Document, SaxDocument
    fl = {}
    p = os.path.join(scratch, 'p_style.svg')
    with open(p, 'w') as f:
        f.write('<svg xmlns="%s"><path d="M0,0 L1,1" style="fill:none;"/></svg>' % SVGNS)
    r = guarded(lambda: len(SaxDocument(p).tree))
    fl['style_skip'] = r.get('ok') == 1
    os.remove(p)
    def f():
        d = Document(None)
        e = d.add_path('M0,0 L1,1')
        return e.tag.startswith('{') and len(d.paths()) == 1
    fl['add_ns'] = guarded(f).get('ok') is True
    def g():
        d = Document(None)
        d.add_group({'id': 'A'})
        return 'svg:g' not in repr(d)
    fl['default_ns'] = guarded(g).get('ok') is True
    # svg2paths on a path element without d (witness of C18_wsvg_empty_path_refuted)
    from svgpathtools import svg2paths
    p = os.path.join(scratch, 'p_nod.svg')
    with open(p, 'w') as f:
        f.write('<svg xmlns="%s"><path id="a" d="M0,0 L1,1"/><path id="b"/></svg>' % SVGNS)
    r = guarded(lambda: [len(x) for x in svg2paths(p)[0]])
    fl['nod_empty'] = r.get('ok') == [1, 0]
    os.remove(p)
    return fl


def cfg_coq(fl):
    return '(mkCfg %s)' % ' '.join(common.coq_bool(fl[k]) for k in FLAGS)



def run(rep, tier, seed, replay=None):
    warnings.simplefilter('ignore')
    rng = common.mkrng(seed, 'C18')
    if not ensure_own_vo(rep, OWN):
        return
    scratch = tempfile.mkdtemp(prefix='svpverif_c18_')
    stats = {'c01_differs': 0, 'wsvg': 0, 'style': 0, 'history': 0, 'wsvg_in_coq': 0, 'history_in_coq': 0,
             'ops': {}, 'initial': {}, 'segments': {}, 'files': {}}
    try:
        with common.Scratch() as tmp:
            common.std_static(rep, 'C18', (), (), tmp)
            flags = probe_flags(scratch)
            rep.cov['variant'] = flags
            rep.notes.append('code variant detected by the probes (false = pinned 12ec128 behaviour): %s' % flags)
            okdef_w, okdef_h = OKDEF_W % cfg_coq(flags), OKDEF_H % cfg_coq(flags)
            nw, ns_, nh = (150, 30, 150) if tier == 'quick' else (1500, 200, 1500)
            keycount = {}
            _viol = rep.violation
            def counted(what, rp, found_input=True, key=None):
                keycount[key] = keycount.get(key, 0) + 1
                return _viol(what, rp, found_input, key)
            rep.violation = counted
            prop_failed = set()
            wterms, wmeta, hterms, hmeta = [], [], [], []
            samples = []
            nsx = 80 if tier == 'quick' else 800
            plan = ([('wsvg', i) for i in range(nw)] + [('style', i) for i in range(ns_)] + [('history', i) for i in range(nh)]
                    + [('saxsave', i) for i in range(nsx)])
            sterms, smeta = [], []
            stats['saxsave'] = 0; stats['saxsave_matrices'] = 0
            case_seed = seed
            if replay:
                r = json.load(open(replay))['replay']
                plan = [(r.get('stream_name', 'history'), r.get('case_index', 0))]
                case_seed = r.get('case_seed', seed)
            nontrivial = 0
            for stream, i in plan:
                crng = common.mkrng('%s/%s/%d' % (case_seed, stream, i), 'C18-case')
                if stream in ('wsvg', 'style'):
                    case, paths = wsvg_case(crng, scratch, i, stream)
                    case['stream_name'] = stream; case['case_index'] = i
                    stats[stream] += 1
                    stats['files'][case['filename']] = stats['files'].get(case['filename'], 0) + 1
                    for p in paths:
                        for s in p:
                            k = type(s).__name__; stats['segments'][k] = stats['segments'].get(k, 0) + 1
                    nv = len(rep.violations); kc0 = keycount_total(keycount)
                    eval_wsvg(rep, case, paths, stats)
                    for what, rp, *_ in rep.violations[nv:]:
                        rp['stream_name'] = stream; rp['case_index'] = i; rp['case_seed'] = case_seed
                    if keycount_total(keycount) > kc0:
                        prop_failed.add((stream, i))
                    if case['attributes'] and len(paths) > 1:
                        nontrivial += 1
                    t = wsvg_coq_term(case)
                    if t is not None:
                        wterms.append(t); wmeta.append(case)
                    if len(samples) < 2:
                        samples.append({'stream': stream, 'd': case['d'][:2], 'attributes': case['attributes'],
                                        'svg_attributes': case['svg_attributes']})
                elif stream == 'saxsave':
                    case, terms = saxsave_case(crng, scratch, i)
                    stats['saxsave'] += 1
                    base = {'kind': 'saxsave', 'stream_name': 'saxsave', 'case_index': i, 'case_seed': case_seed,
                            'via': case['via'], 'input': case['text'], 'saved': case.get('saved_text')}
                    if case['result'] != 'ok':
                        rep.violation('C18: SaxDocument load -> save -> reload raises %s: %s'
                                      % (case['result']['exc'], case['result']['msg'][:100]),
                                      dict(base, error=case['result']), key='sax-save-reload-exception-%s' % case['result']['exc'])
                    elif case['geometry_bad']:
                        rep.violation('C18: a file saved by SaxDocument does not give back the transformed paths of the '
                                      'file it was loaded from: %s' % str(case['geometry_bad'][0])[:300],
                                      dict(base, bad=case['geometry_bad'], recorded=case['recorded'], written=case['written']),
                                      key='sax-save-reload-geometry')
                        prop_failed.add(('saxsave', i))
                    for t in terms:
                        sterms.append(t); smeta.append((i, case))
                    stats['saxsave_matrices'] += len(terms)
                    if case['n'] > 1:
                        nontrivial += 1
                else:
                    case, t = history_case(crng, scratch, i)
                    case['stream_name'] = 'history'; case['case_index'] = i
                    stats['history'] += 1
                    stats['initial'][case['initial']] = stats['initial'].get(case['initial'], 0) + 1
                    for o in case['ops']:
                        k = o[0] + ('-names' if o[0] == 'add_path' and isinstance(o[3], list) and o[3] and isinstance(o[3][0], str) else '')
                        if o[0] == 'add_path':
                            k += ':' + o[4]
                        stats['ops'][k] = stats['ops'].get(k, 0) + 1
                    nv = len(rep.violations); kc0 = keycount_total(keycount)
                    eval_history(rep, case)
                    for what, rp, *_ in rep.violations[nv:]:
                        rp['stream_name'] = 'history'; rp['case_index'] = i; rp['case_seed'] = case_seed
                    if keycount_total(keycount) > kc0:
                        prop_failed.add(('history', i))
                    if len(case['ops']) >= 2:
                        nontrivial += 1
                    if t is not None:
                        hterms.append(t); hmeta.append(case)
                    if len(samples) < 4:
                        samples.append({'stream': 'history', 'initial': case['initial'], 'ops': case['ops'],
                                        'paths_after_each_step': case['steps']})
            stats['wsvg_in_coq'], stats['history_in_coq'] = len(wterms), len(hterms)
            fails, errors = common.run_cases(tmp, '', 'casety', okdef_w, wterms, shard=40, prefix='cases_c18w')
            for e in errors:
                rep.violation('correspondence case file failed to evaluate', {'kind': 'cases', 'error': e},
                              found_input=False, key='cases-error')
            for idx, code in fails:
                c = wmeta[idx]
                names = [n for b, n in ((1, 'svg2paths'), (2, 'Document'), (4, 'SaxDocument'), (8, 'svg attributes')) if code & b]
                rep.violation('C18: the model of wsvg + %s does not predict what the implementation read back' % names,
                              {'kind': 'tie-wsvg', 'stream_name': c['stream_name'], 'case_index': c['case_index'], 'case_seed': case_seed,
                               'd': c['d'], 'attributes': c['attributes'], 'svg_attributes': c['svg_attributes'],
                               'readers': str(c['readers'])[:2000]},
                              found_input=(c['stream_name'], c['case_index']) in prop_failed, key='tie-wsvg')
            fails, errors = common.run_cases(tmp, '', 'casety', OKDEF_S, sterms, shard=60, prefix='cases_c18s')
            for e in errors:
                rep.violation('correspondence case file failed to evaluate', {'kind': 'cases', 'error': e},
                              found_input=False, key='cases-error')
            for idx, code in fails:
                i, c = smeta[idx]
                names = [n for b, n in ((1, 'the numbers generate_dom writes'), (2, 'written transform = recorded matrix (SVG 7.6)'),
                                        (4, 'matrix after reload')) if code & b]
                rep.violation('C18: SaxDocument.save: the model of generate_dom\'s matrix serialisation does not hold: %s' % names,
                              {'kind': 'tie-saxsave', 'stream_name': 'saxsave', 'case_index': i, 'case_seed': case_seed,
                               'recorded': c.get('recorded'), 'written': c.get('written'), 'reloaded': c.get('reloaded'),
                               'saved': c.get('saved_text')},
                              found_input=('saxsave', i) in prop_failed,
                              key='sax-generate-dom-matrix' if code & 2 else 'tie-saxsave')
            fails, errors = common.run_cases(tmp, '', 'casety', okdef_h, hterms, shard=25, prefix='cases_c18h')
            for e in errors:
                rep.violation('correspondence case file failed to evaluate', {'kind': 'cases', 'error': e},
                              found_input=False, key='cases-error')
            for idx, code in fails:
                c = hmeta[idx]
                names = [n for b, n in ((1, 'element tree after the history'), (2, 'paths() after a step'),
                                        (4, 'Document reload'), (8, 'svg2paths on the saved file'),
                                        (16, 'SaxDocument on the saved file')) if code & b]
                rep.violation('C18: the Document history model does not predict: %s' % names,
                              {'kind': 'tie-history', 'stream_name': 'history', 'case_index': c['case_index'], 'case_seed': case_seed,
                               'initial': c['initial'], 'ops': c['ops'], 'saved_text': c['saved_text'][:1500],
                               'steps': c['steps'], 'reload': str(c['reload'])[:1500]},
                              found_input=('history', c['case_index']) in prop_failed, key='tie-history')
            rep.cov['evaluations'] = (stats['wsvg'] * 3 + stats['style'] * 3 + stats['history'] * 4 + stats['saxsave'] * 2
                                      + len(wterms) + len(hterms) + len(sterms))
            rep.cov['traces_validated_against_impl'] = len(hterms) + len(wterms) + len(sterms)
            rep.cov['distinct_nontrivial'] = nontrivial
            rep.cov['rule'] = ('wsvg stream: 1-5 random paths (Line/Quadratic/Cubic/Arc, 1-3 subpaths), attribute dicts from a pool of '
                               'presentation attributes with values containing spaces, quotes, markup characters and non-ASCII, '
                               'svg-level attributes, 5 file names; read back by svg2paths2, Document, SaxDocument (3 evaluations '
                               'per case); history stream: initial document from {Document(None), wsvg file, hand-written files with '
                               'nested groups, svg:-prefixed file}, 1-6 steps of add_path (root / element / nested names) and '
                               'add_group, paths() after every step, save, reload by the three readers; non-trivial = several '
                               'paths with attributes, or a history of >= 2 steps; ties computed inside Coq')
            rep.cov['input_distribution'] = stats
            rep.cov['violation_classes'] = keycount
            rep.violation = _viol
            rep.cov['samples'] = samples
            rep.notes.append('%d of the generated paths differ from parse_path(p.d()) (property C01, not reported here)'
                             % stats['c01_differs'])
    finally:
        shutil.rmtree(scratch, ignore_errors=True)
    rep.assumptions += ['svgwrite, minidom.toprettyxml and ElementTree serialisation / parsing are oracles (sampled here)',
                        'the d-string -> Path step is property C01 (theorem C18_wsvg_roundtrip_partial states the hypothesis)',
                        'svgwrite-reserved svg attributes (version, baseProfile, profile, debug, xmlns*) and attribute names '
                        'with underscores are outside the generated pool']
