"""C05 — path parameter T, segment parameter t and arc length fractions are
coherent; iscontinuous / isclosed / continuous_subpaths report exactly the
coincidences of consecutive segment end points.

Theorems: coq/Props/C05.v (model coq/Model/PathIdx.v).
Tie: correspondence, bit-exact in binary64 (PrimFloat, NumF) inside Coq.  The
search loops are not expression-level, so there is no translator tie; a
normalised-AST fingerprint of the modelled functions is recorded instead and a
changed fingerprint quadruples the case budget.

Per random path: the segment lengths (DATA, from seg.length() called exactly as
_calc_lengths calls it, each tagged exact-float / numpy-scalar) and the
implementation's own _lengths/_length are handed to the model; Coq checks
  fractions(model) == _lengths bitwise, total == _length,
  T2t / point / t2T: same exception-or-not, same k exactly, t / T within 4 ulp,
  iscontinuous / continuous_subpaths / isclosed exactly,
for the flags comp (which builtin sum() this interpreter has), fb (does the
code fall back to the last nonzero-length segment when the loop runs out) and
cl (does T2t clamp its quotient to 1), all determined from the implementation.
Then the property itself is evaluated on the implementation: a code that falls
off below 1 or returns t > 1 is reported with the keys 'T2t-falloff-below-1' /
'T2t-t-above-1' whatever the flags say.  For the repaired code (fb = cl = true)
the applicable binary64 theorems are C05_T2t_total_float and C05_T2t_le_1_float
(all inputs); the *_refuted Examples are the witnesses against the unrepaired
variants.
"""
import sys, math, json, ast, inspect, hashlib, textwrap, warnings
from fractions import Fraction
import common
from common import coq_list, coq_bool

EPS = 2.0 ** -53
KINDS = ['L', 'Q', 'C', 'A']

# normalised-AST hashes of the functions the model mirrors (pinned tree)
FINGERPRINTS = {
    'Path._calc_lengths': None, 'Path.point': None, 'Path.T2t': None, 'Path.t2T': None,
    'Path.iscontinuous': None, 'Path.continuous_subpaths': None, 'Path.isclosed': None,
}
PINNED = {     # hashes of the unrepaired tree and of the tree with both C05 repairs applied
    'Path._calc_lengths': ('f7a685d814', '2f71413bb7'),   # 2nd: C16's tolerance-keyed cache, same arithmetic
    'Path.point': ('1cbaa016c5', '6c7d8f1210'),
    'Path.T2t': ('d0d39c6731', '306cc0dfa7'), 'Path.t2T': ('5c375cf2aa',),
    'Path.iscontinuous': ('12699dce58',), 'Path.continuous_subpaths': ('e684beb0f3',),
    'Path.isclosed': ('61a5bbb3d5',),
}


def fingerprints():
    from svgpathtools.path import Path
    out = {}
    for qn in FINGERPRINTS:
        fn = getattr(Path, qn.split('.')[1])
        try:
            tree = ast.parse(textwrap.dedent(inspect.getsource(fn)))
            for node in ast.walk(tree):          # drop docstrings
                if isinstance(node, ast.FunctionDef) and node.body and isinstance(node.body[0], ast.Expr) \
                        and isinstance(getattr(node.body[0], 'value', None), ast.Constant) \
                        and isinstance(node.body[0].value.value, str):
                    node.body = node.body[1:] or [ast.Pass()]
            out[qn] = hashlib.sha1(ast.dump(tree).encode()).hexdigest()[:10]
        except Exception as e:                   # pragma: no cover
            out[qn] = 'unavailable:%s' % type(e).__name__
    return out


# ------------------------------------------------------------ float literals
def fl(x):
    """exact Coq PrimFloat literal of a Python / numpy float (or int)"""
    x = float(x)
    if math.isnan(x):
        return 'nan'
    if math.isinf(x):
        return 'infinity' if x > 0 else 'neg_infinity'
    h = x.hex()
    if h.startswith('-'):
        return '(- %s)%%float' % h[1:]
    return '%s%%float' % h


def tagged(xs):
    return coq_list(['(%s, %s)' % (coq_bool(type(x) is float), fl(x)) for x in xs])


# --------------------------------------------------------------- generators
def cx(rng, scale):
    return complex(rng.uniform(-scale, scale), rng.uniform(-scale, scale))


def unit(rng):
    a = rng.uniform(0, 2 * math.pi)
    return complex(math.cos(a), math.sin(a))


def gen_seg_spec(rng, kind, start, size):
    """a segment of the given kind starting at `start`, of diameter ~ size"""
    end = start + size * unit(rng) * rng.uniform(0.5, 1.5)
    if kind == 'L':
        return ['L', start, end]
    if kind == 'Q':
        if rng.random() < 0.15:      # collinear control point: closed form degenerates
            return ['Q', start, start + (end - start) * rng.choice([0.5, 0.25, 2.0]), end]
        return ['Q', start, start + size * cx(rng, 1.0), end]
    if kind == 'C':
        return ['C', start, start + size * cx(rng, 1.0), start + size * cx(rng, 1.0), end]
    r = complex(size * rng.uniform(0.3, 2.0), size * rng.uniform(0.3, 2.0))
    return ['A', start, r, rng.uniform(-180, 180), rng.random() < 0.5, rng.random() < 0.5, end]


def zero_seg_spec(rng, p):
    k = rng.choice(['L', 'L', 'C', 'Q'])
    return {'L': ['L', p, p], 'C': ['C', p, p, p, p], 'Q': ['Q', p, p, p]}[k]


NEAR_GAPS = ['ulp', '1e-12', '1e-9', '5e-7']


def near_point(rng, p, gaps=None):
    """a point that is NOT equal to p but very close: 1 ulp in a coordinate, or
    an absolute gap of 1e-12 / 1e-9 / 5e-7 (1 ulp when that gap is absorbed at
    p's magnitude).  Returns (q, kind)."""
    kind = rng.choice(NEAR_GAPS)
    q = p
    if kind != 'ulp':
        g = float(kind)
        q = p + g * rng.choice([1, -1, 1j, -1j, unit(rng)])
    if q == p:
        kind = 'ulp' if kind == 'ulp' else kind + '->ulp'
        d = rng.choice([math.inf, -math.inf])
        w = rng.choice(['re', 'im', 'both'])
        q = complex(math.nextafter(p.real, d) if w != 'im' else p.real,
                    math.nextafter(p.imag, d) if w != 're' else p.imag)
    if gaps is not None:
        gaps[kind] = gaps.get(kind, 0) + 1
    return q, kind


def gen_path_spec(rng):
    """1..12 segments, all kinds, lengths spanning 1e-6..1e6 in one path, zero
    length segments (mostly non-leading), continuous / broken / closed /
    'near': some joints nearly but not exactly coincident / 'nearclosed':
    continuous with a nearly coincident closing joint (coordinates of size 1e-3,
    1, 100 or 1e6)"""
    n = rng.choice([1, 1, 2, 2, 3, 3, 4, 5, 6, 7, 8, 9, 10, 11, 12])
    smode = rng.choice(['equal', 'spread', 'spread', 'extreme', 'int'])
    cmode = rng.choice(['continuous', 'continuous', 'broken', 'closed', 'allbroken', 'near', 'near', 'nearclosed'])
    zmode = rng.choice(['none', 'none', 'inner', 'inner', 'trailing', 'leading'])
    base = 10 ** rng.uniform(-2, 2)
    specs = []
    pos = cx(rng, 100.0) if smode != 'int' else complex(rng.randint(-20, 20), rng.randint(-20, 20))
    gaps = {}
    if cmode in ('near', 'nearclosed'):
        cs = rng.choice([1e-3, 1.0, 100.0, 1e6])
        smode, base = 'coords~%g' % cs, cs * 10 ** rng.uniform(-1, 0)
        pos = cx(rng, cs)
        if cmode == 'near' and n == 1: n = 2
        forced = rng.randrange(1, n) if n > 1 else 0
    first = pos
    for i in range(n):
        if cmode == 'allbroken' or (cmode == 'broken' and i > 0 and rng.random() < 0.35):
            pos = pos + cx(rng, 10.0) + (3 + 2j)
        if cmode == 'near' and i > 0 and (i == forced or rng.random() < 0.4):
            pos, _ = near_point(rng, pos, gaps)
        zero = False
        if n > 1:
            if zmode == 'inner' and i > 0 and rng.random() < 0.3: zero = True
            if zmode == 'trailing' and i >= n - rng.choice([1, 2]) and i > 0: zero = True
            if zmode == 'leading' and i == 0: zero = True
        if zero:
            sp = zero_seg_spec(rng, pos)
        elif smode == 'int':
            end = pos + complex(rng.randint(-9, 9), rng.randint(-9, 9))
            if end == pos: end = pos + 1
            sp = ['L', pos, end]
        else:
            size = {'equal': base, 'spread': base * 10 ** rng.uniform(-2, 2),
                    'extreme': 10 ** rng.uniform(-6, 6)}.get(smode, base)
            sp = gen_seg_spec(rng, rng.choice(KINDS if n > 1 or cmode != 'nearclosed' else ['L', 'Q', 'C']), pos, size)
        if cmode == 'closed' and i == n - 1 and not zero and n > 1:
            sp[-1] = first
            if sp[0] == 'A' and sp[1] == first:
                sp = ['L', pos, first] if pos != first else zero_seg_spec(rng, pos)
        if cmode == 'nearclosed' and i == n - 1:
            q, _ = near_point(rng, first, gaps)
            if zero or (sp[0] == 'A' and sp[1] == q):
                sp = ['L', pos, q]
            else:
                sp[-1] = q
        specs.append(sp)
        pos = sp[-1]
    return specs, {'n': n, 'sizes': smode, 'joints': cmode, 'zeros': zmode, 'gaps': gaps}


def handpicked_near():
    """joints that are nearly, not exactly, coincident: 0.1+0.2 vs 0.3, gaps of
    1 ulp / 1e-12 / 1e-9 / 5e-7 at coordinates of size 1, 1e-3 and 1e6, on an
    open joint and on the closing joint of an otherwise continuous path"""
    out = []
    a, b = 0.1 + 0.2, 0.3                      # 0.30000000000000004 vs 0.3
    out.append([['L', 0j, complex(a, 0)], ['L', complex(b, 0), 1 + 0j]])
    out.append([['L', complex(b, 0), 1 + 0j], ['L', 1 + 0j, 1 + 1j], ['L', 1 + 1j, complex(a, 0)]])
    out.append([['C', complex(0, a), 1 + 1j, 2 + 1j, complex(b, a)], ['Q', complex(b, b), 3 + 3j, 4 + 0j]])
    for c in (1.0, 1e-3, 1e6):
        for g in (None, 1e-12, 1e-9, 5e-7):
            p = complex(c, c / 2)
            q = complex(math.nextafter(p.real, math.inf), p.imag) if g is None else p + g
            if q == p:
                q = complex(p.real, math.nextafter(p.imag, -math.inf))
            z = complex(-c, c)
            out.append([['L', z, p], ['L', q, z + c]])                         # open joint
            out.append([['L', p, z], ['L', z, z + c], ['L', z + c, q]])        # closing joint
    return out


def build(specs):
    from svgpathtools import Path, Line, QuadraticBezier, CubicBezier, Arc
    segs = []
    for sp in specs:
        k = sp[0]
        if k == 'L': segs.append(Line(sp[1], sp[2]))
        elif k == 'Q': segs.append(QuadraticBezier(sp[1], sp[2], sp[3]))
        elif k == 'C': segs.append(CubicBezier(sp[1], sp[2], sp[3], sp[4]))
        else: segs.append(Arc(sp[1], sp[2], sp[3], sp[4], sp[5], sp[6]))
    return Path(*segs)


def spec_json(specs):
    out = []
    for sp in specs:
        out.append([sp[0]] + [common.chex(v) if isinstance(v, complex) else
                              (v if isinstance(v, bool) else common.fhex(v)) for v in sp[1:]])
    return out


def spec_unjson(js):
    out = []
    for sp in js:
        vals = []
        for v in sp[1:]:
            if isinstance(v, list): vals.append(complex(float.fromhex(v[0]), float.fromhex(v[1])))
            elif isinstance(v, bool): vals.append(v)
            else: vals.append(float.fromhex(v))
        out.append([sp[0]] + vals)
    return out


def spec_repr(specs):
    names = {'L': 'Line', 'Q': 'QuadraticBezier', 'C': 'CubicBezier', 'A': 'Arc'}
    return 'Path(%s)' % ', '.join('%s(%s)' % (names[sp[0]], ', '.join(repr(v) for v in sp[1:])) for sp in specs)


# ------------------------------------------------------------ observations
def exc_code(e):
    from svgpathtools.misctools import BugException
    if e is BugException: return 1
    if isinstance(e, AssertionError): return 2
    if isinstance(e, ZeroDivisionError): return 3
    if isinstance(e, RuntimeError): return 4
    if isinstance(e, ValueError): return 5
    if isinstance(e, IndexError): return 6
    return 9


EXC_NAMES = {0: 'returns', 1: 'BugException', 2: 'AssertionError', 3: 'ZeroDivisionError',
             4: 'RuntimeError', 5: 'ValueError', 6: 'IndexError', 9: 'other exception'}


def raw_lengths(path):
    """the data _calc_lengths works on, obtained by the same calls"""
    from svgpathtools.path import LENGTH_ERROR, LENGTH_MIN_DEPTH
    return [seg.length(error=LENGTH_ERROR, min_depth=LENGTH_MIN_DEPTH) for seg in path]


def spy_point(path, T):
    """path.point(T), recording which segment was evaluated at which parameter"""
    rec = []
    segs = list(path)
    for i, s in enumerate(segs):
        def w(t, _s=s, _i=i):
            rec.append((_i, t))
            return type(_s).point(_s, t)
        s.point = w
    try:
        try:
            v = path.point(T)
            code = 0
        except Exception as e:
            v, code = None, exc_code(e)
    finally:
        for s in segs:
            try: del s.point
            except AttributeError: pass
    k, t = rec[-1] if (code == 0 and rec) else (0, 0.0)
    return code, k, t, v


def call(f, *a):
    try:
        return 0, f(*a)
    except Exception as e:
        return exc_code(e), None


def boundary_Ts(rng, fr, rich):
    """all boundary T of a path with _lengths fr: every cumulative value (as
    the loop accumulates it and as sum() does), their float neighbours,
    0, 1, 2^-53, 1-2^-53, plus random T"""
    Ts = [0.0, 1.0, EPS, 1.0 - EPS, 1.0 - 2 * EPS, 0.5]
    acc = 0
    cums = []
    for i, l in enumerate(fr):
        acc = acc + l
        cums.append(float(acc))
        cums.append(float(sum(fr[:i + 1])))
    for c in sorted(set(cums)):
        for v in (c, math.nextafter(c, -math.inf), math.nextafter(c, math.inf)):
            if 0.0 <= v <= 1.0:
                Ts.append(v)
    for _ in range(6 if rich else 3):
        Ts.append(rng.random())
    Ts.append(10 ** rng.uniform(-12, -1))
    Ts.append(1.0 - 10 ** rng.uniform(-12, -1))
    out, seen = [], set()
    for T in Ts:
        if T.hex() not in seen:
            seen.add(T.hex()); out.append(T)
    return out


OOD = [-0.25, 1.5, float('nan'), -1e-300, 1.0 + 2 * EPS]


def observe(specs, rng, replay_Ts=None, ood=False):
    """run the implementation on one path; returns a dict of observations"""
    path = build(specs)
    n = len(path)
    raw = raw_lengths(path)
    for x in raw:
        if not isinstance(x, float):      # numpy.float64 is a float subclass; ints are outside the generator
            raise AssertionError('segment length of type %s' % type(x))
    path._calc_lengths()
    fr, tot = list(path._lengths), path._length
    o = {'path': path, 'raw': raw, 'fr': fr, 'tot': tot, 'n': n}
    Ts = list(replay_Ts) if replay_Ts is not None else boundary_Ts(rng, fr, n >= 2)
    if ood and replay_Ts is None:
        Ts += OOD
    tcs = []
    for T in Ts:
        c1, r1 = call(path.T2t, T)
        k1, t1 = (r1 if c1 == 0 else (0, 0.0))
        c2, k2, t2, v2 = spy_point(path, T)
        if c1 == 0:
            c3, v3 = call(path.t2T, int(k1), t1)
        else:
            c3, v3 = 0, 0.0
        tcs.append({'T': T, 'c1': c1, 'k1': int(k1), 't1': t1, 'c2': c2, 'k2': k2, 't2': t2, 'v2': v2,
                    'c3': c3, 'v3': v3 if c3 == 0 else 0.0})
    o['tcs'] = tcs
    # t2T on its own: every segment at t = 0, 1 and a random t; one index out of range
    t2 = []
    if replay_Ts is None:
        for k in range(n):
            for t in (0.0, 1.0, rng.random()):
                c, v = call(path.t2T, k, t)
                d = {'k': k, 't': t, 'c': c, 'v': v if c == 0 else 0.0}
                if c == 0 and 0.0 < t < 1.0 and fr[k] > 0 and 0.0 < v < 1.0:
                    cb, rb = call(path.T2t, v)          # and back: T2t(t2T(k,t))
                    d['back'] = (cb, int(rb[0]), float(rb[1])) if cb == 0 else (cb, 0, 0.0)
                t2.append(d)
        c, v = call(path.t2T, n, 0.5)
        t2.append({'k': n, 't': 0.5, 'c': c, 'v': v if c == 0 else 0.0})
    o['t2T'] = t2
    # continuity predicates; end points canonicalised by Python's == on complex
    ids = {}
    def pid(z):
        return ids.setdefault(complex(z), len(ids))
    o['ends'] = [(pid(s.start), pid(s.end)) for s in path]
    o['iscont'] = bool(path.iscontinuous())
    subs = path.continuous_subpaths()
    o['subs'] = subs
    o['pieces'] = [len(s) for s in subs]
    c, v = call(path.isclosed)
    o['closed'] = (1 if v else 0) if c == 0 else (2 if c == 2 else 9)
    return o


def case_term(o):
    tcs = []
    for tc in o['tcs']:
        tcs.append('(%s, (%d, (%d)%%Z, %s), (%d, (%d)%%Z, %s), (%d, %s))' % (
            fl(tc['T']), tc['c1'], tc['k1'], fl(tc['t1']), tc['c2'], tc['k2'], fl(tc['t2']),
            tc['c3'], fl(tc['v3'])))
    t2 = ['(%d, %s, %d, %s)' % (c['k'], fl(c['t']), c['c'], fl(c['v'])) for c in o['t2T']]
    ends = ['(%d%%Z, %d%%Z)' % e for e in o['ends']]
    return '(%s, %s, %s, %s, %s, %s, %s, %s, %d)' % (
        tagged(o['raw']), tagged(o['fr']), fl(o['tot']), coq_list(tcs), coq_list(t2),
        coq_list(ends), coq_bool(o['iscont']), coq_list(['%d' % p for p in o['pieces']]), o['closed'])


OKDEF = r'''
From Coq Require Import PrimFloat.
From SVP Require Import Base.FloatK Model.PathIdx.
Definition N := NumF.
Definition comp : bool := %(comp)s.       (* which builtin sum() the interpreter has *)
Definition fb : bool := %(fb)s.           (* does the code fall back to the last nonzero-length segment *)
Definition cl : bool := %(cl)s.           (* does T2t clamp its quotient to 1 *)
Definition is_nan (x : float) : bool := negb (PrimFloat.eqb x x).
Definition fsame (a b : float) : bool := PrimFloat.eqb a b || (is_nan a && is_nan b).
Definition fnear (a b : float) : bool := fsame a b || fclose_ulps 4%%float a b.
Definition obs : Type := (nat * Z * float)%%type.
Definition code_of {A} (r : res A) : nat :=
  match r with
  | Ok _ => 0 | Err EBug => 1 | Err EAssert => 2 | Err EZeroDiv => 3
  | Err ERuntime => 4 | Err EValue => 5 | Err EIndex => 6
  end.
(* 0 agree; 1 exception-or-not differs; 2 k differs; 3 t differs by more than 4 ulp *)
Definition cmp_kt (r : res (Z * float)) (o : obs) : nat :=
  let '(c, k, t) := o in
  if negb (Nat.eqb (code_of r) c) then 1
  else match r with
       | Ok (k', t') => if negb (Z.eqb k k') then 2 else if fnear t t' then 0 else 3
       | Err _ => 0
       end.
Definition cmp_v (r : res float) (c : nat) (v : float) : nat :=
  if negb (Nat.eqb (code_of r) c) then 1
  else match r with Ok v' => if fnear v v' then 0 else 2 | Err _ => 0 end.
Definition tcase : Type := (float * obs * obs * (nat * float))%%type.
Definition ok_t (fs : list (bool * float)) (c : tcase) : nat :=
  let '(T, o1, o2, (c3, v3)) := c in
  match cmp_kt (T2t_fr N cl fb fs T) o1 with
  | 0 => match cmp_kt (point_fr N fb fs T) o2 with
         | 0 => let '(c1, k, t) := o1 in
                if Nat.eqb c1 0
                then match cmp_v (t2T_fr N comp fs (Z.to_nat k) t) c3 v3 with 0 => 0 | x => 6 + x end
                else 0
         | x => 3 + x
         end
  | x => x
  end.
Definition ok_t2 (fs : list (bool * float)) (c : nat * float * nat * float) : nat :=
  let '(k, t, cc, v) := c in
  match cmp_v (t2T_fr N comp fs k t) cc v with 0 => 0 | x => 8 + x end.
Fixpoint idx_first {A} (f : A -> nat) (i : nat) (l : list A) : nat :=
  match l with
  | [] => 0
  | x :: r => match f x with 0 => idx_first f (S i) r | c => 100 * (S i) + c end
  end.
Definition same_tl (a b : list (bool * float)) : bool :=
  lclose (fun x y => Bool.eqb (fst x) (fst y) && fsame (snd x) (snd y)) a b.
Definition closed_code (r : res bool) : nat :=
  match r with Ok false => 0 | Ok true => 1 | Err EAssert => 2 | Err _ => 9 end.
Definition casety : Type :=
  (list (bool * float) * list (bool * float) * float * list tcase * list (nat * float * nat * float)
   * list (Z * Z) * bool * list nat * nat)%%type.
Definition ok (c : casety) : nat :=
  let '(raw, fs, tot, tcs, t2s, ends, o_cont, o_pieces, o_closed) := c in
  let st := fun s : Z * Z => fst s in
  let en := fun s : Z * Z => snd s in
  match first_fail
     [ (same_tl (fractions N comp raw) fs, 1);      (* _lengths *)
       (fsame (total N comp raw) tot, 2);           (* _length *)
       (Bool.eqb (iscontinuous st en Z.eqb ends) o_cont, 3);
       (lclose Nat.eqb (map (@length _) (continuous_subpaths st en Z.eqb ends)) o_pieces, 4);
       (Nat.eqb (closed_code (isclosed st en Z.eqb ends)) o_closed, 5) ] with
  | 0 => match idx_first (ok_t fs) 0 tcs with
         | 0 => idx_first (ok_t2 fs) (length tcs) t2s
         | x => x
         end
  | x => x
  end.
'''

STATIC_CODES = {1: '_lengths (fractions) differ from the model', 2: '_length (sum) differs from the model',
                3: 'iscontinuous() differs from the model', 4: 'continuous_subpaths() piece sizes differ from the model',
                5: 'isclosed() differs from the model'}
T_CODES = {1: 'T2t: exception-or-not differs', 2: 'T2t: segment index differs', 3: 'T2t: t differs by more than 4 ulp',
           4: 'point: exception-or-not differs', 5: 'point: segment index differs',
           6: 'point: segment parameter differs by more than 4 ulp',
           7: 't2T(T2t(T)): exception-or-not differs', 8: 't2T(T2t(T)): value differs by more than 4 ulp',
           9: 't2T(k,t): exception-or-not differs', 10: 't2T(k,t): value differs by more than 4 ulp'}


def ulps(a, b):
    """distance in units of the spacing at max(|a|,|b|)"""
    if a == b: return 0.0
    m = max(abs(a), abs(b))
    return abs(a - b) / (math.nextafter(m, math.inf) - m)


# --------------------------------------------- the property on the real code
def impl_check(o, specs):
    """the property statement evaluated on the implementation for one path;
    returns a list of (key, what, T)"""
    path, fr, tot, n = o['path'], o['fr'], o['tot'], o['n']
    out = []
    if n == 0 or not (tot > 0):
        return out
    M = max([abs(z) for s in path for z in (s.start, s.end)] + [1e-300])
    tolp = 64 * EPS * (float(tot) + M)
    R = max([abs(s.radius.real) + abs(s.radius.imag) for s in path if hasattr(s, 'radius')] + [0.0])
    tole = 4096 * EPS * (M + R)
    rawq = [Fraction(float(x)) for x in o['raw']]
    totq = sum(rawq)
    cumq = [sum(rawq[:k]) / totq for k in range(n + 1)]
    for tc in o['tcs']:
        T = tc['T']
        if not (0.0 <= T <= 1.0):
            continue
        if tc['c1'] != 0 or tc['c2'] != 0:
            acc = 0
            for l in fr: acc = acc + l
            if 0.0 < T < 1.0 and acc < T and tc['c1'] in (0, 1) and tc['c2'] in (0, 4):
                out.append(('T2t-falloff-below-1',
                            'cumulative fractions end at %r < T: T2t -> %s, point -> %s' % (
                                float(acc), EXC_NAMES[tc['c1']], EXC_NAMES[tc['c2']]), T))
            else:
                out.append(('T2t-or-point-raises', 'T2t -> %s, point -> %s' % (
                    EXC_NAMES.get(tc['c1']), EXC_NAMES.get(tc['c2'])), T))
            continue
        k, t = tc['k1'], tc['t1']
        if not (0 <= k < n):
            out.append(('T2t-index-out-of-range', 'T2t returned k=%d' % k, T)); continue
        if 0.0 < T < 1.0 and not (fr[k] > 0):
            out.append(('zero-length-segment-selected', 'T2t selected segment %d of length 0' % k, T))
        if not (0.0 <= t <= 1.0):
            out.append(('T2t-t-above-1' if t > 1.0 else 'T2t-t-outside-unit-interval',
                        'T2t returned t=%r (k=%d, fraction %r); e.g. Arc.length asserts 0 <= t <= 1' % (
                            float(t), k, float(fr[k])), T))
        if not (0.0 <= tc['t2'] <= 1.0):
            out.append(('point-segment-parameter-outside-unit-interval',
                        'point evaluated segment %d at %r' % (tc['k2'], float(tc['t2'])), T))
        if tc['k2'] != k:
            out.append(('point-T2t-different-segment', 'point used segment %d, T2t says %d' % (tc['k2'], k), T))
        else:
            try:
                ref = path[k].point(t)
                if not (abs(ref - tc['v2']) <= tolp):
                    out.append(('point-not-segment-point', 'point(T)=%r but path[%d].point(%r)=%r' % (tc['v2'], k, float(t), ref), T))
            except Exception as e:
                out.append(('segment-point-raises', repr(e), T))
        if tc['c3'] != 0:
            out.append(('t2T-raises', EXC_NAMES.get(tc['c3']), T))
        elif ulps(float(tc['v3']), T) > 4 and abs(float(tc['v3']) - T) > 4 * EPS:
            out.append(('t2T-T2t-not-inverse', 't2T(T2t(T))=%r, T=%r (%.1f ulp)' % (float(tc['v3']), T, ulps(float(tc['v3']), T)), T))
        # segment k occupies [cum_k, cum_(k+1)] (exact rational cumulative fractions of the lengths)
        if 0.0 < T < 1.0:
            Tq = Fraction(T)
            if not (cumq[k] - Fraction(1, 2 ** 48) <= Tq <= cumq[k + 1] + Fraction(1, 2 ** 48)):
                out.append(('T-outside-segment-interval', 'T=%r not in [%r, %r] of segment %d' % (
                    T, float(cumq[k]), float(cumq[k + 1]), k), T))
        # point(0) / point(1): the path level adds nothing (exactly the first / last segment at 0.0 / 1.0);
        # how close a segment's point(0), point(1) are to its stored start, end is C03 / C04's subject
        # (Line: start + (end-start)*1, Arc: re-parameterised), here only to 4096 * 2^-53 * (|coords| + arc radii)
        if T == 0.0:
            if (k, t) != (0, 0) or tc['v2'] != path[0].point(0.0) or path.start != path[0].start:
                out.append(('point0-not-start', 'T2t(0)=%r point(0)=%r start=%r' % ((k, t), tc['v2'], path.start), T))
            elif not (abs(tc['v2'] - path.start) <= tole):
                o.setdefault('bycatch', []).append({'segment': spec_repr([specs[0]]), 'point(0)': str(tc['v2']),
                                                    'start': str(path.start)})
        if T == 1.0:
            if (k, t) != (n - 1, 1) or tc['v2'] != path[-1].point(1.0) or path.end != path[-1].end:
                out.append(('point1-not-end', 'T2t(1)=%r point(1)=%r end=%r' % ((k, t), tc['v2'], path.end), T))
            elif not (abs(tc['v2'] - path.end) <= tole):
                o.setdefault('bycatch', []).append({'segment': spec_repr([specs[-1]]), 'point(1)': str(tc['v2']),
                                                    'end': str(path.end)})
    for c in o['t2T']:
        k, t = c['k'], c['t']
        if k >= n: continue
        if c['c'] != 0:
            out.append(('t2T-raises', 't2T(%d,%r) -> %s' % (k, t, EXC_NAMES.get(c['c'])), None)); continue
        if 'back' in c:
            cb, kb, tb = c['back']
            if cb != 0 or kb != k or not (abs(tb - t) <= 16 * EPS * (1 + float(c['v']) / float(fr[k]))):
                out.append(('T2t-t2T-not-inverse', 'T2t(t2T(%d,%r)) = %s' % (
                    k, t, (kb, tb) if cb == 0 else EXC_NAMES.get(cb)), None))
        v = Fraction(float(c['v']))
        if not (cumq[k] - Fraction(1, 2 ** 48) <= v <= cumq[k + 1] + Fraction(1, 2 ** 48)):
            out.append(('t2T-outside-segment-interval', 't2T(%d,%r)=%r not in [%r,%r]' % (
                k, t, float(c['v']), float(cumq[k]), float(cumq[k + 1])), None))
    return out


def list_check(o):
    """iscontinuous / continuous_subpaths / isclosed on the implementation"""
    from svgpathtools import Path
    path, out = o['path'], []
    n = len(path)
    joints = [path[i].end == path[i + 1].start for i in range(n - 1)]
    if o['iscont'] != all(joints):
        out.append(('iscontinuous-wrong', 'iscontinuous()=%r, joints=%r' % (o['iscont'], joints)))
    subs = o['subs']
    flat = [s for sp in subs for s in sp]
    if len(flat) != n or any(a is not b for a, b in zip(flat, path)):
        out.append(('subpaths-do-not-concatenate', 'pieces %r' % o['pieces']))
    if n and any(len(sp) == 0 for sp in subs):
        out.append(('subpaths-empty-piece', 'pieces %r' % o['pieces']))
    if any(not sp.iscontinuous() for sp in subs):
        out.append(('subpath-not-continuous', 'pieces %r' % o['pieces']))
    for a, b in zip(subs, subs[1:]):
        if len(a) and len(b) and a[-1].end == b[0].start:
            out.append(('subpaths-not-maximal', 'pieces %r' % o['pieces']))
    want_pieces, run = [], 1           # cut exactly at the joints where end != start (exact ==)
    for j in joints:
        if j: run += 1
        else: want_pieces.append(run); run = 1
    want_pieces.append(run if n else 0)
    if o['pieces'] != want_pieces:
        out.append(('subpaths-wrong-cuts', 'pieces %r, exact joints give %r' % (o['pieces'], want_pieces)))
    if o['iscont'] != (len(subs) <= 1):
        out.append(('iscontinuous-vs-pieces', 'iscontinuous()=%r, %d pieces' % (o['iscont'], len(subs))))
    if n:
        want = (1 if path[0].start == path[-1].end else 0) if all(joints) else 2
        if o['closed'] != want:
            out.append(('isclosed-wrong', 'isclosed() -> %r, expected %r' % (o['closed'], want)))
    return out


def shrink(specs, T, key):
    """drop segments while the same failure class persists at the same T"""
    def fails(sp):
        try:
            o = observe(sp, None, replay_Ts=[T])
            return any(k == key for k, _, _ in impl_check(o, sp))
        except Exception:
            return False
    cur = list(specs)
    changed = True
    while changed and len(cur) > 1:
        changed = False
        for i in range(len(cur)):
            cand = cur[:i] + cur[i + 1:]
            if fails(cand):
                cur, changed = cand, True
                break
    return cur


def detect_flags():
    """comp: builtin sum() compensates (CPython >= 3.12); fb: the code returns
    instead of raising on the binary64 fall-through witness of Props/C05.v
    (C05_falloff_refuted); cl: T2t returns t <= 1 on the witness of
    C05_t_above_1_refuted"""
    from svgpathtools import Path, Line
    comp = (sum([0.1] * 10) == 1.0)
    p = Path(Line(0j, 9 + 0j), Line(9 + 0j, 21 + 0j), Line(21 + 0j, 26 + 0j), Line(26 + 0j, 27 + 0j))
    c1, _ = call(p.T2t, 1.0 - EPS)
    c2, _ = call(p.point, 1.0 - EPS)
    q = Path(Line(0j, 1 + 0j), Line(1 + 0j, 3 + 0j), Line(3 + 0j, 5 + 0j))
    c3, r3 = call(q.T2t, 0.6000000000000001)
    cl = (c3 == 0 and r3[1] <= 1)
    return comp, (c1 == 0 and c2 == 0), cl, (c1, c2, (float(r3[1]) if c3 == 0 else EXC_NAMES.get(c3)))


def run(rep, tier, seed, replay=None):
    warnings.simplefilter('ignore')
    import numpy as np
    np.seterr(all='ignore')
    rng = common.mkrng(seed, 'C05')
    with common.Scratch() as tmp:
        info = common.std_static(rep, 'C05', (), (), tmp)
        fps = fingerprints()
        changed = sorted(k for k, v in fps.items() if PINNED.get(k) and v not in PINNED[k])
        rep.cov['fingerprints'] = {'current': fps, 'changed': changed}
        comp, fb, cl, wit = detect_flags()
        rep.cov['model_flags'] = {'comp (builtin sum compensates)': comp, 'fb (fall-back repair present)': fb,
                                  'cl (clamp repair present)': cl,
                                  'witnesses': {'T2t(1-2^-53) on lengths 9,12,5,1': EXC_NAMES.get(wit[0]),
                                                'point(1-2^-53) on lengths 9,12,5,1': EXC_NAMES.get(wit[1]),
                                                't of T2t(0.6000000000000001) on lengths 1,2,2': wit[2]}}
        rep.notes.append('PrimFloat.* and float in the Print Assumptions output are kernel primitives of Coq '
                         '(hardware binary64), not Axiom declarations; FloatAxioms.{add,leb,eqb}_spec are the standard '
                         'library specification of these primitives (used by C05_T2t_total_float only); the R theorems '
                         'use the standard axioms of Coq reals')
        applicable = []
        if fb:
            applicable += ['C05_T2t_total_float (T2t total on [0,1] for all binary64 inputs: no BugException, no ZeroDivisionError)',
                           'C05_T2t_fixed_value / C05_fallback_nonzero_length (the fall-back is the end of the last nonzero-length segment)']
            rep.notes.append('the code falls back on the binary64 fall-through witness: model flag fb = true; '
                             'C05_falloff_refuted is a historical witness against the unrepaired variant')
        else:
            applicable += ['C05_falloff_refuted / C05_T2t_total_float_refuted (the code is the unrepaired variant fb = false)']
            rep.notes.append('the code raises on the binary64 fall-through witness of C05_falloff_refuted '
                             '(T2t -> %s, point -> %s): model flag fb = false' % (EXC_NAMES.get(wit[0]), EXC_NAMES.get(wit[1])))
        if cl:
            applicable += ['C05_T2t_le_1_float (the returned t is never above 1, all binary64 inputs)']
            rep.notes.append('T2t clamps its quotient: model flag cl = true; C05_t_above_1_refuted is a historical witness')
        else:
            applicable += ['C05_t_above_1_refuted / C05_T2t_le_1_float_refuted (the code is the unrepaired variant cl = false)']
            rep.notes.append('T2t returns t = %r > 1 on the witness of C05_t_above_1_refuted: model flag cl = false' % (wit[2],))
        rep.cov['applicable_float_theorems'] = applicable
        npaths = 260 if tier == 'quick' else 3000
        if changed:
            npaths *= 4
            rep.notes.append('modelled functions changed (%s): budget x4' % changed)
        todo = []
        if replay:
            r = json.load(open(replay))['replay']
            Ts = [float.fromhex(x) for x in r['Ts']] if 'Ts' in r else None
            todo.append((spec_unjson(r['path']), {'replay': True}, Ts))
        else:
            todo.append(([], {'n': 0, 'sizes': 'empty', 'joints': 'empty', 'zeros': 'none'}, [0.0, 1.0, 0.5]))
            todo.append(([['L', 1 + 1j, 1 + 1j]], {'n': 1, 'sizes': 'allzero', 'joints': 'continuous', 'zeros': 'all'}, None))
            todo.append(([['L', 0j, 9 + 0j], ['L', 9 + 0j, 21 + 0j], ['L', 21 + 0j, 26 + 0j], ['L', 26 + 0j, 27 + 0j]],
                         {'n': 4, 'sizes': 'witness', 'joints': 'continuous', 'zeros': 'none'}, None))
            # smallest known members of the two rounding defect classes (lengths 1, 2, 2: T2t(0.6000000000000001))
            todo.append(([['L', 0j, 1 + 0j], ['L', 1 + 0j, 3 + 0j], ['L', 3 + 0j, 5 + 0j]],
                         {'n': 3, 'sizes': 'witness', 'joints': 'continuous', 'zeros': 'none'}, None))
            for sp in handpicked_near():
                todo.append((sp, {'n': len(sp), 'sizes': 'handpicked-near', 'joints': 'near', 'zeros': 'none'}, None))
            for _ in range(npaths):
                sp, meta = gen_path_spec(rng)
                todo.append((sp, meta, None))
        cases, metas, dist = [], [], {}
        bycatch, bycatch_ends = [], []
        near_seen = 0
        nontrivial, evals, falloffs = set(), 0, 0
        viol_seen = {}
        for idx, (sp, meta, Ts) in enumerate(todo):
            for kk in ('n', 'sizes', 'joints', 'zeros'):
                if kk in meta:
                    d = dist.setdefault(kk, {})
                    d[str(meta[kk])] = d.get(str(meta[kk]), 0) + 1
            for gk, gv in meta.get('gaps', {}).items():
                d = dist.setdefault('near_joint_gaps', {})
                d[gk] = d.get(gk, 0) + gv
            # lengths are data here and must be finite and >= 0 (C06's subject): a segment whose
            # length() is inf / nan / negative is replaced by a Line and recorded as by-catch
            try:
                rl = raw_lengths(build(sp))
                for i, x in enumerate(rl):
                    if not (math.isfinite(x) and x >= 0):
                        bycatch.append({'segment': spec_repr([sp[i]]), 'length': repr(float(x))})
                        sp[i] = ['L', sp[i][1], sp[i][-1]]
            except Exception:
                pass
            try:
                o = observe(sp, rng, replay_Ts=Ts, ood=(idx % 8 == 0))
            except Exception as e:
                import traceback
                rep.violation('implementation raised %s while observing a path' % type(e).__name__,
                              {'kind': 'exception', 'path': spec_json(sp), 'python': spec_repr(sp),
                               'error': traceback.format_exc()[-1500:]}, key='impl-exception')
                continue
            kinds = dist.setdefault('segment_kinds', {})
            for s in sp: kinds[s[0]] = kinds.get(s[0], 0) + 1
            tg = dist.setdefault('lengths_python_type', {})
            tkey = 'all float' if all(type(x) is float for x in o['raw']) else 'with numpy.float64'
            tg[tkey] = tg.get(tkey, 0) + 1
            cases.append(case_term(o)); metas.append((sp, meta, o))
            evals += 5 + 3 * len(o['tcs']) + len(o['t2T'])
            for tc in o['tcs']:
                if o['n'] >= 2 and 0.0 < tc['T'] < 1.0 and tc['c1'] == 0:
                    nontrivial.add((idx, tc['T']))
            # the property on the implementation
            for key, what, T in impl_check(o, sp):
                if key == 'T2t-falloff-below-1': falloffs += 1
                if key in viol_seen:
                    viol_seen[key] += 1
                    continue
                viol_seen[key] = 1
                small = shrink(sp, T, key) if T is not None else sp
                rep.violation('C05 violated by the implementation: %s (%s)' % (key, what),
                              {'kind': 'property', 'key': key, 'path': spec_json(small), 'python': spec_repr(small),
                               'Ts': [common.fhex(T)] if T is not None else [], 'T': T, 'what': what,
                               'lengths': [float(x) for x in raw_lengths(build(small))],
                               'how': './check C05 --replay <this file>'}, key=key)
            bycatch_ends += o.get('bycatch', [])
            pth = o['path']
            for a_, b_ in list(zip(pth, pth[1:])) + ([(pth[-1], pth[0])] if len(pth) else []):
                if a_.end != b_.start and abs(a_.end - b_.start) <= 1e-6:
                    near_seen += 1
            for key, what in list_check(o):
                if key in viol_seen:
                    viol_seen[key] += 1
                    continue
                viol_seen[key] = 1
                rep.violation('C05 violated by the implementation: %s (%s)' % (key, what),
                              {'kind': 'property', 'key': key, 'path': spec_json(sp), 'python': spec_repr(sp), 'what': what},
                              key=key)
        okdef = OKDEF % {'comp': coq_bool(comp), 'fb': coq_bool(fb), 'cl': coq_bool(cl)}
        fails, errors = common.run_cases(tmp, '', 'casety', okdef, cases, shard=max(8, (len(cases) + 15) // 16),
                                         prefix='cases_c05', timeout=900)
        for e in errors:
            rep.violation('correspondence case file failed to evaluate', {'kind': 'cases', 'error': e},
                          found_input=False, key='cases-error')
        for idx, code in fails[:20]:
            sp, meta, o = metas[idx]
            if code < 100:
                what, Ts, det = STATIC_CODES.get(code, str(code)), [], {}
            else:
                j, kind = code // 100 - 1, code % 100
                what = T_CODES.get(kind, str(kind))
                if j < len(o['tcs']):
                    tc = o['tcs'][j]
                    Ts = [common.fhex(tc['T'])]
                    det = {k: (str(v) if isinstance(v, complex) else v) for k, v in tc.items()}
                else:
                    Ts, det = [], o['t2T'][j - len(o['tcs'])]
            rep.violation('C05: implementation and model disagree: %s' % what,
                          {'kind': 'correspondence', 'observation': what, 'path': spec_json(sp), 'python': spec_repr(sp),
                           'Ts': Ts, 'detail': det, 'lengths': [float(x) for x in o['raw']],
                           '_lengths': [float(x) for x in o['fr']], 'model_flags': {'comp': comp, 'fb': fb, 'cl': cl},
                           'how': './check C05 --replay <this file>'}, key='corr-%d' % (code if code < 100 else code % 100))
        rep.cov['evaluations'] = evals
        rep.cov['traces_validated_against_impl'] = len(cases)
        rep.cov['distinct_nontrivial'] = len(nontrivial)
        rep.cov['rule'] = ('random paths of 1-12 segments (Line/Quadratic/Cubic/Arc), segment sizes equal / spread 1e-2..1e2 / '
                           '1e-6..1e6 in one path, zero-length segments inner/trailing/leading, continuous/broken/closed; '
                           'T = 0, 1, 2^-53, 1-2^-53, every cumulative fraction (loop accumulation and sum()) with both float '
                           'neighbours, random T, T near 0 and near 1 (every 8th path also T<0, T>1, nan); joints exactly '
                           'coincident / far apart / nearly coincident (1 ulp, 1e-12, 1e-9, 5e-7 at coordinates 1e-3..1e6, '
                           '0.1+0.2 vs 0.3; open and closing joints), list predicates judged by exact == of the stored end points; non-trivial = '
                           '(path with >= 2 segments, 0 < T < 1, T2t returned); all observations compared inside Coq with '
                           'the model run bit-exactly in PrimFloat')
        rep.cov['input_distribution'] = dist
        rep.cov['property_failures_by_class'] = viol_seen
        rep.cov['falloff_cases_seen'] = falloffs
        rep.cov['nearly_coincident_joints_seen (0 < gap <= 1e-6, open or closing)'] = near_seen
        rep.cov['bycatch_segment_point_far_from_endpoint (C04)'] = {'count': len(bycatch_ends), 'examples': bycatch_ends[:3]}
        rep.cov['bycatch_nonfinite_segment_lengths (C06)'] = {'count': len(bycatch), 'examples': bycatch[:3]}
        rep.cov['samples'] = [{'path': spec_repr(m[0])[:300], 'T': m[2]['tcs'][-1]['T'],
                               'T2t': [m[2]['tcs'][-1]['k1'], float(m[2]['tcs'][-1]['t1'])],
                               'pieces': m[2]['pieces']} for m in metas[-3:] if m[2]['tcs']]
    rep.assumptions += ['segment lengths are data (C06): seg.length(error, min_depth) called exactly as _calc_lengths does',
                        'builtin sum(): CPython >= 3.12 Neumaier summation on exact floats, plain fold otherwise '
                        '(modelled in Model/PathIdx.v pysum; validated bitwise on every path via _length and t2T)',
                        'PrimFloat add/sub/mul/div/compare are IEEE-754 binary64 as the CPU/numpy/CPython compute them',
                        'point(T) vs path[k].point(t) compared with tolerance 64*2^-53*(length + max|coordinate|): '
                        'point divides by (end-start), T2t by the fraction itself']
