"""C10 — translated / rotated / scaled / transform commute with point evaluation;
on a path they act segment-wise and keep exact joints exact.

Theorems: coq/Props/C10.v (model coq/Model/Xform.v, + Model/Arc.v, Model/Bezier.v).
Ties:  translator (GenXform: translate / rotate (explicit and default origin) / scale (sy given
       and None) on Line, QuadraticBezier, CubicBezier and Arc objects, bez2poly; transform is
       numpy matrix code outside the subset) + 23 agreement lemmas GenAgree/Xform.v against the
       kernels of Model/Xform.v;
       correspondence INSIDE Coq:
         * Bezier segments in exact rationals (NumQ): the implementation's new control
           points against the model kernel, and X(seg).point(t) against the theorem's
           right-hand side  map(point(t))  at 9 values of t ((cos, sin) of the angle are
           the implementation's own libm values, passed as data);
         * arcs in 120-bit floats (NumB/NumTB): constructor arguments of the new arc
           against the model kernel, X(arc).point(t) against Model/Arc.v's point on the
           model's new arc and against map(point(t)); refusal of non-uniform scale;
         * paths (NumQ, pure data movement, compared EXACTLY): the model's assignment
           loop (joints() as coded) applied to the implementation's per-segment results
           reproduces the implementation's path;
         * closed Bezier paths under scaled() in binary64 (NumF): the model predicts
           bit-exactly which paths lose closure;
       implementation-level predicate: the property statement on the real code
       (X(seg).point(t) vs the map applied to seg.point(t), joints bitwise including
       the closing joint, closed stays closed, non-uniform arc scale raises).
"""
import math, cmath, warnings, json
from fractions import Fraction as Fr
import common
from common import qc, cq, bf, cbf, coq_list, coq_bool

GEN_GROUPS = ['GenXform']
AGREE = ['Xform.v']

FIXED_T = [0.0, 1.0, 0.5, 0.25, 0.75, 1.0 / 3.0, 0.9]
ANGLES90 = [0.0, 90.0, 180.0, 270.0, -90.0, 360.0, 450.0, -180.0]
PYTH = [(3, 4, 5), (5, 12, 13), (8, 15, 17), (7, 24, 25)]


# ------------------------------------------------------------------ generators
def rnd(rng, sc):
    return complex(rng.uniform(-sc, sc), rng.uniform(-sc, sc))


def gen_points(rng, n):
    mode = rng.choice(['rand', 'rand', 'int', 'half', 'collinear', 'tiny', 'huge', 'coincident'])
    if mode == 'rand':
        sc = 10 ** rng.uniform(-2, 4)
        return [rnd(rng, sc) for _ in range(n)], mode
    if mode == 'int':
        return [complex(rng.randint(-50, 50), rng.randint(-50, 50)) for _ in range(n)], mode
    if mode == 'half':
        return [complex(rng.randint(-99, 99) / 2, rng.randint(-99, 99) / 4) for _ in range(n)], mode
    if mode == 'collinear':
        a, d = rnd(rng, 100), rnd(rng, 10)
        return [a + d * rng.choice([0, 1, 2, 3, -1, 0.5, 2.5]) for _ in range(n)], mode
    if mode == 'tiny':
        return [rnd(rng, 1e-3) for _ in range(n)], mode
    if mode == 'huge':
        return [rnd(rng, 1e6) for _ in range(n)], mode
    p = rnd(rng, 100)
    pts = [p] * n
    pts[rng.randrange(n)] = rnd(rng, 100)
    return pts, mode


def fix_line(pts):
    if len(pts) == 2 and pts[0] == pts[1]:
        return [pts[0], pts[0] + complex(1, -2)]
    return pts


def gen_arc(rng, i):
    """(start, radius, rotation, large, sweep, end, family): radii ample (radicand far above
    the 1e-8 snap), too small (auto-scaled, radicand at rounding level) or integers"""
    fam = rng.choice(['ample', 'ample', 'ample', 'too_small', 'int'])
    rot = rng.choice([0.0, 90.0, -90.0, 180.0, 30.0, 45.0, rng.uniform(-720, 720), rng.uniform(0, 360)])
    large, sweep = [(False, False), (False, True), (True, False), (True, True)][i % 4]
    if fam == 'int':
        s = complex(rng.randint(-20, 20), rng.randint(-20, 20))
        e = complex(rng.randint(-20, 20), rng.randint(-20, 20))
        if s == e:
            e = s + complex(1, 2)
        r = complex(rng.randint(16, 40), rng.randint(16, 40)) * rng.choice([1, 1, 2])
        if rng.random() < 0.3:
            r = complex(rng.randint(1, 3), rng.randint(1, 3))    # mostly too small
    else:
        sc = 10 ** rng.uniform(-1, 3)
        s, e = rnd(rng, sc), rnd(rng, sc)
        if s == e:
            e = s + 1
        phi = math.radians(rot)
        z = (s - e) / 2 * complex(math.cos(phi), -math.sin(phi))
        ecc = 10 ** rng.uniform(0, 1)
        ax, ay = (1.0, 1.0 / ecc) if rng.random() < 0.5 else (1.0 / ecc, 1.0)
        need = math.sqrt((z.real / ax) ** 2 + (z.imag / ay) ** 2)
        f = 10 ** rng.uniform(0.05, 1.0) if fam == 'ample' else rng.choice([1e-3, 0.3, 0.9])
        r = complex(need * ax * f, need * ay * f)
    if rng.random() < 0.15:
        r = complex(-r.real, r.imag)
    if r.real == 0 or r.imag == 0:
        return gen_arc(rng, i)
    return (s, r, float(rot), large, sweep, e, fam)


def gen_origin(rng, sc=100.0):
    k = rng.random()
    if k < 0.3: return 0j
    if k < 0.6: return complex(rng.randint(-20, 20), rng.randint(-20, 20))
    return rnd(rng, sc)


def gen_angle(rng):
    return rng.choice(ANGLES90) if rng.random() < 0.4 else rng.choice(
        [rng.uniform(-720, 720), rng.uniform(-5, 5), 30.0, 45.0, 33.3, -123.456])


def gen_scale(rng):
    def one():
        return rng.choice([2.0, 0.5, -1.0, -0.5, 3.0, 1.7, 0.1, -2.25, 1.0, 1e-3,
                           rng.uniform(-3, 3) or 0.7, rng.uniform(0.01, 1)])
    sx = one()
    k = rng.random()
    if k < 0.4: sy = None
    elif k < 0.55: sy = sx
    else: sy = one()
    return sx, sy


def mat(a, b, c, d, tx=0.0, ty=0.0):
    return [[a, b, tx], [c, d, ty], [0.0, 0.0, 1.0]]


def matmul(A, B):
    return [[sum(A[i][k] * B[k][j] for k in range(3)) for j in range(3)] for i in range(3)]


def gen_matrix(rng):
    """invertible affine matrices: rotations, uniform / non-uniform scales, reflections,
    shears and products; dyadic / small-rational entries (exact) plus random ones"""
    def elem():
        k = rng.choice(['rot90', 'rotpyth', 'rotrand', 'uscale', 'nscale', 'reflect', 'shear', 'transl', 'rand'])
        if k == 'rot90':
            c, s = rng.choice([(0.0, 1.0), (-1.0, 0.0), (0.0, -1.0)])
            return mat(c, -s, s, c), k
        if k == 'rotpyth':
            a, b, h = rng.choice(PYTH)
            c, s = a / h, b / h * rng.choice([1, -1])
            return mat(c, -s, s, c), k
        if k == 'rotrand':
            th = rng.uniform(-math.pi, math.pi)
            return mat(math.cos(th), -math.sin(th), math.sin(th), math.cos(th)), k
        if k == 'uscale':
            f = rng.choice([2.0, 0.5, -1.0, 3.0, 0.25, -0.5, rng.uniform(0.1, 4)])
            return mat(f, 0.0, 0.0, f), k
        if k == 'nscale':
            return mat(rng.choice([2.0, 0.5, 3.0, 1.5]), 0.0, 0.0, rng.choice([1.0, 0.25, 4.0, -2.0])), k
        if k == 'reflect':
            return rng.choice([mat(1.0, 0.0, 0.0, -1.0), mat(-1.0, 0.0, 0.0, 1.0), mat(0.0, 1.0, 1.0, 0.0)]), k
        if k == 'shear':
            return rng.choice([mat(1.0, rng.choice([0.5, 2.0, -1.0]), 0.0, 1.0),
                               mat(1.0, 0.0, rng.choice([0.5, -2.0, 1.0]), 1.0)]), k
        if k == 'transl':
            return mat(1.0, 0.0, 0.0, 1.0, rng.choice([5.0, -2.5, rng.uniform(-50, 50)]),
                       rng.choice([0.0, 7.25, rng.uniform(-50, 50)])), k
        while True:
            a, b, c, d = (rng.uniform(-3, 3) for _ in range(4))
            if abs(a * d - b * c) > 0.2:
                return mat(a, b, c, d, rng.uniform(-10, 10), rng.uniform(-10, 10)), k
    if rng.random() < 0.08:
        return mat(1.0, 0.0, 0.0, 1.0), 'identity'
    M, kinds = elem()
    kinds = [kinds]
    for _ in range(rng.choice([0, 0, 1, 2])):
        B, k = elem()
        M = matmul(M, B)
        kinds.append(k)
    if rng.random() < 0.5:
        M[0][2] += rng.choice([1.0, -3.5, rng.uniform(-20, 20)])
        M[1][2] += rng.choice([0.0, 2.25, rng.uniform(-20, 20)])
    if M == mat(1.0, 0.0, 0.0, 1.0):
        return M, 'identity'
    return M, '*'.join(kinds)


def gen_nearid(rng):
    """an invertible matrix within np.allclose's tolerance class of the identity (or just outside),
    together with a coordinate generator at the magnitude where the map visibly moves points:
    scale 1 +- 1e-6..1e-5 of map-scale coordinates, rotations by 1e-9..1e-6 rad far from the origin,
    translations by 1e-9..1e-8 of a drawing ~1e-8..1e-7 across, and combinations"""
    kind = rng.choice(['scale', 'rot', 'transl', 'combined'])
    eps = 10 ** rng.uniform(-6, -5) * rng.choice([1, -1])
    eps2 = eps if rng.random() < 0.6 else 10 ** rng.uniform(-6, -5) * rng.choice([1, -1])
    th = 10 ** rng.uniform(-9, -6) * rng.choice([1, -1])
    dx = 10 ** rng.uniform(-9, -8) * rng.choice([1, -1])
    dy = 10 ** rng.uniform(-9, -8) * rng.choice([0, 1, -1])
    if kind == 'scale':
        M, mag = mat(1 + eps, 0.0, 0.0, 1 + eps2), 10 ** rng.uniform(5, 7)
    elif kind == 'rot':
        M, mag = mat(math.cos(th), -math.sin(th), math.sin(th), math.cos(th)), 10 ** rng.uniform(8, 10)
    elif kind == 'transl':
        M, mag = mat(1.0, 0.0, 0.0, 1.0, dx, dy), 10 ** rng.uniform(-8, -7)
    else:
        M = matmul(mat(1 + eps, 0.0, 0.0, 1 + eps2), mat(math.cos(th), -math.sin(th), math.sin(th), math.cos(th)))
        M[0][2], M[1][2] = dx, dy
        mag = 10 ** rng.uniform(6, 9)
    return {'op': 'transform', 'M': M, 'mkind': 'nearid-' + kind}, (lambda: complex(rng.uniform(-mag, mag),
                                                                                    rng.uniform(-mag, mag)))


def gen_nearid_path(rng):
    op, pt = gen_nearid(rng)
    n = rng.choice([1, 2, 3, 4])
    closed = rng.random() < 0.5
    verts = [pt() for _ in range(n + 1)]
    if closed:
        verts[n] = verts[0]
    specs = []
    for i in range(n):
        k = rng.choice([2, 3, 4]) if verts[i] != verts[i + 1] else 4
        specs.append(('bez', [verts[i]] + [pt() for _ in range(k - 2)] + [verts[i + 1]]))
    return specs, closed, op


def gen_path_hist(rng):
    """an OPEN path (first and last segment Bezier) that the harness closes by an in-place edit of a
    segment attribute after the Path object exists: path[-1].end = path[0].start ('end') or
    path[0].start = path[-1].end ('start').  Path caches _start/_end at construction."""
    while True:
        specs, closed, mode = gen_path(rng)
        if closed or len(specs) < 2:
            continue
        for k in (0, -1):
            if specs[k][0] == 'arc':
                a = specs[k][1]
                specs[k] = ('bez', [a[0], a[5]])
        if specs[0][1][0] == specs[-1][1][-1]:
            continue
        return specs, mode, rng.choice(['end', 'start'])


def gen_op(rng, arc=False):
    k = rng.choice(['translate', 'rotate', 'rotate', 'scale', 'scale', 'transform', 'transform'])
    if k == 'translate':
        return {'op': k, 'z0': rng.choice([rnd(rng, 100), complex(rng.randint(-9, 9), rng.randint(-9, 9)),
                                            rnd(rng, 1e-3), rnd(rng, 1e5)])}
    if k == 'rotate':
        return {'op': k, 'degs': gen_angle(rng), 'origin': None if rng.random() < 0.45 else gen_origin(rng)}
    if k == 'scale':
        sx, sy = gen_scale(rng)
        return {'op': k, 'sx': sx, 'sy': sy, 'origin': gen_origin(rng)}
    M, kind = gen_matrix(rng)
    return {'op': k, 'M': M, 'mkind': kind}


# ----------------------------------------------------- running the implementation
def mk_seg(spec):
    from svgpathtools import Line, QuadraticBezier, CubicBezier, Arc
    if spec[0] == 'bez':
        pts = spec[1]
        return {2: Line, 3: QuadraticBezier, 4: CubicBezier}[len(pts)](*pts)
    s, r, rot, la, sw, e = spec[1][:6]
    return Arc(s, r, rot, la, sw, e)


def apply_op(obj, op):
    """through the public methods where they exist (translated / rotated / scaled),
    transform() as the function"""
    import numpy as np
    from svgpathtools.path import transform
    k = op['op']
    if k == 'translate':
        return obj.translated(op['z0'])
    if k == 'rotate':
        if op['origin'] is None:
            return obj.rotated(op['degs'])
        return obj.rotated(op['degs'], origin=op['origin'])
    if k == 'scale':
        if op['sy'] is None:
            return obj.scaled(op['sx'], origin=op['origin'])
        return obj.scaled(op['sx'], op['sy'], origin=op['origin'])
    return transform(obj, np.array(op['M'], dtype=float))


def op_cs(op):
    import numpy as np
    z = complex(np.exp(1j * np.radians(op['degs'])))      # the expression of rotate_point
    return z


def float_map(op, origin_default):
    """the map of the property statement, in binary64"""
    k = op['op']
    if k == 'translate':
        z0 = op['z0']
        return lambda p: p + z0
    if k == 'rotate':
        o = origin_default if op['origin'] is None else op['origin']
        cs = cmath.exp(1j * math.radians(op['degs']))
        return lambda p: cs * (p - o) + o
    if k == 'scale':
        sx = op['sx']; sy = sx if op['sy'] is None else op['sy']; o = op['origin']
        return lambda p: complex(sx * (p.real - o.real) + o.real, sy * (p.imag - o.imag) + o.imag)
    M = op['M']
    return lambda p: complex(M[0][0] * p.real + M[0][1] * p.imag + M[0][2],
                             M[1][0] * p.real + M[1][1] * p.imag + M[1][2])


def op_norm(op):
    k = op['op']
    if k == 'translate': return 1.0, abs(op['z0'])
    if k == 'rotate': return 2.0, (abs(op['origin']) if op['origin'] is not None else 0.0)
    if k == 'scale':
        sy = op['sx'] if op['sy'] is None else op['sy']
        return 1.0 + abs(op['sx']) + abs(sy), abs(op['origin'])
    M = op['M']
    return 1.0 + sum(abs(M[i][j]) for i in range(2) for j in range(2)), abs(M[0][2]) + abs(M[1][2])


def is_identity(op):
    return op['op'] == 'transform' and op['M'] == mat(1.0, 0.0, 0.0, 1.0)


def op_json(op):
    d = {'op': op['op']}
    for k, v in op.items():
        if k == 'op': continue
        if isinstance(v, complex): d[k] = common.chex(v)
        elif isinstance(v, float): d[k] = common.fhex(v)
        elif k == 'M': d[k] = [[common.fhex(x) for x in row] for row in v]
        else: d[k] = v
    return d


def op_from_json(d):
    op = {'op': d['op']}
    for k, v in d.items():
        if k == 'op': continue
        if k == 'M': op[k] = [[float.fromhex(x) for x in row] for row in v]
        elif isinstance(v, list): op[k] = complex(float.fromhex(v[0]), float.fromhex(v[1]))
        elif isinstance(v, str) and k in ('degs', 'sx', 'sy'): op[k] = float.fromhex(v)
        else: op[k] = v
    return op


def op_py(op):
    k = op['op']
    if k == 'translate': return '.translated(%r)' % (op['z0'],)
    if k == 'rotate': return '.rotated(%r%s)' % (op['degs'], '' if op['origin'] is None else ', origin=%r' % (op['origin'],))
    if k == 'scale': return '.scaled(%r%s, origin=%r)' % (op['sx'], '' if op['sy'] is None else ', %r' % op['sy'], op['origin'])
    return ' -> transform(_, np.array(%r))' % (op['M'],)


def spec_json(spec):
    if spec[0] == 'bez':
        return {'kind': 'bez', 'points': [common.chex(p) for p in spec[1]]}
    s, r, rot, la, sw, e = spec[1][:6]
    return {'kind': 'arc', 'start': common.chex(s), 'radius': common.chex(r), 'rotation': common.fhex(rot),
            'large_arc': bool(la), 'sweep': bool(sw), 'end': common.chex(e)}


def spec_from_json(d):
    cx = lambda p: complex(float.fromhex(p[0]), float.fromhex(p[1]))
    if d['kind'] == 'bez':
        return ('bez', [cx(p) for p in d['points']])
    return ('arc', (cx(d['start']), cx(d['radius']), float.fromhex(d['rotation']), d['large_arc'], d['sweep'],
                    cx(d['end'])))


def spec_py(spec):
    if spec[0] == 'bez':
        return '%s(%s)' % ({2: 'Line', 3: 'QuadraticBezier', 4: 'CubicBezier'}[len(spec[1])],
                           ', '.join(repr(p) for p in spec[1]))
    s, r, rot, la, sw, e = spec[1][:6]
    return 'Arc(%r, %r, %r, %r, %r, %r)' % (s, r, rot, bool(la), bool(sw), e)


# ------------------------------------------------------------------ Coq side: Bezier
OKDEF_BEZ = r'''
From SVP Require Import Model.Bezier Model.BezierN Model.Arc Model.Xform.
Definition N := NumQ.
Definition u53 : Qc := two_pow_neg 53.
Definition pow3 (x : Qc) : Qc := (x * x * x)%Qc.
Inductive op :=
| OpT (z0 : Cplx Qc)
| OpR (cs : Cplx Qc) (o : option (Cplx Qc))
| OpS (sx : Qc) (sy : option Qc) (o : Cplx Qc)
| OpM (M : Mat3 Qc).
(* the model's new control points *)
Definition m_new (o : op) (p : list (Cplx Qc)) : xres (list (Cplx Qc)) :=
  match o with
  | OpT z0 => bpoints2bezier (bez_translate N z0 p)
  | OpR cs None => bpoints2bezier (bez_rotate N cs (bez_default_origin N p) p)
  | OpR cs (Some og) => bpoints2bezier (bez_rotate N cs og p)
  | OpS sx sy og => scale_bezier N sx sy og p
  | OpM M => if mat_is_identity N M then XOk p else bpoints2bezier (map (tf_point N M) p)
  end.
(* the map of the property statement (right-hand sides of C10_translate / _rotate / _scale / _transform_affine) *)
Definition m_map (o : op) (p : list (Cplx Qc)) (z : Cplx Qc) : Cplx Qc :=
  match o with
  | OpT z0 => cadd N z z0
  | OpR cs None => rotate_point N cs (bez_point N p (half N)) z
  | OpR cs (Some og) => rotate_point N cs og z
  | OpS sx sy og => scale_point N sx sy og z
  | OpM M => tf_point N M z
  end.
(* case: control points, op, size bound (rational, computed by the harness from the inputs),
         observed new control points, samples (t, point(t), X(seg).point(t)),
         identity short-cut returned the same object *)
Definition casety : Type :=
  (list (Cplx Qc) * op * Qc * list (Cplx Qc) * list (Qc * Cplx Qc * Cplx Qc) * bool)%type.
Definition ok (c : casety) : nat :=
  let '(p, o, Sz, o_new, samples, o_same) := c in
  let tol := (Q2Qc 200 * u53 * Sz)%Qc in
  let tolt (t : Qc) := (tol * pow3 (qmax (Q2Qc 1) (qabs t)))%Qc in
  first_fail
   [ (match m_new o p with XOk q => lclose (cclose tol) o_new q | _ => false end, 1);
     (forallb (fun s => let '(t, o_pt, o_npt) := s in cclose (tolt t) o_npt (m_map o p (bez_point N p t))) samples, 2);
     (forallb (fun s => let '(t, o_pt, o_npt) := s in cclose (tolt t) o_npt (m_map o p o_pt)) samples, 3);
     (forallb (fun s => let '(t, o_pt, o_npt) := s in cclose (tolt t) o_npt (bez_point N o_new t)) samples, 4);
     (match o with OpM M => Bool.eqb o_same (mat_is_identity N M) | _ => negb o_same end, 5)
   ].
'''
BEZ_CODES = {1: 'new control points vs the model kernel', 2: 'X(seg).point(t) vs map(model point(t))',
             3: 'X(seg).point(t) vs map(seg.point(t)) (exact arithmetic on the observed values)',
             4: 'X(seg).point(t) vs the Bezier curve of the new control points',
             5: 'identity short-cut (same object returned iff tf == eye(3))'}


def coq_op_q(op, cs=None):
    k = op['op']
    if k == 'translate': return '(OpT %s)' % cq(op['z0'])
    if k == 'rotate':
        return '(OpR %s %s)' % (cq(cs), 'None' if op['origin'] is None else '(Some %s)' % cq(op['origin']))
    if k == 'scale':
        return '(OpS %s %s %s)' % (qc(op['sx']), 'None' if op['sy'] is None else '(Some %s)' % qc(op['sy']),
                                   cq(op['origin']))
    M = op['M']
    return '(OpM (%s))' % ', '.join('(%s, %s, %s)' % tuple(qc(x) for x in row) for row in M)


# ------------------------------------------------------------------ Coq side: arcs
OKDEF_ARC = r'''
From SVP Require Import Model.Bezier Model.Arc Model.Xform.
Definition N := NumB.
Definition T := NumTB.
Definition bz (z : Z) : bf := lit N z.
Definition e7 : bf := div N (bz 1) (bz 10000000).
Definition e11 : bf := div N (bz 1) (bz 100000000000).
Definition cabs1 (z : bf * bf) : bf := add N (babs (fst z)) (babs (snd z)).
Inductive aop :=
| AT (z0 : bf * bf)
| AR (degs : bf) (o : option (bf * bf))
| AS (sx : bf) (sy : option bf) (o : bf * bf)
| AM (M : Mat3 bf).      (* transform(arc, tf), repaired branch (Model/Xform.v arc_transform_fixed) *)
Definition radical_of (P : ArcP bf) : bf :=
  arc_radical_of N T false (a_start P) (a_radius P) (a_rotation P) (a_end P).
(* radical = 0: u2 = -u1 and det_uv = 0 exactly in binary64 and in R (delta = +-180 by
   theorem C04_delta_cases), but not under the directed rounding of the 120-bit instance *)
Definition fixsnap (P : ArcP bf) : ArcP bf :=
  if bf_eqb (radical_of P) (zero N) then
    mkArcP (a_start P) (a_radius P) (a_rotation P) (a_large P) (a_sweep P) (a_end P) (a_center P)
           (a_theta P) (if a_sweep P then bz 180 else bz (-180)) (a_phi P) (a_rot P)
  else P.
(* decisions of _parameterize within rounding of their thresholds: not comparable *)
Definition undecided (P : ArcP bf) : bool :=
  let s := a_start P in let r := a_radius P in let rot := a_rotation P in let e := a_end P in
  let radicand := arc_radicand_of N T s r rot e in
  let u1 := arc_u1_of N T false s r rot (a_large P) (a_sweep P) e in
  let u2 := arc_u2_of N T false s r rot (a_large P) (a_sweep P) e in
  let snapped := bf_eqb (radical_of P) (zero N) in
  bf_leb (babs (sub N radicand (atol8 N))) (mul N (atol8 N) (bf_of 1 (-10)))
  || bf_leb (babs (snd u1)) (bf_of 1 (-14))
  || (negb snapped && bf_leb (babs (arc_det N u1 u2)) (bf_of 1 (-14))).
Definition m_new (o : aop) (P : ArcP bf) : xres (ArcP bf) :=
  match o with
  | AT z0 => XOk (arc_translate N T z0 P)
  | AR degs None => XOk (arc_rotate N T degs (cs_of_degs T degs) (a_center P) P)
  | AR degs (Some og) => XOk (arc_rotate N T degs (cs_of_degs T degs) og P)
  | AS sx sy og => arc_scale N T sx sy og P
  | AM M => match arc_transform_fixed N T M P with SArc Q => XOk Q | SBez _ => XAssert end
  end.
Definition m_map (o : aop) (P : ArcP bf) (z : bf * bf) : bf * bf :=
  match o with
  | AT z0 => cadd N z z0
  | AR degs None => rotate_point N (cs_of_degs T degs) (a_center P) z
  | AR degs (Some og) => rotate_point N (cs_of_degs T degs) og z
  | AS sx _ og => cadd N (cscale N sx (csub N z og)) og
  | AM M => tf_point N M z
  end.
Definition is_AM (o : aop) : bool := match o with AM _ => true | _ => false end.
(* rotation of the new ellipse: compared modulo 180 degrees and weighted by |rx' - ry'|
   (for a circle every rotation is right) *)
Definition rot_ok (tol : bf) (n_rot : bf) (Q : ArcP bf) : bool :=
  let d0 := sub N n_rot (a_rotation Q) in
  let dr := babs (sub N (fst (a_radius Q)) (snd (a_radius Q))) in
  let w (d : bf) := mul N (mul N (babs d) (div N (pi_ T) (bz 180))) dr in
  existsb (fun k => bf_leb (w (add N d0 (bz k))) tol) [0; 180; -180; 360; -360]%Z.
(* case: constructor arguments, op, size, relative tolerance, refused by the implementation,
         new arc's (start, stored radius, rotation, large, sweep, end), samples (t, point(t), X(arc).point(t)) *)
Definition casety : Type :=
  ((bf * bf) * (bf * bf) * bf * bool * bool * (bf * bf) * aop * bf * bf * bool
   * ((bf * bf) * (bf * bf) * bf * bool * bool * (bf * bf))
   * list (bf * (bf * bf) * (bf * bf)))%type.
Definition ok (c : casety) : nat :=
  let '(start, radius, rot, large, sweep, end_, o, Sz, Tr, o_refused, o_new, samples) := c in
  let '(n_start, n_radius, n_rot, n_large, n_sweep, n_end) := o_new in
  let P0 := arc_init N T start radius rot large sweep end_ in
  match m_new o P0 with
  | XRefused => if o_refused then 0 else 10
  | XAssert => 11
  | XOk Q0 =>
    if o_refused then 12 else
    if undecided P0 || undecided Q0 then 90 else
    let P := fixsnap P0 in let Q := fixsnap Q0 in
    let tol := mul N Tr Sz in
    first_fail
     [ (bcclose (mul N e11 Sz) n_start (a_start Q) && bcclose (mul N e11 Sz) n_end (a_end Q), 1);
       (if is_AM o then bcclose tol n_radius (a_radius Q)
        else bcclose (mul N e7 (cabs1 (a_radius Q))) n_radius (a_radius Q), 2);
       (if is_AM o then rot_ok (mul N (bz 4) tol) n_rot Q
        else bclose (mul N e11 (add N (bz 1) (babs (a_rotation Q)))) n_rot (a_rotation Q), 3);
       (Bool.eqb n_large (a_large Q) && Bool.eqb n_sweep (a_sweep Q), 4);
       (forallb (fun s => let '(t, o_pt, o_npt) := s in bcclose tol o_npt (arc_point N T Q t)) samples, 5);
       (forallb (fun s => let '(t, o_pt, o_npt) := s in bcclose tol o_npt (m_map o P (arc_point N T P t))) samples, 6);
       (forallb (fun s => let '(t, o_pt, o_npt) := s in bcclose tol o_npt (m_map o P o_pt)) samples, 7)
     ]
  end.
'''
OKDEF_TFD = r'''
From SVP Require Import Model.Bezier Model.Arc Model.Xform.
Definition N := NumB.
Definition T := NumTB.
Definition bz (z : Z) : bf := lit N z.
Definition e7 : bf := div N (bz 1) (bz 10000000).
Definition e5 : bf := div N (bz 1) (bz 100000).
Definition cabs1 (z : bf * bf) : bf := add N (babs (fst z)) (babs (snd z)).
(* case: arc, matrix, the argument D the implementation passed to np.linalg.eig, and what
   LAPACK returned (real parts): eigenvalues, eigenvector matrix by rows *)
Definition casety : Type :=
  ((bf * bf) * (bf * bf) * bf * bool * bool * (bf * bf) * Mat3 bf * Mat2 bf * ((bf * bf) * Mat2 bf) * bf)%type.
Definition ok (c : casety) : nat :=
  let '(start, radius, rot, large, sweep, end_, M, Dobs, eigout, Sz) := c in
  let P := arc_init N T start radius rot large sweep end_ in
  let D := arc_tf_D N M (a_radius P) in
  let '((d00, d01), (d10, d11)) := D in
  let '((o00, o01), (o10, o11)) := Dobs in
  let dn := add N (add N (babs d00) (babs d01)) (add N (babs d10) (babs d11)) in
  let tolD := mul N e7 dn in
  if negb (bclose tolD d00 o00 && bclose tolD d01 o01 && bclose tolD d10 o10 && bclose tolD d11 o11) then 1 else
  (* the rest of the branch as coded, with LAPACK's answer as the oracle's value *)
  let Q := arc_transform N T (fun _ => eigout) M P in
  let d t := cabs1 (csub N (seg_point N T Q t) (tf_point N M (arc_point N T P t))) in
  let half := div N (bz 1) (bz 2) in let quarter := div N (bz 1) (bz 4) in
  if bf_leb (d half) (mul N e5 Sz) && bf_leb (d quarter) (mul N e5 Sz) then 0 else 50.
'''

ARC_CODES = {1: 'start/end of the new arc vs the model kernel', 2: 'stored radius of the new arc',
             3: 'rotation of the new arc', 4: 'flags of the new arc',
             5: 'X(arc).point(t) vs Model/Arc.v point on the model\'s new arc',
             6: 'X(arc).point(t) vs map(model point(t))', 7: 'X(arc).point(t) vs map(arc.point(t))',
             10: 'model refuses (sx != sy) but the implementation returned an arc',
             11: 'the model returns a Line (singular branch) or asserts', 12: 'implementation refused but the model does not',
             90: 'undecided (a branch of _parameterize within rounding of its threshold)'}


def coq_op_b(op):
    k = op['op']
    if k == 'transform':
        return '(AM (%s))' % ', '.join('(%s, %s, %s)' % tuple(bf(x) for x in row) for row in op['M'])
    if k == 'translate': return '(AT %s)' % cbf(op['z0'])
    if k == 'rotate':
        return '(AR %s %s)' % (bf(op['degs']), 'None' if op['origin'] is None else '(Some %s)' % cbf(op['origin']))
    return '(AS %s %s %s)' % (bf(op['sx']), 'None' if op['sy'] is None else '(Some %s)' % bf(op['sy']),
                              cbf(op['origin']))


# ------------------------------------------------------------------ Coq side: paths
OKDEF_PATH = r'''
From SVP Require Import Model.Bezier Model.Arc Model.Xform.
Definition N := NumQ.
Definition TQ : NumT Qc :=   (* never used: the loop only moves end points *)
  let z := fun _ : Qc => Q2Qc 0 in mkNumT z z z z z z z z (Q2Qc 0) (fun _ _ => Q2Qc 0) z z.
Definition z0 : Qc := Q2Qc 0.
(* an arc for the purposes of the loop: only start and end matter *)
Definition arcse (s e : Cplx Qc) : Seg Qc :=
  SArc (mkArcP s (z0, z0) z0 false false e (z0, z0) z0 z0 z0 (z0, z0)).
Definition seg_eqb (a b : Seg Qc) : bool :=
  match a, b with
  | SBez p, SBez q => lclose (ceqb N) p q
  | SArc P, SArc Q => ceqb N (a_start P) (a_start Q) && ceqb N (a_end P) (a_end Q)
  | _, _ => false
  end.
(* joints() variant run by the implementation (detected by the harness): false = n-1 pairs,
   true = the closing pair (s_{n-1}, s0) as well *)
Definition CLOSING_JOINT : bool := @CJ@.
(* case: old path, per-segment results of the implementation's kernel, the implementation's path *)
Definition casety : Type := (list (Seg Qc) * list (Seg Qc) * list (Seg Qc))%type.
Definition ok (c : casety) : nat :=
  let '(old, new0, res) := c in
  first_fail
   [ (lclose seg_eqb (path_sync N CLOSING_JOINT old new0) res, 1);
     (Nat.eqb (length (path_sync N (negb CLOSING_JOINT) old new0)) (length res), 2) ].
'''

OKDEF_F = r'''
From Coq Require Import PrimFloat.
From SVP Require Import Base.FloatK Model.Bezier Model.Arc Model.Xform.
Definition N := NumF.
Definition TF : NumT float :=   (* never used: Bezier paths only *)
  let z := fun _ : float => 0%float in mkNumT z z z z z z z z 0%float (fun _ _ => 0%float) z z.
(* case: closed Bezier path, sx, sy, origin, observed: closed after scaled() *)
Definition casety : Type := (list (Seg float) * float * option float * (float * float) * bool)%type.
Definition ok (c : casety) : nat :=
  let '(path, sx, sy, og, o_closed) := c in
  match path_scale N TF @CJ@ sx sy og path with
  | XOk r => if Bool.eqb (path_closed N r) o_closed then 0 else 1
  | _ => 2
  end.
'''


def fl(x):
    return '(%s)%%float' % float(x).hex() if x == x and abs(x) != float('inf') else 'nan%float'


def cfl(z):
    return '(%s, %s)' % (fl(z.real), fl(z.imag))


def seg_term_q(seg):
    from svgpathtools import Arc
    if isinstance(seg, Arc):
        return '(arcse %s %s)' % (cq(seg.start), cq(seg.end))
    return '(SBez %s)' % coq_list([cq(p) for p in seg.bpoints()])


# ------------------------------------------------------------------ paths
def gen_path(rng):
    """a path with exact joints (and possibly some deliberate gaps), open or closed"""
    n = rng.choice([1, 2, 2, 3, 3, 4, 5, 7])
    closed = rng.random() < 0.6
    with_arcs = rng.random() < 0.3
    mode = rng.choice(['rand', 'rand', 'int', 'decimal', 'big'])
    def pt():
        if mode == 'int': return complex(rng.randint(-30, 30), rng.randint(-30, 30))
        if mode == 'decimal': return complex(rng.randint(-99, 99) / 10, rng.randint(-99, 99) / 10)
        if mode == 'big': return rnd(rng, 1e4)
        return rnd(rng, 10 ** rng.uniform(-1, 2))
    verts = [pt() for _ in range(n + 1)]
    for i in range(1, n + 1):
        while verts[i] == verts[i - 1]:
            verts[i] = pt()
    if closed:
        verts[n] = verts[0]
        if n == 1:                      # a single closed segment: a cubic loop
            pass
    specs = []
    gaps = []
    for i in range(n):
        a, b = verts[i], verts[i + 1]
        if (not closed or i > 0) and i > 0 and rng.random() < 0.12:
            a = a + complex(0.5, 0.25)        # a deliberate gap before segment i
            gaps.append(i)
        kind = rng.choice(['line', 'quad', 'cubic'] + (['arc', 'arc'] if with_arcs else []))
        if a == b:
            kind = 'cubic'
        if kind == 'line': specs.append(('bez', [a, b]))
        elif kind == 'quad': specs.append(('bez', [a, pt(), b]))
        elif kind == 'cubic': specs.append(('bez', [a, pt(), pt(), b]))
        else:
            d = abs(a - b)
            r = complex(d * rng.uniform(0.6, 3), d * rng.uniform(0.6, 3))
            specs.append(('arc', (a, r, rng.choice([0.0, 30.0, rng.uniform(0, 360)]), rng.random() < 0.5,
                                  rng.random() < 0.5, b)))
    return specs, closed, mode


def detect_arc_transform():
    """which Arc branch of transform() the implementation runs: True = repaired (exact affine image
    of the ellipse: Model/Xform.v arc_transform_fixed), False = pinned (eigen-decomposition of
    invT.T Q invT; raises TypeError on numpy 2.x, wrong maths where it runs).  Probe: the witness W1 of
    C10_arc_transform_refuted (det < 0, tf00*tf11 > 0) and W3 (rotated arc, non-uniform scale)."""
    import numpy as np
    from svgpathtools import Arc
    from svgpathtools.path import transform
    ok = 0
    for arc, M in ((Arc(1 + 0j, 1 + 1j, 0.0, False, True, 1j), [[1.0, 2.0, 0.0], [1.0, 1.0, 0.0], [0.0, 0.0, 1.0]]),
                   (Arc(0j, 3 + 1j, 45.0, False, True, 2 + 3j), [[2.0, 0.0, 0.0], [0.0, 1.0, 0.0], [0.0, 0.0, 1.0]])):
        try:
            new = transform(arc, np.array(M))
        except TypeError:
            return False
        if not isinstance(new, Arc):
            return None
        good = True
        for t in (0.0, 0.25, 0.5, 1.0):
            p = complex(arc.point(t))
            q = complex(M[0][0] * p.real + M[0][1] * p.imag + M[0][2], M[1][0] * p.real + M[1][1] * p.imag + M[1][2])
            if abs(complex(new.point(t)) - q) > 1e-9 * 20:
                good = False
        ok += good
    return True if ok == 2 else (False if ok == 0 else None)


def gen_arc_tf_degenerate(rng, i, allow_singular=True):
    """near-degenerate inputs of the repaired Arc branch: circles under rotations / uniform scales /
    reflections (repeated eigenvalue of M.M^T: every rotation of the image is right), images that are
    nearly circles, and nearly singular tf (condition number 1e2 .. 1e7)"""
    fam = rng.choice(['circle-rot', 'circle-refl', 'circle-rand', 'to-circle', 'near-singular', 'near-singular',
                      'shear', 'singular'])
    if fam == 'singular' and not allow_singular:
        fam = 'circle-rand'     # the pinned branch calls np.linalg.inv: LinAlgError, outside the quantifier
    large, sweep = [(False, False), (False, True), (True, False), (True, True)][i % 4]
    sc = 10 ** rng.uniform(-1, 2)
    s, e = rnd(rng, sc), rnd(rng, sc)
    if s == e:
        e = s + 1
    rot = rng.choice([0.0, 30.0, 90.0, rng.uniform(-360, 360)])
    th = rng.uniform(-math.pi, math.pi)
    R = [[math.cos(th), -math.sin(th)], [math.sin(th), math.cos(th)]]
    if fam.startswith('circle') or fam == 'singular' or fam == 'shear':
        rr = abs(s - e) / 2 * rng.choice([1.0, 1.5, 4.0, 0.5])
        r = complex(rr, rr) if fam != 'shear' else complex(rr, rr * rng.uniform(0.2, 5))
        if fam == 'circle-rot':
            f = rng.choice([1.0, 1.0, 2.0, 0.5])
            A = [[f * R[0][0], f * R[0][1]], [f * R[1][0], f * R[1][1]]]
            if rng.random() < 0.4:
                c, sn = rng.choice([(0.0, 1.0), (-1.0, 0.0), (0.0, -1.0), (0.6, 0.8)])
                A = [[f * c, -f * sn], [f * sn, f * c]]
        elif fam == 'circle-refl':
            A = [[R[0][0], R[0][1]], [-R[1][0], -R[1][1]]]
        elif fam == 'circle-rand':
            A = [[rng.uniform(-3, 3), rng.uniform(-3, 3)], [rng.uniform(-3, 3), rng.uniform(-3, 3)]]
            if abs(A[0][0] * A[1][1] - A[0][1] * A[1][0]) < 0.2:
                A = [[1.0, 2.0], [1.0, 1.0]]
        elif fam == 'shear':
            k = rng.choice([0.5, -2.0, 10.0, 1e3])
            A = [[1.0, k], [0.0, 1.0]] if rng.random() < 0.5 else [[1.0, 0.0], [k, 1.0]]
        else:   # exactly singular (rank 1 or 0): the image is flat -> Line(new_start, new_end)
            A = rng.choice([[[1.0, 2.0], [2.0, 4.0]], [[0.0, 0.0], [0.0, 0.0]], [[1.0, 0.0], [0.0, 0.0]],
                            [[0.5, -1.5], [-1.0, 3.0]]])
    else:
        phi = math.radians(rot)
        z = (s - e) / 2 * complex(math.cos(phi), -math.sin(phi))
        ecc = rng.choice([2.0, 4.0, 8.0])
        need = math.hypot(z.real, z.imag * ecc)
        f = 10 ** rng.uniform(0.05, 0.8)
        r = complex(need * f, need * f / ecc)
        if fam == 'to-circle':
            # undo the eccentricity in the arc's own frame: the image is (nearly) a circle
            cp, sp = math.cos(phi), math.sin(phi)
            D = [[1.0, 0.0], [0.0, ecc]]
            Rm = [[cp, sp], [-sp, cp]]
            B = [[sum(D[i][k] * Rm[k][j] for k in range(2)) for j in range(2)] for i in range(2)]
            A = [[sum(R[i][k] * B[k][j] for k in range(2)) for j in range(2)] for i in range(2)]
        else:
            eps = 10 ** rng.uniform(-7, -2)
            th2 = rng.uniform(-math.pi, math.pi)
            V = [[math.cos(th2), -math.sin(th2)], [math.sin(th2), math.cos(th2)]]
            D = [[rng.choice([1.0, 3.0]), 0.0], [0.0, eps * rng.choice([1, -1])]]
            B = [[sum(D[i][k] * V[k][j] for k in range(2)) for j in range(2)] for i in range(2)]
            A = [[sum(R[i][k] * B[k][j] for k in range(2)) for j in range(2)] for i in range(2)]
    M = [[A[0][0], A[0][1], rng.choice([0.0, rng.uniform(-20, 20)])],
         [A[1][0], A[1][1], rng.choice([0.0, rng.uniform(-20, 20)])], [0.0, 0.0, 1.0]]
    return ('arc', (s, r, float(rot), large, sweep, e)), {'op': 'transform', 'M': M, 'mkind': 'degenerate-' + fam}, \
        'arc-tf-' + fam


def detect_closing_joint():
    """which joints() the implementation runs: False = the n-1 consecutive pairs (pinned code),
    True = the closing pair (s_{n-1}, s0) as well (what the docstring says).  Structural probe,
    cross-checked by the triangle witness of C10_scaled_closed_refuted."""
    from svgpathtools import Path, Line
    p = Path(Line(0j, 1 + 0j), Line(1 + 0j, 2 + 1j), Line(2 + 1j, 0j))
    js = list(p.joints())
    if [(a is x and b is y) for (a, b), (x, y) in zip(js, [(p[0], p[1]), (p[1], p[2]), (p[2], p[0])])] == [True] * 3 \
            and len(js) == 3:
        cj = True
    elif len(js) == 2 and js[0][0] is p[0] and js[0][1] is p[1] and js[1][0] is p[1] and js[1][1] is p[2]:
        cj = False
    else:
        return None, None
    tri = Path(Line(0.1, 1.3), Line(1.3, 0.7 + 1j), Line(0.7 + 1j, 0.1)).scaled(1.7)
    return cj, tri[-1].end == tri[0].start


def joints_of(segs):
    n = len(segs)
    return [segs[i].end == segs[(i + 1) % n].start for i in range(n)]


# ------------------------------------------------------------------ run
def run(rep, tier, seed, replay=None):
    warnings.simplefilter('ignore')
    import numpy as np
    from svgpathtools import Path, Arc, Line
    rng = common.mkrng(seed, 'C10')
    found = {}

    def viol(key, what, rj):
        c = found.setdefault(key, [0])
        c[0] += 1
        if c[0] <= 3:
            rep.violation(what, rj, key=key)
        else:
            # counted (known_counts / violation_keys) without writing more replays
            for kf in rep.findings:
                if kf.get('status') == 'known' and common.kf_matches(kf, key, rj):
                    rep.known_counts[kf['id']] = rep.known_counts.get(kf['id'], 0) + 1
                    return
            rep.all_keys[key] = rep.all_keys.get(key, 0) + 1

    with common.Scratch() as tmp:
        info = common.std_static(rep, 'C10', GEN_GROUPS, AGREE, tmp)
        if info['agree_failed']:
            rep.violation('agreement lemma(s) %s no longer check: generated code differs from the model'
                          % info['agree_failed'],
                          {'kind': 'agreement', 'lemmas': info['agree_failed'], 'file': 'coq/GenAgree/Xform.v',
                           'messages': info.get('agree_msgs', {})}, found_input=False, key='agree')
        cj, tri_closed = detect_closing_joint()
        if cj is None or tri_closed != cj:
            rep.violation('Path.joints() is neither of the two modelled variants (n-1 consecutive pairs / with the '
                          'closing pair), or the triangle witness disagrees with it',
                          {'kind': 'variant', 'probe': 'list(Path(Line(0,1),Line(1,2+1j),Line(2+1j,0)).joints()); '
                           'Path(Line(0.1,1.3),Line(1.3,0.7+1j),Line(0.7+1j,0.1)).scaled(1.7)',
                           'closing_joint': cj, 'triangle_closed_after_scaled': tri_closed},
                          found_input=False, key='joints-variant-unknown')
            cj = bool(cj)
        rep.cov['implementation_variants'] = {
            'joints_closing_pair': cj,
            'applicable_closed_path_theorem': 'C10_closed_with_closing_joint (every kernel)' if cj else
            'C10_closed_preserved_local (translate/rotate/transform); scaled(): C10_scaled_closed_refuted'}
        tfx = detect_arc_transform()
        if tfx is None:
            rep.violation('the Arc branch of transform() is neither the pinned nor the repaired variant of the model',
                          {'kind': 'variant', 'probe': 'transform(Arc(1,1+1j,0,0,1,1j), [[1,2,0],[1,1,0],[0,0,1]]) and '
                           'transform(Arc(0,3+1j,45,0,1,2+3j), diag(2,1,1)) against the point-wise images'},
                          found_input=False, key='arc-transform-variant-unknown')
            tfx = False
        rep.cov['implementation_variants']['arc_transform'] = (
            'repaired (exact affine image; theorem C10_arc_transform_partial)' if tfx else
            'pinned (C10_arc_transform_refuted; TypeError on numpy 2.x)')
        okdef_path = OKDEF_PATH.replace('@CJ@', coq_bool(cj))
        okdef_f = OKDEF_F.replace('@CJ@', coq_bool(cj))
        quick = tier == 'quick'
        n_bez, n_arc, n_path = (600, 240, 400) if quick else (12000, 3200, 8000)
        lost = [k for k in info['untranslated'] if k != 'gen_transform_Line']   # numpy matrix code: never in the subset
        if info['agree_failed'] or lost:
            n_bez *= 3; n_arc *= 2; n_path *= 2

        seg_todo, path_todo = [], []
        if replay:
            r = json.load(open(replay))['replay']
            if r.get('kind') == 'path':
                path_todo = [([spec_from_json(s) for s in r['segments']], r.get('closed', False), 'replay',
                              op_from_json(r['opspec']), r.get('closed_by'))]
            elif 'segment' in r:
                seg_todo = [(spec_from_json(r['segment']), op_from_json(r['opspec']), 'replay')]
        else:
            # corpus first
            tri = [('bez', [0.1 + 0j, 1.3 + 0j]), ('bez', [1.3 + 0j, 0.7 + 1j]), ('bez', [0.7 + 1j, 0.1 + 0j])]
            path_todo.append((tri, True, 'corpus-triangle', {'op': 'scale', 'sx': 1.7, 'sy': None, 'origin': 0j}))
            path_todo.append((tri, True, 'corpus-triangle', {'op': 'translate', 'z0': 0.7 + 1.3j}))
            path_todo.append((tri, True, 'corpus-triangle', {'op': 'rotate', 'degs': 33.3, 'origin': 0.1 + 0.7j}))
            path_todo.append((tri, True, 'corpus-triangle', {'op': 'transform', 'M': mat(1.0, 2.0, 1.0, 1.0, 0.3, 0.1), 'mkind': 'corpus'}))
            seg_todo.append((('arc', (1 + 0j, 1 + 1j, 0.0, False, True, 1j)),
                             {'op': 'transform', 'M': mat(1.0, 2.0, 1.0, 1.0), 'mkind': 'corpus-W1'}, 'corpus'))
            seg_todo.append((('arc', (0j, 3 + 1j, 45.0, False, True, 2 + 3j)),
                             {'op': 'transform', 'M': mat(2.0, 0.0, 0.0, 1.0), 'mkind': 'corpus-W3'}, 'corpus'))
            seg_todo.append((('arc', (0j, 3 + 2j, 30.0, True, False, 4 + 1j)),
                             {'op': 'scale', 'sx': -0.5, 'sy': None, 'origin': 1 + 1j}, 'corpus'))
            for i in range(n_bez):
                pts, mode = gen_points(rng, rng.choice([2, 3, 4]))
                seg_todo.append((('bez', fix_line(pts)), gen_op(rng), mode))
            for i in range(max(40, n_bez // 8)):
                op, pt = gen_nearid(rng)
                seg_todo.append((('bez', fix_line([pt() for _ in range(rng.choice([2, 3, 4]))])), op, op['mkind']))
            for i in range(n_arc):
                a = gen_arc(rng, i)
                seg_todo.append((('arc', a[:6]), gen_op(rng, arc=True), 'arc-' + a[6]))
            for i in range(max(40, n_arc // 4)):
                seg_todo.append(gen_arc_tf_degenerate(rng, i, allow_singular=tfx))
            for i in range(n_path):
                specs, closed, mode = gen_path(rng)
                path_todo.append((specs, closed, mode, gen_op(rng)))
            for i in range(max(30, n_path // 10)):
                specs, closed, op = gen_nearid_path(rng)
                path_todo.append((specs, closed, op['mkind'], op))
            for i in range(max(60, n_path // 4)):
                specs, mode, how = gen_path_hist(rng)
                path_todo.append((specs, True, mode + '-closed-in-place', gen_op(rng), how))

        # ---------------- segments
        bez_cases, bez_meta, arc_cases, arc_meta = [], [], [], []
        tfd_cases, tfd_meta = [], []
        dist = {}
        nontrivial = set()
        evals = 0
        n_arc_tf = 0
        n_arc_singular = [0]
        arc_tf_loose = {'eccentric': 0, 'acos-conditioning': 0}
        for spec, op, mode in seg_todo:
            kind = spec[0]
            dk = '%s/%s' % ('bez%d' % len(spec[1]) if kind == 'bez' else 'arc', op['op'])
            dist[dk] = dist.get(dk, 0) + 1
            rj = {'kind': 'segment', 'segment': spec_json(spec), 'opspec': op_json(op),
                  'python': spec_py(spec) + op_py(op), 'how': './check C10 --replay <this file>'}
            ts = FIXED_T + [rng.random(), rng.uniform(-0.1, 1.1)]
            try:
                seg = mk_seg(spec)
            except Exception as ex:
                viol('impl-exception', 'constructor raised %s' % type(ex).__name__, dict(rj, error=repr(ex)))
                continue
            refused = False
            captured = []
            if kind == 'arc' and op['op'] == 'transform':
                orig_eig = np.linalg.eig
                def spy(Dm, _c=captured, _o=orig_eig):
                    out = _o(Dm)
                    _c.append((np.array(Dm, dtype=float), out))
                    return out
                np.linalg.eig = spy
            try:
                try:
                    new = apply_op(seg, op)
                finally:
                    if kind == 'arc' and op['op'] == 'transform':
                        np.linalg.eig = orig_eig
            except TypeError as ex:
                if kind == 'arc' and op['op'] == 'transform' and not is_identity(op):
                    n_arc_tf += 1
                    if captured:
                        Dm, (ev, evec) = captured[0]
                        s_, r_, rot_, la_, sw_, e_ = spec[1]
                        M = op['M']
                        sz = (abs(seg.start) + abs(seg.end) + abs(seg.radius) + abs(seg.center) + 1.0) * op_norm(op)[0] \
                            + op_norm(op)[1]
                        evr = [float(np.real(x)) for x in ev]
                        vr = [[float(np.real(evec[i][j])) for j in range(2)] for i in range(2)]
                        tfd_cases.append('(%s, %s, %s, %s, %s, %s, (%s), ((%s, %s), (%s, %s)), ((%s, %s), ((%s, %s), (%s, %s))), %s)' % (
                            cbf(s_), cbf(r_), bf(rot_), coq_bool(la_), coq_bool(sw_), cbf(e_),
                            ', '.join('(%s, %s, %s)' % tuple(bf(x) for x in row) for row in M),
                            bf(Dm[0][0]), bf(Dm[0][1]), bf(Dm[1][0]), bf(Dm[1][1]),
                            bf(evr[0]), bf(evr[1]), bf(vr[0][0]), bf(vr[0][1]), bf(vr[1][0]), bf(vr[1][1]), bf(float(sz))))
                        tfd_meta.append(rj)
                    viol('arc-transform-typeerror-numpy2',
                         'transform(Arc, M) raises TypeError for a non-identity matrix (np.linalg.eig returns complex '
                         'arrays on numpy %s; np.degrees(np.arccos(complex)))' % np.__version__,
                         dict(rj, error=repr(ex)))
                else:
                    viol('impl-exception', 'operation raised TypeError', dict(rj, error=repr(ex)))
                continue
            except Exception as ex:
                if kind == 'arc' and op['op'] == 'scale' and type(ex) is Exception:
                    refused = True
                    new = None
                else:
                    viol('impl-exception', 'operation raised %s' % type(ex).__name__, dict(rj, error=repr(ex)))
                    continue
            # ---- refusal of non-uniform arc scaling
            if kind == 'arc' and op['op'] == 'scale':
                nonuni = op['sy'] is not None and op['sy'] != op['sx']
                evals += 1
                if nonuni and not refused:
                    viol('arc-nonuniform-not-refused', 'scaled(sx, sy) with sx != sy of an Arc did not raise', rj)
                    continue
                if refused and not nonuni:
                    viol('arc-uniform-refused', 'uniform scaled() of an Arc raised', rj)
                    continue
            onorm, ooff = op_norm(op)
            if kind == 'bez':
                pts = spec[1]
                size = (sum(abs(p) for p in pts) + ooff) * onorm or 2.0 ** -1000
                origin_default = complex(seg.point(0.5))
            else:
                size = (abs(seg.start) + abs(seg.end) + abs(seg.radius) + abs(seg.center) + ooff + 1.0) * onorm
                origin_default = complex(seg.center)
            samples = []
            tolrel = 1e-9 if kind == 'bez' else 1e-7
            if kind == 'arc' and op['op'] == 'transform' and not is_identity(op):
                M_ = op['M']
                detA = M_[0][0] * M_[1][1] - M_[0][1] * M_[1][0]
                if detA == 0:
                    # singular tf: Line(new_start, new_end)
                    evals += 1
                    fm = float_map(op, None)
                    if not (isinstance(new, Line) and abs(new.start - fm(seg.start)) <= 1e-12 * size
                            and abs(new.end - fm(seg.end)) <= 1e-12 * size):
                        viol('arc-transform-singular', 'transform(arc, singular tf) is not Line(tf.start, tf.end)', rj)
                    else:
                        n_arc_singular[0] += 1
                    continue
                if not isinstance(new, Arc):
                    viol('class-changed', 'transform(arc, invertible tf) returned a %s' % type(new).__name__, rj)
                    continue
                if tfx:
                    # what the float error analysis supports: 1e-9*size, unless the image is extremely
                    # eccentric (the constructor divides the half chord by ry': the condition number is rx'/ry'; ~16 ulp of it.
                    # A first calibration from measurements, 2e-17*rx'/ry', was exceeded by 9% on a near-singular tf: false alarm)
                    # or an end point of either arc sits within ~1e-7 rad of an axis extreme of its ellipse
                    # (theta, delta come from acos near +-1: error eps/|sin|, at worst sqrt(eps))
                    kap = max(new.radius.real / new.radius.imag, new.radius.imag / new.radius.real)
                    sinmin = min(abs(math.sin(math.radians(a.theta))) for a in (seg, new))
                    sinmin = min([sinmin] + [abs(math.sin(math.radians(a.theta + a.delta))) for a in (seg, new)])
                    tolrel = max(1e-9, 2e-15 * kap, 2e-15 / max(sinmin, 1.5e-8))
                    if tolrel > 1e-9:
                        arc_tf_loose['eccentric' if 2e-15 * kap >= tolrel else 'acos-conditioning'] += 1
            if not refused:
                if type(new) is not type(seg) and not (kind == 'arc' and op['op'] == 'transform'):
                    viol('class-changed', 'the operation returned a %s for a %s' % (type(new).__name__, type(seg).__name__), rj)
                    continue
                fmap = float_map(op, origin_default)
                tolf = tolrel * size
                worst = 0.0
                for t in ts:
                    p0, p1 = complex(seg.point(t)), complex(new.point(t))
                    samples.append((t, p0, p1))
                    tm = max(1.0, abs(t)) ** 3
                    err = abs(p1 - fmap(p0))
                    evals += 1
                    if not err <= tolf * tm:
                        worst = max(worst, err)
                if worst > 0:
                    key = '%s-%s-point' % ('bez' if kind == 'bez' else 'arc', op['op'])
                    if kind == 'arc' and op['op'] == 'transform' and not tfx:
                        key = 'arc-transform-wrong'
                    viol(key, 'X(seg).point(t) differs from the map applied to seg.point(t) by %.3g (> %.3g)'
                         % (worst, tolf), dict(rj, error=worst, tol=tolf))
                    continue
                if not is_identity(op) and len(set(spec[1] if kind == 'bez' else [spec[1][0], spec[1][5]])) > 1:
                    nontrivial.add((kind, str(spec[1]), op['op'], str(sorted((k, str(v)) for k, v in op.items()))))
            if kind == 'bez':
                cs = op_cs(op) if op['op'] == 'rotate' else None
                term = '(%s, %s, %s, %s, %s, %s)' % (
                    coq_list([cq(p) for p in spec[1]]), coq_op_q(op, cs), qc(Fr(size)),
                    coq_list([cq(p) for p in new.bpoints()]),
                    coq_list(['(%s, %s, %s)' % (qc(t), cq(a), cq(b)) for t, a, b in samples]),
                    coq_bool(new is seg))
                bez_cases.append(term); bez_meta.append((spec, op, rj))
            elif op['op'] != 'transform' or (tfx and not is_identity(op)):
                s, r, rot, la, sw, e = spec[1]
                if refused:
                    newargs = '(%s, %s, %s, false, false, %s)' % (cbf(0j), cbf(0j), bf(0.0), cbf(0j))
                else:
                    newargs = '(%s, %s, %s, %s, %s, %s)' % (cbf(new.start), cbf(new.radius), bf(new.rotation),
                                                             coq_bool(new.large_arc), coq_bool(new.sweep), cbf(new.end))
                term = '(%s, %s, %s, %s, %s, %s, %s, %s, %s, %s, %s, %s)' % (
                    cbf(s), cbf(r), bf(rot), coq_bool(la), coq_bool(sw), cbf(e), coq_op_b(op), bf(float(size)),
                    bf(float(tolrel)), coq_bool(refused), newargs,
                    coq_list(['(%s, %s, %s)' % (bf(t), cbf(a), cbf(b)) for t, a, b in samples]))
                arc_cases.append(term); arc_meta.append((spec, op, rj))
            elif is_identity(op):
                evals += 1
                if new is not seg:
                    viol('identity-shortcut', 'transform(arc, eye(3)) did not return the arc itself', rj)

        # ---------------- paths
        path_cases, path_meta, f_cases, f_meta = [], [], [], []
        closed_stats = {}
        for ptodo in path_todo:
            specs, closed, mode, op = ptodo[:4]
            hist = ptodo[4] if len(ptodo) > 4 else None
            dk = 'path/%s/%s' % (op['op'], ('closed-in-place' if hist else 'closed') if closed else 'open')
            dist[dk] = dist.get(dk, 0) + 1
            rj = {'kind': 'path', 'segments': [spec_json(s) for s in specs], 'closed': closed, 'opspec': op_json(op),
                  'python': 'Path(%s)%s' % (', '.join(spec_py(s) for s in specs), op_py(op)),
                  'how': './check C10 --replay <this file>'}
            if hist:
                rj['closed_by'] = hist
                rj['python'] = 'p = Path(%s); %s; p%s' % (
                    ', '.join(spec_py(s) for s in specs),
                    'p[-1].end = p[0].start' if hist == 'end' else 'p[0].start = p[-1].end', op_py(op))
            has_arc = any(s[0] == 'arc' for s in specs)
            if has_arc and op['op'] == 'transform' and not is_identity(op) and not tfx:
                op = {'op': 'translate', 'z0': complex(op['M'][0][2], op['M'][1][2])}   # arc transform: see segment cases
                rj['opspec'] = op_json(op); rj['python'] = 'Path(...)' + op_py(op)
            if has_arc and op['op'] == 'scale' and op['sy'] is not None and op['sy'] != op['sx']:
                op = dict(op, sy=None)
                rj['opspec'] = op_json(op)
            try:
                segs = [mk_seg(s) for s in specs]
                path = Path(*segs)
                if hist == 'end':
                    path[-1].end = path[0].start          # in-place edit: the Path's cached _end goes stale
                elif hist == 'start':
                    path[0].start = path[-1].end
                if hist:                                  # the segments as they are now
                    specs = [('bez', [complex(z) for z in sg.bpoints()]) if sp[0] == 'bez' else sp
                             for sg, sp in zip(segs, specs)]
                old_j = joints_of(segs)
                was_closed = old_j[-1]
                if op['op'] == 'rotate' and op['origin'] is None:
                    op = dict(op, origin_data=complex(path.point(0.5)))
                res = apply_op(path, op)
                # the per-segment kernel on the implementation (fresh objects)
                kop = op
                if op['op'] == 'rotate' and op['origin'] is None:
                    kop = dict(op, origin=op['origin_data'])
                new0 = [apply_op(mk_seg(s), kop) for s in specs]
            except Exception as ex:
                viol('impl-exception', 'path operation raised %s' % type(ex).__name__, dict(rj, error=repr(ex)))
                continue
            rsegs = list(res)
            n = len(segs)
            evals += 1
            if len(rsegs) != n or any(type(a) is not type(b) for a, b in zip(rsegs, new0)):
                viol('path-not-segmentwise', 'result has different length / segment classes', rj)
                continue
            # segment-wise: everything but .end equals the kernel's result; .end is the kernel's
            # or the next start
            if is_identity(op):
                if res is not path:
                    viol('identity-shortcut', 'transform(path, eye(3)) did not return the path itself', rj)
                continue
            bad = None
            new_j = joints_of(rsegs)
            # the property statement segment by segment: res[i].point(t) vs the map applied to path[i].point(t)
            onorm, ooff = op_norm(kop)
            fmap = float_map(kop, None)
            for i in range(n):
                sg = segs[i]
                if isinstance(sg, Arc):
                    sz = (abs(sg.start) + abs(sg.end) + abs(sg.radius) + abs(sg.center) + ooff) * onorm
                    tolp = 1e-7 * sz
                else:
                    sz = (sum(abs(z) for z in sg.bpoints()) + ooff) * onorm
                    tolp = 1e-9 * sz
                smp = []
                for t in (0.0, 0.5, 1.0 / 3.0, 1.0):
                    p0, p1 = complex(sg.point(t)), complex(rsegs[i].point(t))
                    smp.append((t, p0, p1))
                    evals += 1
                    if not abs(p1 - fmap(p0)) <= tolp and bad is None:
                        bad = ('path-%s-point' % op['op'], 'segment %d of the result: point(%r) differs from the map '
                               'applied to the original point by %.3g (> %.3g)' % (i, t, abs(p1 - fmap(p0)), tolp))
                if not has_arc and op['op'] == 'transform' and bad is None and \
                        (str(mode).startswith('nearid') or len(path_cases) % 3 == 0):
                    # and in exact rationals, as a segment case
                    bez_cases.append('(%s, %s, %s, %s, %s, %s)' % (
                        coq_list([cq(z) for z in sg.bpoints()]), coq_op_q(kop), qc(Fr(sz) if sz > 0 else Fr(1, 2 ** 1000)),
                        coq_list([cq(z) for z in rsegs[i].bpoints()]),
                        coq_list(['(%s, %s, %s)' % (qc(t), cq(a), cq(b)) for t, a, b in smp]),
                        coq_bool(rsegs[i] is sg)))
                    bez_meta.append((('bez', list(sg.bpoints())), kop, dict(rj, segment_index=i)))
            if bad:
                viol(bad[0], bad[1], rj)
                continue
            for i in range(n):
                a, b = rsegs[i], new0[i]
                same_body = (a.start == b.start and
                             (list(a.bpoints())[:-1] == list(b.bpoints())[:-1] if not isinstance(a, Arc)
                              else (a.radius == b.radius and a.rotation == b.rotation and a.center == b.center)))
                if not same_body:
                    bad = ('path-not-segmentwise', 'segment %d differs from the kernel applied to segment %d' % (i, i))
                    break
                if i < n - 1 and old_j[i] and not new_j[i]:
                    bad = ('joint-lost-' + op['op'], 'joint %d coincided exactly before and not after' % i)
                    break
            if bad:
                viol(bad[0], bad[1], rj)
                continue
            ck = (op['op'], ('bezier' if not has_arc else 'mixed') + ('/closed-in-place' if hist else ''))
            if was_closed:
                st = closed_stats.setdefault(ck, [0, 0])
                st[0] += 1
                if not new_j[-1]:
                    st[1] += 1
                    key = 'scaled-unclosed' if (op['op'] == 'scale' and not cj) else 'closed-lost-' + op['op']
                    viol(key, 'closed path (end == start exactly) is not closed after the operation: '
                         'end %r vs start %r' % (rsegs[-1].end, rsegs[0].start),
                         dict(rj, end=common.chex(rsegs[-1].end), start=common.chex(rsegs[0].start)))
            nontrivial.add(('path', str(specs), op['op'], str(sorted((k, str(v)) for k, v in op.items()))))
            path_cases.append('(%s, %s, %s)' % (coq_list([seg_term_q(s) for s in segs]),
                                                coq_list([seg_term_q(s) for s in new0]),
                                                coq_list([seg_term_q(s) for s in rsegs])))
            path_meta.append(rj)
            if was_closed and not has_arc and op['op'] == 'scale':
                f_cases.append('(%s, %s, %s, %s, %s)' % (
                    coq_list(['(SBez %s)' % coq_list([cfl(p) for p in s.bpoints()]) for s in segs]),
                    fl(op['sx']), 'None' if op['sy'] is None else '(Some %s)' % fl(op['sy']), cfl(op['origin']),
                    coq_bool(new_j[-1])))
                f_meta.append(rj)
            if mode == 'corpus-triangle' and op['op'] == 'scale' and not cj:
                # the witness of Props/C10.v (C10_scaled_closed_refuted) replays on the implementation
                got = (rsegs[-1].end.real.hex(), rsegs[0].start.real.hex())
                evals += 1
                if got != ('0x1.5c28f5c28f5c0p-3', '0x1.5c28f5c28f5c3p-3'):
                    rep.notes.append('the NumF witness of C10_scaled_closed_refuted no longer replays on the '
                                     'implementation: got %r' % (got,))

        # ---------------- Coq
        # the five families of case files are independent: evaluate them concurrently
        from concurrent.futures import ThreadPoolExecutor
        BFH = 'From SVP Require Import Base.BigF.\n'
        jobs = [('', OKDEF_BEZ, bez_cases, 60, 'bez'), (BFH, OKDEF_ARC, arc_cases, 12, 'arc'),
                ('', okdef_path, path_cases, 60, 'path'), ('', okdef_f, f_cases, 100, 'fl'),
                (BFH, OKDEF_TFD, tfd_cases, 12, 'tfd')]
        def _job(j):
            pre, okd, cs, sh, pf = j
            return common.run_cases(tmp, pre, 'casety', okd, cs, shard=sh, prefix=pf) if cs else ([], [])
        with ThreadPoolExecutor(max_workers=5) as ex:
            (f1, e1), (f2, e2), (f3, e3), (f4, e4), (f5, e5) = list(ex.map(_job, jobs))
        tf_wrong = 0
        for idx, code in f5:
            if code == 50:
                tf_wrong += 1
            else:
                viol('corr-arc-tfD', 'the matrix D = invT.T Q invT passed to np.linalg.eig differs from the model\'s',
                     tfd_meta[idx])
        rep.cov['arc_transform_model_with_lapack_eig'] = {
            'cases': len(tfd_cases), 'D_matches_model': len(tfd_cases) - len([1 for _, c in f5 if c != 50]),
            'property_fails_on_model': tf_wrong,
            'note': 'the branch as coded, continued on the model with the eigen-pairs LAPACK actually returned: '
                    'number of cases where the resulting arc is NOT the image of the arc (cannot be observed on the '
                    'implementation, which raises TypeError first)'}
        for e in e1 + e2 + e3 + e4 + e5:
            rep.violation('correspondence case file failed to evaluate', {'kind': 'cases', 'error': e},
                          found_input=False, key='cases-error')
        undecided = 0
        for idx, code in f1:
            spec, op, rj = bez_meta[idx]
            viol('corr-bez-%d' % code, 'C10 (Bezier, exact rationals): %s disagrees' % BEZ_CODES.get(code, code),
                 dict(rj, observation=BEZ_CODES.get(code, str(code))))
        for idx, code in f2:
            spec, op, rj = arc_meta[idx]
            if code == 90:
                undecided += 1
                continue
            viol('corr-arc-%d' % code, 'C10 (Arc, 120-bit floats): %s disagrees' % ARC_CODES.get(code, code),
                 dict(rj, observation=ARC_CODES.get(code, str(code))))
        for idx, code in f3:
            viol('corr-sync-%d' % code, 'the model of transform_segments_together (joints() as coded) does not '
                 'reproduce the implementation\'s path from its per-segment results', path_meta[idx])
        for idx, code in f4:
            viol('corr-float-closed-%d' % code, 'the binary64 model of Path.scaled() predicts a different closed/'
                 'unclosed verdict than the implementation', f_meta[idx])

        ncorr = len(bez_cases) + len(arc_cases) + len(path_cases) + len(f_cases) + len(tfd_cases)
        rep.cov['evaluations'] = evals + 5 * len(bez_cases) + 7 * len(arc_cases) + 2 * len(path_cases) + len(f_cases)
        rep.cov['traces_validated_against_impl'] = ncorr
        rep.cov['distinct_nontrivial'] = len(nontrivial)
        rep.cov['undecided_arc_cases'] = undecided
        rep.cov['arc_transform_cases_raising_typeerror'] = n_arc_tf
        rep.cov['arc_transform_singular_tf_lines'] = n_arc_singular[0]
        rep.cov['arc_transform_cases_with_tolerance_above_1e-9'] = dict(
            arc_tf_loose, rule='tolerance = size*max(1e-9, 2e-15*rx\'/ry\', 2e-15/max(min|sin(end angles)|, 1.5e-8)) (about 16 ulp times the condition number of the constructor)')
        rep.cov['closed_paths'] = {'%s/%s' % k: {'closed_before': v[0], 'unclosed_after': v[1]}
                                   for k, v in sorted(closed_stats.items())}
        rep.cov['rule'] = ('segments: Line/Quadratic/Cubic from point pools, arcs (ample / auto-scaled / integer radii); '
                           'ops: translate, rotate (multiples of 90, random; default and explicit origin), scale '
                           '(negative, <1, non-uniform; arcs uniform + refused non-uniform), transform (rotations, '
                           'uniform/non-uniform scales, reflections, shears, products, identity); paths of 1..7 segments '
                           'with exact joints, open/closed, some with gaps and arcs; non-trivial = not the identity '
                           'and end points distinct; every case compared inside Coq (NumQ exact / NumB 120-bit / NumF '
                           'bit-exact) and by the implementation-level predicate at 9 values of t')
        rep.cov['input_distribution'] = dist
        rep.cov['samples'] = [m[2]['python'] for m in bez_meta[:2]] + [m[2]['python'] for m in arc_meta[:2]] + \
                             [m['python'][:300] for m in path_meta[:1]]
        rep.cov['violation_counts'] = {k: v[0] for k, v in found.items()}
    rep.assumptions += [
        'exp(1j*radians(degs)) enters the exact-rational Bezier model as data (the implementation\'s libm values)',
        'numpy tf.dot / np.linalg.inv are the exact row-by-column sum / adjugate formula; np.linalg.eig is an oracle '
        '(the Arc branch of transform raises TypeError on the installed numpy, so it is only refuted on the model)',
        'rounding bounds: Bezier 200*2^-53*size*max(1,|t|)^3 inside Coq, 1e-9*size on the implementation; arcs 1e-7*size',
        'Path.point(0.5) (default origin of Path.rotated) is taken from the implementation as data',
        'arc cases whose _parameterize decisions are within rounding of a threshold are skipped and counted (undecided)']
