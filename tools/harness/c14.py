"""C14 — area() is the signed enclosed area (Green); sign, reversal,
translation, determinant; arcs by chords; path_encloses_pt = even-odd rule in
general position; is_contained_by.  Theorems: coq/Props/C14.v.
Ties: translator (GenArea: the nested area_without_arcs kernel per segment
class + GenAgree/Area.v) and correspondence in exact rationals (NumQ), the
comparison being computed inside Coq on Model/Area.v.  Besides, the property
itself is evaluated on the implementation with exact Fraction references."""
import math, warnings, json
from fractions import Fraction as Fr
from math import comb
import common
from common import qc, cq, coq_list, coq_bool

GEN_GROUPS = ['GenArea']
AGREE = ['Area.v']
ATOL = 1e-8      # numpy.isclose default atol (Line.intersect: np.isclose(denom, 0))
TOL = 1e-12      # Path.intersect default tol (redundancy filter)
U = Fr(1, 2 ** 53)
SPECIAL_MODES = ['bowtie-lobe', 'bowtie-gap', 'pentagram-tip', 'pentagram-core', 'spiral2', 'spiral2',
                 'figure8-lobe', 'figure8-gap']
KNOWN_UNTRANSLATED = {'gen_Path_area_1Line'}   # Path.area itself: Path(*list) is outside the subset (recorded every run)


# ------------------------------------------------------------ exact helpers
def fz(z):
    z = complex(z)
    return (Fr(z.real), Fr(z.imag))


def orient(p, q, r):
    return (q[0] - p[0]) * (r[1] - p[1]) - (q[1] - p[1]) * (r[0] - p[0])


def shoelace(vs):
    """exact signed area of the closed polygon through vs (list of (Fr,Fr))"""
    s = Fr(0)
    n = len(vs)
    for i in range(n):
        a, b = vs[i], vs[(i + 1) % n]
        s += a[0] * b[1] - b[0] * a[1]
    return s / 2


def bez_power(ctrl):
    """power-basis coefficients (low to high) of the Bernstein curve with
    control points ctrl, by expanding (1-t)^(n-i) t^i — independent of poly()"""
    n = len(ctrl) - 1
    cx = [Fr(0)] * (n + 1)
    cy = [Fr(0)] * (n + 1)
    for i, P in enumerate(ctrl):
        for k in range(n - i + 1):
            c = comb(n, i) * comb(n - i, k) * (-1) ** k
            cx[i + k] += c * P[0]
            cy[i + k] += c * P[1]
    return cx, cy


def exact_green(ctrl):
    """int_0^1 x(t) y'(t) dt exactly"""
    cx, cy = bez_power(ctrl)
    s = Fr(0)
    for a, xa in enumerate(cx):
        for b, yb in enumerate(cy):
            if b >= 1:
                s += xa * b * yb / (a + b)
    return s


def seg_ctrl(seg):
    return [fz(p) for p in seg.bpoints()]


def exact_area(path):
    return sum((exact_green(seg_ctrl(s)) for s in path), Fr(0))


def area_tol(path, factor=4096):
    """forward rounding bound of area_without_arcs in binary64:
    factor * 2^-53 * sum_seg (sum |Re ctrl|)(sum |Im ctrl|)   (the same formula
    is evaluated inside Coq for the correspondence)"""
    t = Fr(0)
    for s in path:
        c = seg_ctrl(s)
        t += sum(abs(p[0]) for p in c) * sum(abs(p[1]) for p in c)
    return factor * U * t


def is_small_dyadic(path, bits=20):
    for s in path:
        for p in s.bpoints():
            for v in (p.real, p.imag):
                f = Fr(v)
                if f.denominator > 2 ** 10 or abs(f.numerator) > 2 ** bits:
                    return False
    return True


# ------------------------------------------------------------ generators
def dy(rng, lo, hi, den=16):
    return rng.randint(int(lo * den), int(hi * den)) / den


def poly_path(vs):
    from svgpathtools import Path, Line
    n = len(vs)
    return Path(*[Line(vs[i], vs[(i + 1) % n]) for i in range(n)])


def gen_convex(rng, n):
    """strictly convex counter-clockwise polygon with dyadic vertices"""
    for _ in range(200):
        R = rng.choice([4, 10, 40, 200])
        c = complex(dy(rng, -R, R), dy(rng, -R, R))
        angs = sorted(rng.uniform(0, 2 * math.pi) for _ in range(n))
        a, b = R * rng.uniform(0.5, 1), R * rng.uniform(0.5, 1)
        vs = [c + complex(round(a * math.cos(t) * 16) / 16, round(b * math.sin(t) * 16) / 16) for t in angs]
        f = [fz(v) for v in vs]
        if len(set(f)) < n:
            continue
        if all(orient(f[i], f[(i + 1) % n], f[(i + 2) % n]) > 0 for i in range(n)) and \
           all(orient(f[0], f[i], f[i + 1]) > 0 for i in range(1, n - 1)):
            return vs
    return [0j, 4 + 0j, 4 + 3j][:3]


def segs_intersect_closed(a, b, c, d):
    """exact: do the closed segments [a,b] and [c,d] share a point?"""
    o1, o2, o3, o4 = orient(a, b, c), orient(a, b, d), orient(c, d, a), orient(c, d, b)
    if ((o1 > 0) != (o2 > 0)) and o1 != 0 and o2 != 0 and ((o3 > 0) != (o4 > 0)) and o3 != 0 and o4 != 0:
        return True

    def on(p, q, r):   # r on segment pq given collinear
        return min(p[0], q[0]) <= r[0] <= max(p[0], q[0]) and min(p[1], q[1]) <= r[1] <= max(p[1], q[1])
    if o1 == 0 and on(a, b, c): return True
    if o2 == 0 and on(a, b, d): return True
    if o3 == 0 and on(c, d, a): return True
    if o4 == 0 and on(c, d, b): return True
    return False


def is_simple(f):
    n = len(f)
    for i in range(n):
        for j in range(i + 1, n):
            if j == i or (j + 1) % n == i or (i + 1) % n == j:
                continue
            if segs_intersect_closed(f[i], f[(i + 1) % n], f[j], f[(j + 1) % n]):
                return False
    for i in range(n):   # no degenerate / back-folding corners
        if orient(f[i], f[(i + 1) % n], f[(i + 2) % n]) == 0:
            return False
    return True


def gen_star(rng, n):
    """simple (star-shaped) counter-clockwise polygon, generally concave"""
    for _ in range(200):
        R = rng.choice([4, 10, 40, 200])
        c = complex(dy(rng, -R, R), dy(rng, -R, R))
        angs = sorted(rng.uniform(0, 2 * math.pi) for _ in range(n))
        if max((angs[(i + 1) % n] - angs[i]) % (2 * math.pi) for i in range(n)) > 0.9 * math.pi:
            continue
        vs = []
        for t in angs:
            r = R * rng.uniform(0.25, 1)
            vs.append(c + complex(round(r * math.cos(t) * 16) / 16, round(r * math.sin(t) * 16) / 16))
        f = [fz(v) for v in vs]
        if len(set(f)) == n and is_simple(f) and shoelace(f) > 0:
            return vs
    return gen_convex(rng, n)


def gen_selfx(rng, n):
    """closed polygon with random vertex order (usually self-intersecting);
    no zero-length edges"""
    for _ in range(100):
        R = rng.choice([4, 10, 40])
        vs = [complex(dy(rng, -R, R), dy(rng, -R, R)) for _ in range(n)]
        if all(vs[i] != vs[(i + 1) % n] for i in range(n)) and len(set(vs)) == n:
            return vs
    return [0j, 4 + 4j, 4 + 0j, 4j]


def rounded_bezier(rng, vs):
    """closed convex counter-clockwise Bezier path inscribed in the convex ccw
    polygon vs: joints at edge midpoints, control points at (or towards) the
    corners.  Inside the polygon and outside the midpoint polygon."""
    from svgpathtools import Path, Line, QuadraticBezier, CubicBezier
    n = len(vs)
    mids = [(vs[i] + vs[(i + 1) % n]) / 2 for i in range(n)]
    segs = []
    for i in range(n):
        a, corner, b = mids[i], vs[(i + 1) % n], mids[(i + 1) % n]
        k = rng.choice(['Q', 'C', 'C2', 'L'])
        if k == 'Q':
            segs.append(QuadraticBezier(a, corner, b))
        elif k == 'C':
            segs.append(CubicBezier(a, a + (corner - a) * 0.75, b + (corner - b) * 0.75, b))
        elif k == 'C2':
            segs.append(CubicBezier(a, corner, corner, b))
        else:
            segs.append(Line(a, b))
    return Path(*segs)


def random_bezier_path(rng, n):
    """closed continuous path of random Lines/Quadratics/Cubics (any shape)"""
    from svgpathtools import Path, Line, QuadraticBezier, CubicBezier
    R = rng.choice([2, 10, 100])
    joints = []
    while len(joints) < n:
        z = complex(dy(rng, -R, R), dy(rng, -R, R))
        if not joints or z != joints[-1]:
            joints.append(z)
    if joints[0] == joints[-1]:
        joints[-1] += 1
    segs = []
    for i in range(n):
        a, b = joints[i], joints[(i + 1) % n]
        k = rng.choice(['L', 'Q', 'C'])
        rc = lambda: complex(dy(rng, -R, R), dy(rng, -R, R))
        if k == 'L' and a != b:
            segs.append(Line(a, b))
        elif k == 'Q':
            segs.append(QuadraticBezier(a, rc(), b))
        else:
            segs.append(CubicBezier(a, rc(), rc(), b))
    return Path(*segs)


def ellipse_path(rng):
    """ellipse from two arcs, traversed counter-clockwise (increasing eccentric
    angle, sweep=True).  Returns (path, meta)"""
    from svgpathtools import Path, Arc
    a = rng.choice([1.0, 2.0, 0.5, 3.0, 10.0, rng.uniform(0.5, 20)])
    b = a if rng.random() < 0.4 else rng.choice([1.0, 0.5, 2.5, rng.uniform(0.5, 20)])
    phi = rng.choice([0.0, 0.0, 30.0, 90.0, 45.0, rng.uniform(0, 180)])
    c = complex(dy(rng, -20, 20), dy(rng, -20, 20))
    if rng.random() < 0.4:
        th0, d1 = 0.0, math.pi
    else:
        th0 = rng.uniform(0, 2 * math.pi)
        d1 = rng.uniform(0.2, 0.8) * math.pi
    th1 = th0 + d1
    rot = complex(math.cos(math.radians(phi)), math.sin(math.radians(phi)))
    P = lambda th: c + rot * complex(a * math.cos(th), b * math.sin(th))
    p0, p1 = P(th0), P(th1)
    d2 = 2 * math.pi - d1
    arcs = [Arc(p0, complex(a, b), phi, d1 > math.pi * (1 + 1e-9), True, p1),
            Arc(p1, complex(a, b), phi, d2 > math.pi * (1 + 1e-9), True, p0)]
    # sanity of the construction (a harness error otherwise)
    for arc, t0, d in ((arcs[0], th0, d1), (arcs[1], th1, d2)):
        m = arc.point(0.5)
        assert abs(m - P(t0 + d / 2)) < 1e-6 * (1 + abs(c) + a + b), 'harness: arc construction'
    return Path(*arcs), {'a': a, 'b': b, 'phi': phi, 'c': c, 'deltas': [d1, d2]}



# ---- containment: self-intersecting outer paths, doubly winding inner paths
def snap(z, den=16):
    return complex(round(z.real * den) / den, round(z.imag * den) / den)


def small_poly(rng, cen, size):
    """small convex polygon (3-6 vertices, dyadic) of extent <= size around cen"""
    vs = gen_convex(rng, rng.randint(3, 6))
    xs = [v.real for v in vs]; ys = [v.imag for v in vs]
    ext = max(max(xs) - min(xs), max(ys) - min(ys))
    c0 = snap(complex((max(xs) + min(xs)) / 2, (max(ys) + min(ys)) / 2), 64)
    sc = 2.0 ** math.floor(math.log2(size / ext))
    cen = snap(cen, 64)
    out = [(v - c0) * sc + cen for v in vs]
    if rng.random() < 0.4:
        out = out[::-1]
    k0 = rng.randrange(len(out))
    return out[k0:] + out[:k0]


def gen_bowtie(rng):
    """bow-tie a -> b -> c -> d: two triangular lobes of opposite orientation (signed
    area 0, or small when skewed).  Returns (verts, lobe centres, gap centres)"""
    W, H = rng.choice([8, 16, 32, 64]), rng.choice([8, 16, 32])
    z0 = complex(dy(rng, -40, 40), dy(rng, -40, 40))
    sk = rng.choice([0, 0, 1 / 16, -1 / 8, 0.5])
    a, b, c, d = z0, z0 + complex(W, H + sk), z0 + complex(W, 0), z0 + complex(0, H)
    ctr = z0 + complex(W / 2, H / 2)
    lobes = [(ctr + b + c) / 3, (ctr + d + a) / 3]
    gaps = [z0 + complex(W / 2, 0.85 * H), z0 + complex(W / 2, 0.15 * H)]
    vs = [a, b, c, d]
    if rng.random() < 0.5:
        vs = vs[::-1]
    k0 = rng.randrange(4)
    return vs[k0:] + vs[:k0], lobes, gaps, min(W, H)


def gen_pentagram(rng):
    """{5/2} star: the core pentagon has winding number 2 (not enclosed by the
    even-odd rule), the five tips winding number 1"""
    R = rng.choice([16, 32, 64])
    z0 = complex(dy(rng, -40, 40), dy(rng, -40, 40))
    ph = rng.choice([90, 90, 18, 54, 0])
    ang = [math.radians(ph + 144 * k) for k in range(5)]
    vs = [z0 + snap(R * complex(math.cos(t), math.sin(t))) for t in ang]
    tips = [z0 + 0.72 * R * complex(math.cos(t), math.sin(t)) for t in ang]
    if rng.random() < 0.5:
        vs = vs[::-1]
    return vs, tips, [z0], R


def gen_spiral2(rng):
    """inner: polygonal spiral making two turns (winding number 2 around its
    centre), closed by one edge; outer: convex k-gon around it whose area is
    smaller than the spiral's signed area"""
    r1 = rng.choice([8, 16, 32])
    z0 = complex(dy(rng, -40, 40), dy(rng, -40, 40))
    ph = rng.uniform(0, 2 * math.pi)
    m = rng.choice([6, 8, 10])
    sgn = rng.choice([1, 1, -1])
    n = 2 * m
    inner = []
    for k in range(n):
        r = r1 * (0.8 + 0.2 * k / n)
        t = ph + sgn * 2 * math.pi * k / m
        inner.append(z0 + snap(r * complex(math.cos(t), math.sin(t))))
    kk = rng.choice([6, 8, 12])
    ro = 1.08 * r1 / math.cos(math.pi / kk)
    p2 = rng.uniform(0, 2 * math.pi)
    outer = [z0 + snap(ro * complex(math.cos(p2 + 2 * math.pi * j / kk), math.sin(p2 + 2 * math.pi * j / kk)))
             for j in range(kk)]
    if rng.random() < 0.4:
        outer = outer[::-1]
    k0 = rng.randrange(n)
    return inner[k0:] + inner[:k0], outer


def figure8_path(rng):
    """two cubic teardrop loops through one point, traversed in opposite
    senses (signed area 0 when symmetric).  Returns (path, lobe centres, gap
    centres, size)"""
    from svgpathtools import Path, CubicBezier
    s = rng.choice([1.0, 2.0, 8.0, 0.5])
    z0 = complex(dy(rng, -20, 20), dy(rng, -20, 20))
    f = rng.choice([1.0, 1.0, 0.75, 1.25])       # relative size of the left lobe
    A = CubicBezier(z0, z0 + s * (4 + 4j), z0 + s * (4 - 4j), z0)
    B = CubicBezier(z0, z0 + s * f * (-4 + 4j), z0 + s * f * (-4 - 4j), z0)
    path = Path(A, B) if rng.random() < 0.5 else Path(B, A)
    lobes = [z0 + s * 1.75, z0 - s * f * 1.75]
    gaps = [z0 + s * complex(2.8, 1.0), z0 + s * complex(-2.8 * f, -1.0 * f), z0 + s * complex(0.2, 0.9)]
    return path, lobes, gaps, s



# ---- scenes far from the origin, thin features
FAR_OFFSETS = [10000 + 0j, 40000 + 30000j, 65536 - 32768j, -100000 + 25000j, 131072 + 65536j,
               250000 + 250000j, -300000 + 700000j, 1000000 + 500000j, 12345 - 987654j]


def translate_exact(zs, O):
    """zs + O when every coordinate stays exactly representable, else None"""
    out = []
    for z in zs:
        w = z + O
        if Fr(w.real) != Fr(z.real) + Fr(O.real) or Fr(w.imag) != Fr(z.imag) + Fr(O.imag):
            return None
        out.append(w)
    return out


def gen_thin(rng):
    """polygon with thin features (thickness t = 2^-6 .. 1) and query probes that cross a thin part
    on both sides.  Returns (kind, verts, [(pt, opt)...], cavity point, wall point, t)"""
    t = rng.choice([1 / 64, 1 / 32, 1 / 16, 1 / 8, 0.25, 0.5, 1.0])
    W, H = rng.choice([4, 8, 16, 40]), rng.choice([4, 8, 16, 40])
    g = lambda lo, hi: round(rng.uniform(lo, hi) * 64) / 64
    kind = rng.choice(['uchannel', 'uchannel', 'sliver', 'frame-c'])
    if kind == 'uchannel':       # walls of thickness t on the left, bottom, right; open at the top
        vs = [0j, W + 0j, complex(W, H), complex(W - t, H), complex(W - t, t), complex(t, t), complex(t, H), complex(0, H)]
        cav = complex(g(2 * t + 0.5, W - 2 * t - 0.5), g(2 * t + 0.5, H - 0.5))
        wall = complex(g(0.5, W - 0.5), t / 2 + t / 8) if rng.random() < 0.5 else complex(t / 2 + t / 8, g(0.5, H - 0.5))
        q = [(cav, complex(-1, -1)),                                      # what is_contained_by would use
             (cav, complex(-g(0.5, 3), cav.imag + g(-1, 1))),             # through the left wall
             (cav, complex(W + g(0.5, 3), cav.imag + g(-1, 1))),          # through the right wall
             (cav, complex(cav.real + g(-1, 1), -g(0.5, 3))),             # through the bottom wall
             (wall, complex(-1, -1)), (wall, complex(W + g(0.5, 2), -g(0.5, 2))),
             (complex(W + g(0.5, 2), g(0.5, H - 0.5)), complex(-g(0.5, 2), g(0.5, H - 0.5)))]   # across both walls
    elif kind == 'sliver':       # thin slanted parallelogram
        sl = rng.choice([0, 0.25, 1, -0.5])
        vs = [0j, complex(W, sl * W), complex(W, sl * W + t), complex(0, t)]
        x = g(0.5, W - 0.5)
        cav = complex(x, sl * x + t + g(0.5, 2))                           # above the sliver
        wall = complex(x, sl * x + t / 2 + t / 8)
        q = [(cav, complex(x + g(-0.4, 0.4), sl * x - g(0.5, 2))),         # across the sliver
             (cav, complex(g(0.5, W - 0.5), min(0, sl * W) - 1 - g(0, 1))),
             (wall, complex(-1, min(0, sl * W) - 1)), (wall, complex(x + g(-0.4, 0.4), sl * x - g(0.5, 2)))]
    else:                        # square frame with a slit: a C-shaped wall of thickness t around a cavity
        s = rng.choice([0.25, 0.5, 1.0])
        vs = [0j, W + 0j, complex(W, H / 2 - s), complex(W - t, H / 2 - s), complex(W - t, t), complex(t, t),
              complex(t, H - t), complex(W - t, H - t), complex(W - t, H / 2 + s), complex(W, H / 2 + s),
              complex(W, H), complex(0, H)]
        cav = complex(g(2 * t + 0.5, W - 2 * t - 0.5), g(2 * t + 0.5, H - 2 * t - 0.5))
        wall = complex(t / 2 + t / 8, g(0.5, H - 0.5))
        q = [(cav, complex(-1, -1)), (cav, complex(-g(0.5, 3), cav.imag + g(-1, 1))),
             (cav, complex(cav.real + g(-1, 1), H + g(0.5, 3))), (cav, complex(cav.real + g(-1, 1), -g(0.5, 3))),
             (wall, complex(-1, -1)), (wall, complex(-g(0.5, 2), H + g(0.5, 2)))]
    # rotations by multiples of 90 degrees / reflection keep everything dyadic
    r = rng.choice([1, 1j, -1, -1j])
    fl = rng.random() < 0.3
    f = (lambda z: (z.conjugate() if fl else z) * r)
    vs = [f(v) for v in vs]
    if rng.random() < 0.5:
        vs = vs[::-1]
    k0 = rng.randrange(len(vs))
    vs = vs[k0:] + vs[:k0]
    return kind, vs, [(f(a), f(b)) for a, b in q], f(cav), f(wall), t



# ---- closed shapes with PARTIAL circular arcs whose rotation attribute is not 0
def arc_shape(rng):
    """circular segment ('D'), pie slice or stadium; the circular Arcs carry a rotation attribute
    (geometrically irrelevant for rx == ry) either directly or through Path.rotated().
    Returns (path, kind, truth) with truth(z) -> True/False/None (None: undecided / too close)"""
    import cmath
    from svgpathtools import Path, Line, Arc
    r = rng.choice([1.0, 1.0, 2.0, 0.5, 5.0, 16.0])
    c = complex(dy(rng, -20, 20), dy(rng, -20, 20))
    rot = rng.choice([30.0, 90.0, 45.0, -120.0, 180.0, 17.5, 270.0, rng.uniform(-180, 180), 0.0])
    th0 = rng.choice([-math.pi / 2, 0.0, rng.uniform(0, 2 * math.pi)])
    d = rng.choice([math.pi, math.pi, rng.uniform(0.35, 0.9) * math.pi, rng.uniform(1.1, 1.6) * math.pi])
    P = lambda t: c + r * complex(math.cos(t), math.sin(t))
    p0, p1, mid = P(th0), P(th0 + d), P(th0 + d / 2)
    kind = rng.choice(['dseg', 'dseg', 'pie', 'stadium'])
    if kind == 'dseg':
        path = Path(Arc(p0, complex(r, r), rot, d > math.pi * (1 + 1e-9), True, p1), Line(p1, p0))
        sm = orient((p0.real, p0.imag), (p1.real, p1.imag), (mid.real, mid.imag))

        def truth0(z):
            o = orient((p0.real, p0.imag), (p1.real, p1.imag), (z.real, z.imag))
            if abs(abs(z - c) - r) < 0.04 * r or abs(o) < 0.04 * r * abs(p1 - p0):
                return None
            return abs(z - c) < r and (o > 0) == (sm > 0)
    elif kind == 'pie':
        path = Path(Line(c, p0), Arc(p0, complex(r, r), rot, d > math.pi * (1 + 1e-9), True, p1), Line(p1, c))

        def truth0(z):
            a = (cmath.phase((z - c) / (p0 - c))) % (2 * math.pi)
            if abs(abs(z - c) - r) < 0.04 * r or abs(z - c) < 0.06 * r or \
               min(a, 2 * math.pi - a) < 0.06 or abs(a - d) < 0.06:
                return None
            return abs(z - c) < r and a < d
    else:
        L = r * rng.choice([1.0, 2.0, 3.0])
        u = complex(math.cos(th0), math.sin(th0)); n_ = u * 1j
        a0, b0, b1, a1 = c - r * n_, c + L * u - r * n_, c + L * u + r * n_, c + r * n_
        path = Path(Line(a0, b0), Arc(b0, complex(r, r), rot, False, True, b1), Line(b1, a1),
                    Arc(a1, complex(r, r), rot, False, True, a0))
        truth0 = lambda z: None
    how = 'direct'
    truth = truth0
    if rng.random() < 0.45:
        deg = rng.choice([40.0, -120.0, 90.0, 30.0, rng.uniform(-180, 180)])
        o = c if rng.random() < 0.5 else complex(dy(rng, -5, 5), dy(rng, -5, 5))
        path = path.rotated(deg, origin=o)
        w = complex(math.cos(math.radians(deg)), math.sin(math.radians(deg)))
        truth = lambda z: truth0((z - o) / w + o)
        how = 'rotated'
    if rng.random() < 0.3:
        path = path.reversed()
    rots = [s_.rotation for s_ in path if isinstance(s_, Arc)]
    return path, '%s-%s' % (kind, how), truth, max(abs(x) % 360 for x in rots) != 0


# ------------------------------------------------------------ serialisation
def seg_json(s):
    from svgpathtools import Arc
    if isinstance(s, Arc):
        return ['A', common.chex(s.start), common.chex(s.radius), common.fhex(s.rotation),
                bool(s.large_arc), bool(s.sweep), common.chex(s.end)]
    return ['B', [common.chex(p) for p in s.bpoints()]]


def path_json(p):
    return [seg_json(s) for s in p]


def path_from_json(js):
    from svgpathtools import Path, Arc
    from svgpathtools.path import bpoints2bezier
    hx = lambda ab: complex(float.fromhex(ab[0]), float.fromhex(ab[1]))
    segs = []
    for s in js:
        if s[0] == 'A':
            segs.append(Arc(hx(s[1]), hx(s[2]), float.fromhex(s[3]), s[4], s[5], hx(s[6])))
        else:
            segs.append(bpoints2bezier([hx(p) for p in s[1]]))
    return Path(*segs)


def coq_bseg(s):
    nm = {2: 'BLine', 3: 'BQuad', 4: 'BCubic'}[len(s.bpoints())]
    return '(%s %s)' % (nm, ' '.join(cq(p) for p in s.bpoints()))


# ------------------------------------------------------------ Coq side
OKDEF_AREA = r'''
From SVP Require Import Model.Bezier Model.Area.
Definition N := NumQ.
Definition u53 : Qc := two_pow_neg 53.
Inductive cseg := CB (b : bseg Qc) | CA (tbl : list (Qc * Cplx Qc)) (n : nat) (len chord : Qc).
(* the arc's point function, as observed on the implementation at the linspace parameters *)
Definition tbl_point (tbl : list (Qc * Cplx Qc)) (t : Qc) : Cplx Qc :=
  match find (fun kv => Qc_eq_bool (fst kv) t) tbl with Some kv => snd kv | None => (Q2Qc 0, Q2Qc 0) end.
Definition to_aseg (c : cseg) : aseg Qc :=
  match c with CB b => SB b | CA tbl n _ _ => SA (tbl_point tbl) n end.
Definition ctrl (s : bseg Qc) : list (Cplx Qc) :=
  match s with BLine a b => [a; b] | BQuad a c b => [a; c; b] | BCubic a c1 c2 b => [a; c1; c2; b] end.
Definition sabs (f : Cplx Qc -> Qc) (l : list (Cplx Qc)) : Qc := fold_left (fun a z => (a + qabs (f z))%Qc) l (Q2Qc 0).
Definition tol_of (p : list (bseg Qc)) : Qc :=
  (Q2Qc 4096 * u53 * fold_left (fun a s => (a + sabs fst (ctrl s) * sabs snd (ctrl s))%Qc) p (Q2Qc 0))%Qc.
Definition only_bez (p : list cseg) : option (list (bseg Qc)) :=
  fold_right (fun c acc => match c, acc with CB b, Some l => Some (b :: l) | _, _ => None end) (Some []) p.
(* n = int(ceil(len/chord)), with one part in 2^40 of slack for the rounding of len/chord *)
Definition nl_ok (c : cseg) : bool :=
  match c with
  | CB _ => true
  | CA _ n len chord =>
      let q := (len / chord)%Qc in let sl := (q * two_pow_neg 40)%Qc in
      Qc_ltb (lit N (Z.of_nat n - 1) - sl)%Qc q && qle (q - sl)%Qc (lit N (Z.of_nat n))
  end.
(* case: (path, exact?, area(), reversed().area(), (m11,m12,m21,m22,w), transform(M,w).area()) *)
Definition casety : Type :=
  (list cseg * bool * Qc * option Qc * option ((Qc * Qc * Qc * Qc * Cplx Qc) * Qc * bool))%type.
Definition ok (c : casety) : nat :=
  let '(p, exact, o_area, o_rev, o_tf) := c in
  let ap := approx N (map to_aseg p) in
  let m_area := area N (map to_aseg p) in
  let tol := if exact then Q2Qc 0 else tol_of ap in
  first_fail
   [ (qclose tol o_area m_area, 1);                   (* area() is the model's value *)
     (forallb nl_ok p, 2);                            (* number of chords of every arc *)
     (match only_bez p with Some b => isclosedb N b | None => true end, 3);
     (match o_rev, only_bez p with
      | Some r, Some b => qclose tol r (area_without_arcs N (path_rev b)) | _, _ => true end, 4);
     (match o_rev with Some r => qclose (tol + tol)%Qc r (- m_area)%Qc | None => true end, 5);
     (match o_tf, only_bez p with
      | Some (m11, m12, m21, m22, w, r, ex), Some b =>
          let q := path_map (affine N m11 m12 m21 m22 w) b in
          qclose (if ex then Q2Qc 0 else tol_of q) r (area_without_arcs N q)
      | _, _ => true end, 6);
     (match o_tf, only_bez p with
      | Some (m11, m12, m21, m22, w, r, ex), Some b =>
          let q := path_map (affine N m11 m12 m21 m22 w) b in
          qclose (if ex then Q2Qc 0 else (tol_of q + qabs (det2 N m11 m12 m21 m22) * tol)%Qc)
                 r (det2 N m11 m12 m21 m22 * m_area)%Qc
      | _, _ => true end, 7)
   ].
'''
AREA_OBS = {1: 'area() vs the model (Green integral x dy per segment, arcs by chords)',
            2: 'number of chords of an arc is ceil(length/chord_length)',
            3: 'the path asserted closed by area() is closed in the model',
            4: 'reversed().area() vs the model of the reversed path',
            5: 'reversed().area() = -area()',
            6: 'transform(M,w).area() vs the model of the mapped control points',
            7: 'transform(M,w).area() = det(M) * area()'}

OKDEF_ENC = r'''
From SVP Require Import Model.Bezier Model.Area.
Definition N := NumQ.
Definition gpb (atol : Qc) (pt opt : Cplx Qc) (e : Cplx Qc * Cplx Qc) : bool :=
  let a := fst e in let b := snd e in
  let nz x := negb (Qc_eq_bool x (Q2Qc 0)) in
  nz (orient N pt opt a) && nz (orient N pt opt b) && nz (orient N a b pt) && nz (orient N a b opt)
  && (Qc_eq_bool (ll_denom N pt opt a b) (Q2Qc 0) || Qc_ltb atol (qabs (ll_denom N pt opt a b))).
(* case: (edges, pt, opt, atol, tol^2, path_encloses_pt, harness claims the hypotheses of C14_encloses_parity) *)
Definition casety : Type := (list (Cplx Qc * Cplx Qc) * Cplx Qc * Cplx Qc * Qc * Qc * bool * bool)%type.
Definition ok (c : casety) : nat :=
  let '(edges, pt, opt, atol, tol2, obs, gp) := c in
  first_fail
   [ (Bool.eqb obs (encloses_polygon N atol tol2 pt opt edges), 1);   (* the model of the code *)
     (negb gp || forallb (gpb atol pt opt) edges, 2);                 (* generator's general-position claim *)
     (negb gp || Bool.eqb (encloses_polygon N atol tol2 pt opt edges) (even_odd N pt opt edges), 3);
                                                                      (* instance of C14_encloses_parity *)
     (negb gp || Bool.eqb obs (even_odd N pt opt edges), 4)           (* the property on the implementation *)
   ].
'''
ENC_OBS = {1: 'path_encloses_pt vs the model (parity of Line.intersect hits after the redundancy filter)',
           2: 'harness: general-position claim rejected by Coq',
           3: 'model vs even-odd rule on a general-position case (contradicts C14_encloses_parity)',
           4: 'path_encloses_pt vs exact even-odd rule'}

OKDEF_CON = r'''
From SVP Require Import Model.Bezier Model.Area.
Definition N := NumQ.
Definition qeq4 (a b : Qc * Qc * Qc * Qc) : bool :=
  let '(a1, a2, a3, a4) := a in let '(b1, b2, b3, b4) := b in
  Qc_eq_bool a1 b1 && Qc_eq_bool a2 b2 && Qc_eq_bool a3 b3 && Qc_eq_bool a4 b4.
(* case: (outer edges, inner.point(0), atol, tol^2, bool(inner.intersect(outer, justonemode)), outer.bbox(), result) *)
Definition casety : Type :=
  (list (Cplx Qc * Cplx Qc) * Cplx Qc * Qc * Qc * bool * (Qc * Qc * Qc * Qc) * bool)%type.
Definition ok (c : casety) : nat :=
  let '(edges, pt, atol, tol2, inter, bb, obs) := c in
  first_fail
   [ (qeq4 bb (edges_bbox N edges), 1);
     (Bool.eqb obs (is_contained_by N inter (edges_bbox N edges) pt
                      (fun a b => encloses_polygon N atol tol2 a b edges)), 2) ].
'''
CON_OBS = {1: 'outer.bbox() vs the model', 2: 'is_contained_by vs the model (intersect-any given as observed)'}


OKDEF_CON2 = r'''
From SVP Require Import Model.Bezier Model.Area.
Definition N := NumQ.
(* outer path not a polygon: its bbox and the answer of path_encloses_pt are observations
   (None = is_contained_by returned without asking).  The decision structure is the model's. *)
(* case: (outer.bbox(), inner.point(0), bool(inner.intersect(outer, justonemode)), path_encloses_pt answer, result) *)
Definition casety : Type := ((Qc * Qc * Qc * Qc) * Cplx Qc * bool * option bool * bool)%type.
Definition ok (c : casety) : nat :=
  let '(bb, pt, inter, encl, obs) := c in
  first_fail
   [ (match encl with
      | Some e => Bool.eqb obs (is_contained_by N inter bb pt (fun _ _ => e))
      | None => Bool.eqb obs (is_contained_by N inter bb pt (fun _ _ => true))
                && Bool.eqb obs (is_contained_by N inter bb pt (fun _ _ => false))
      end, 1);
     (match encl with          (* the enclosure test is consulted exactly when the model consults it *)
      | Some _ => negb inter && in_bbox N bb pt
      | None => inter || negb (in_bbox N bb pt)
      end, 2) ].
'''
CON2_OBS = {1: 'is_contained_by vs the model decision (intersect-any, bbox and enclosure answer as observed)',
            2: 'is_contained_by consults path_encloses_pt exactly when no intersection was found and the start is in the bbox'}


def coq_cseg(s, chord):
    """Coq term for a segment; arcs carry the implementation's point() values
    at np.linspace(0,1,n+1) and n = int(ceil(length/chord))"""
    from svgpathtools import Arc
    import numpy as np
    if not isinstance(s, Arc):
        return '(CB %s)' % coq_bseg(s)
    ln = s.length()
    n = int(math.ceil(ln / chord))
    ts = np.linspace(0, 1, n + 1)
    rows = ['(%s, %s)' % (qc(Fr(i, n)), cq(s.point(t))) for i, t in enumerate(ts)]
    return '(CA %s %d %s %s)' % (coq_list(rows), n, qc(ln), qc(chord))


# ------------------------------------------------------------ enclosure references
def probe_analysis(pt, opt, edges):
    """exact analysis of the probe [pt,opt] against polygon edges (all in Fr
    pairs).  Returns None when not in (robust) general position, else a dict:
    count (proper crossings), missed (crossings with 0<|denom|<=atol that the
    code's np.isclose test discards), theorem_gp (hypotheses of
    C14_encloses_parity hold)."""
    atol = Fr(ATOL)
    M = sum(abs(v) for p in (pt, opt) for v in p)
    count, missed, hits = 0, 0, []
    theorem_gp = True
    for a, b in edges:
        r0, r1 = orient(pt, opt, a), orient(pt, opt, b)
        o0, o1 = orient(a, b, pt), orient(a, b, opt)
        if 0 in (r0, r1, o0, o1):
            return None
        D = o1 - o0
        Me = M + sum(abs(v) for p in (a, b) for v in p)
        # local extent: the code's numerators are (coordinate) x (difference), its denominator
        # (difference) x (difference); differences of the inputs are what carries rounding
        Le = sum(abs(p[k] - pt[k]) for p in (opt, a, b) for k in (0, 1))
        if D != 0:
            if abs(abs(D) - atol) <= Fr(1, 2 ** 40) * Le * Le + atol / 1000:
                return None                       # the float denom may fall on either side of atol
            t1 = o0 / (o0 - o1)
            t2 = r0 / (r0 - r1)
            err = 200 * Fr(1, 2 ** 50) * Me * Le / abs(D)
            inside = [(0 < t < 1) for t in (t1, t2)]
            if any(min(abs(t), abs(1 - t)) <= err + Fr(1, 10 ** 9) for t in (t1, t2)) and \
               all(-err - Fr(1, 10 ** 9) <= t <= 1 + err + Fr(1, 10 ** 9) for t in (t1, t2)):
                return None                       # too close to an end point for binary64
            if all(inside):
                count += 1
                if abs(D) <= atol:
                    missed += 1
                    theorem_gp = False
                else:
                    hits.append((pt[0] + t1 * (opt[0] - pt[0]), pt[1] + t1 * (opt[1] - pt[1])))
            elif abs(D) <= atol:
                theorem_gp = False
    for i in range(len(hits)):
        for j in range(i + 1, len(hits)):
            d2 = (hits[i][0] - hits[j][0]) ** 2 + (hits[i][1] - hits[j][1]) ** 2
            if d2 <= Fr(1, 10 ** 16):
                return None                       # two crossings closer than 1e-8: redundancy filter territory
    gap = None                                    # smallest distance between two crossings on the probe
    for i in range(len(hits)):
        for j in range(i + 1, len(hits)):
            d = math.sqrt(float((hits[i][0] - hits[j][0]) ** 2 + (hits[i][1] - hits[j][1]) ** 2))
            gap = d if gap is None else min(gap, d)
    return {'count': count, 'missed': missed, 'theorem_gp': theorem_gp, 'gap': gap}


def ray_cast_inside(pt, verts):
    """independent exact point-in-polygon (horizontal ray to +x, even-odd);
    None if the ray passes through a vertex or pt is on an edge"""
    n = len(verts)
    c = 0
    for i in range(n):
        a, b = verts[i], verts[(i + 1) % n]
        if a[1] == pt[1] or b[1] == pt[1]:
            return None
        if (a[1] > pt[1]) != (b[1] > pt[1]):
            x = a[0] + (pt[1] - a[1]) * (b[0] - a[0]) / (b[1] - a[1])
            if x == pt[0]:
                return None
            if x > pt[0]:
                c += 1
    return c % 2 == 1


def pair_crossing(e1, e2):
    """exact: do two polygons (edge lists) cross?  Returns (crosses, missed_by_isclose)
    or None when some pair of edges touches / is too close to call in binary64"""
    atol = Fr(ATOL)
    crosses, missed = False, False
    for a, b in e1:
        for c, d in e2:
            if max(a[0], b[0]) < min(c[0], d[0]) or max(c[0], d[0]) < min(a[0], b[0]) or \
               max(a[1], b[1]) < min(c[1], d[1]) or max(c[1], d[1]) < min(a[1], b[1]):
                continue
            o1, o2, o3, o4 = orient(a, b, c), orient(a, b, d), orient(c, d, a), orient(c, d, b)
            if 0 in (o1, o2, o3, o4):
                if segs_intersect_closed(a, b, c, d):
                    return None
                continue
            D = o4 - o3
            if D == 0:
                continue
            t1, t2 = o3 / (o3 - o4), o1 / (o1 - o2)
            eps = Fr(1, 10 ** 9)
            if any(min(abs(t), abs(1 - t)) <= eps for t in (t1, t2)) and all(-eps <= t <= 1 + eps for t in (t1, t2)):
                return None
            if 0 < t1 < 1 and 0 < t2 < 1:
                Me = sum(abs(p[k] - a[k]) for p in (b, c, d) for k in (0, 1))
                if abs(abs(D) - atol) <= Fr(1, 2 ** 40) * Me * Me + atol / 1000:
                    return None
                if abs(D) <= atol:
                    missed = True
                else:
                    crosses = True
    return crosses, missed


def edges_of(path):
    return [(fz(s.start), fz(s.end)) for s in path]


def coq_edges(path):
    return coq_list(['(%s, %s)' % (cq(s.start), cq(s.end)) for s in path])


# ------------------------------------------------------------ numeric winding (Bezier / arc paths)
def sample_path(path, per=400):
    pts = []
    for s in path:
        for k in range(per):
            pts.append(s.point(k / per))
    return pts


def probe_crossings_sampled(path, pt, opt, per=2000, cache=None):
    """crossing count of the probe with a curved path from dense samples, with
    a general-position verdict: no near-tangency, no crossing near a joint or
    near the probe's ends.  Returns (gp_ok, count)."""
    d = opt - pt
    L = abs(d)
    nrm = complex(-d.imag, d.real) / L
    count = 0
    scale = max(max(abs(s.point(t) - pt) for s in path for t in (0, .25, .5, .75, 1)), L)
    for s in path:
        prev = None
        vals = []
        if cache is not None:
            key_ = (id(s), per)
            if key_ not in cache:
                cache[key_] = [s.point(k / per) for k in range(per + 1)]
            zs_ = cache[key_]
        else:
            zs_ = None
        for k in range(per + 1):
            z = zs_[k] if zs_ is not None else s.point(k / per)
            w = z - pt
            dist = (w.real * nrm.real + w.imag * nrm.imag)
            along = (w.real * d.real + w.imag * d.imag) / (L * L)
            vals.append((dist, along))
        for k in range(per + 1):
            dist, along = vals[k]
            if abs(dist) < 1e-7 * scale and -0.01 <= along <= 1.01:
                return False, None                 # sample (nearly) on the probe's line: joint / tangency / end point
        for k in range(per):
            (d0, a0), (d1, a1) = vals[k], vals[k + 1]
            if (d0 > 0) != (d1 > 0):
                lam = d0 / (d0 - d1)
                a = a0 + lam * (a1 - a0)
                if min(abs(a), abs(1 - a)) < 1e-3:
                    return False, None
                if 0 < a < 1:
                    if k < 2 or k > per - 3:
                        return False, None         # crossing next to a joint
                    if abs(d1 - d0) < 1e-6 * scale / per:
                        return False, None
                    count += 1
            # near-tangency: local minimum of |dist| without sign change
        for k in range(1, per):
            d0, d1, d2 = abs(vals[k - 1][0]), abs(vals[k][0]), abs(vals[k + 1][0])
            if d1 <= d0 and d1 <= d2 and d1 < 2e-3 * scale and -0.01 <= vals[k][1] <= 1.01 and \
               (vals[k - 1][0] > 0) == (vals[k + 1][0] > 0):
                return False, None
    return True, count


# ------------------------------------------------------------ the run
def run(rep, tier, seed, replay=None):
    warnings.simplefilter('ignore')
    import numpy as np
    from svgpathtools import Path, Line, QuadraticBezier, CubicBezier, Arc
    from svgpathtools.path import path_encloses_pt, transform
    rng = common.mkrng(seed, 'C14')
    quick = (tier == 'quick')
    with common.Scratch() as tmp:
        info = common.std_static(rep, 'C14', GEN_GROUPS, AGREE, tmp)
        boost = 1
        if info['agree_failed'] or (set(info['untranslated']) - KNOWN_UNTRANSLATED):
            boost = 4       # the code the model mirrors changed: search harder
        n_shapes = (100 if quick else 2000) * boost
        n_enc = (400 if quick else 10000) * boost
        n_con = (150 if quick else 3500) * boost
        n_arc = (16 if quick else 300) * boost
        dist = {}
        evals = 0
        nontrivial = set()
        samples = []

        by_key = {}

        def viol(what, rp, key):
            # at most two replays per failure class, so that the (capped) report shows every class
            by_key[key] = by_key.get(key, 0) + 1
            if by_key[key] > 2:
                return
            rp = dict(rp); rp['how'] = './check C14 --replay <this file>'; rp['key'] = key
            rep.violation('C14: ' + what, rp, key=key)

        # ============================== A. area ==============================
        area_cases, area_meta = [], []

        def area_checks(path, kind, ccw, tfspec, chord=None, forced=None):
            """implementation-level property on one closed path + its Coq case"""
            nonlocal evals
            has_arc = any(isinstance(s, Arc) for s in path)
            pj = path_json(path)
            base = {'kind': 'area', 'shape': kind, 'path': pj, 'chord': common.fhex(chord) if chord else None}
            kw = {'chord_length': chord} if chord else {}
            try:
                A = float(path.area(**kw))
            except Exception as e:
                viol('area() raised %s on a closed path' % type(e).__name__, dict(base, error=repr(e)), 'area-exception')
                return
            evals += 1
            exact = (not has_arc) and is_small_dyadic(path) and all(isinstance(s, Line) for s in path)
            o_rev, o_tf = None, None
            if not has_arc:
                ref = exact_area(path)
                tol = Fr(0) if exact else area_tol(path)
                if abs(Fr(A) - ref) > tol:
                    viol('area() differs from the exact Green integral (%r vs %s)' % (A, float(ref)),
                         dict(base, observed=A, expected=str(ref)), 'area-value')
                if all(isinstance(s, Line) for s in path):
                    sh = shoelace([fz(s.start) for s in path])
                    assert sh == ref, 'harness: shoelace vs Green reference'
                if ccw is not None and ref != 0 and ((ref > 0) != ccw):
                    raise AssertionError('harness: orientation of generated shape')
                nontrivial.add(('area', kind, len(path), str(ref)))
            else:
                ref = None
                tol = area_tol(Path(*[Line(s.point(0), s.point(1)) if isinstance(s, Arc) else s for s in path]), 1 << 20)
            if ccw is not None and not ((A > 0) == ccw):
                viol('area() has the wrong sign for a %s path (%r)' % ('counter-clockwise' if ccw else 'clockwise', A),
                     dict(base, observed=A, ccw=ccw), 'area-sign')
            # reversed
            try:
                Ar = float(path.reversed().area(**kw)); evals += 1
                if not has_arc:
                    o_rev = Ar
                    bad = abs(Fr(Ar) + Fr(A)) > 2 * tol
                else:
                    bad = abs(Ar + A) > 1e-9 * abs(A) + float(tol)
                if bad:
                    viol('reversed().area() is not -area() (%r vs %r)' % (Ar, A), dict(base, observed=[A, Ar]), 'area-reversed')
            except Exception as e:
                viol('reversed().area() raised %s' % type(e).__name__, dict(base, error=repr(e)), 'area-reversed-exception')
            # translation
            forced = forced or {}
            z0 = complex(dy(rng, -50, 50), dy(rng, -50, 50))
            if 'z0' in forced:
                z0 = complex(float.fromhex(forced['z0'][0]), float.fromhex(forced['z0'][1]))
            try:
                pt_ = path.translated(z0)
                At = float(pt_.area(**kw)); evals += 1
                if not has_arc:
                    bad = abs(Fr(At) - Fr(A)) > tol + (Fr(0) if exact and is_small_dyadic(pt_) else area_tol(pt_))
                else:
                    bad = abs(At - A) > 1e-9 * abs(A) + 1e-12 * (abs(z0) + 1) * (abs(z0) + 1 + math.sqrt(abs(A)))
                if bad:
                    viol('area() is not translation invariant (%r vs %r, z0=%r)' % (At, A, z0),
                         dict(base, observed=[A, At], z0=common.chex(z0)), 'area-translate')
            except Exception as e:
                viol('translated().area() raised %s' % type(e).__name__, dict(base, error=repr(e), z0=common.chex(z0)),
                     'area-translate-exception')
            # scaling by scaled(sx, sy)
            sx = rng.choice([2.0, 0.5, 3.0, -1.0, 1.5, -2.0, 0.3, 1.7, 1 / 3])
            sy = sx if has_arc else rng.choice([sx, 1.0, -1.0, 0.25, 4.0, 2.5, 0.7])
            if 'sx' in forced:
                sx, sy = forced['sx'], forced.get('sy', forced['sx'])
            try:
                ps = path.scaled(sx, sy) if sy != sx else path.scaled(sx)
                As = float(ps.area(**({'chord_length': chord * abs(sx)} if chord else {}))); evals += 1
                if not has_arc:
                    bad = abs(Fr(As) - Fr(sx) * Fr(sy) * Fr(A)) > abs(Fr(sx * sy)) * tol + area_tol(ps)
                else:
                    bad = abs(As - sx * sy * A) > 1e-9 * abs(sx * sy * A)
                if bad:
                    viol('scaled(%r,%r).area() is not sx*sy*area() (%r vs %r)' % (sx, sy, As, sx * sy * A),
                         dict(base, observed=[A, As], sx=sx, sy=sy), 'area-scaled')
            except AssertionError as e:
                viol('scaled(%r,%r) of a closed path is no longer closed: area() asserts' % (sx, sy),
                     dict(base, sx=sx, sy=sy, error=repr(e)), 'scaled-unclosed')
            except Exception as e:
                viol('scaled().area() raised %s' % type(e).__name__, dict(base, error=repr(e), sx=sx, sy=sy),
                     'area-scaled-exception')
            # rotation by multiples of 90 degrees and by the 3-4-5 angle
            degs = forced.get('degs', rng.choice([90, 180, 270, math.degrees(math.atan2(4, 3)), -90]))
            try:
                pr = path.rotated(degs, origin=complex(dy(rng, -5, 5), dy(rng, -5, 5)))
                Ar_ = float(pr.area(**kw)); evals += 1
                if not has_arc:
                    bad = abs(Fr(Ar_) - Fr(A)) > tol + 16 * area_tol(pr)
                else:
                    bad = abs(Ar_ - A) > 1e-9 * abs(A)
                if bad:
                    viol('area() changes under rotated(%r) (%r vs %r)' % (degs, Ar_, A),
                         dict(base, observed=[A, Ar_], degs=degs), 'area-rotated')
            except Exception as e:
                viol('rotated().area() raised %s' % type(e).__name__, dict(base, error=repr(e), degs=degs),
                     'area-rotated-exception')
            # general affine map with exact dyadic entries through transform()
            if not has_arc:
                m11, m12, m21, m22, w = tfspec
                tf = np.array([[m11, m12, w.real], [m21, m22, w.imag], [0.0, 0.0, 1.0]])
                det = Fr(m11) * Fr(m22) - Fr(m12) * Fr(m21)
                try:
                    pa = transform(path, tf)
                    Aa = float(pa.area()); evals += 1
                    ex_tf = exact and is_small_dyadic(pa)
                    o_tf = (tfspec, Aa, ex_tf)
                    if abs(Fr(Aa) - det * Fr(A)) > abs(det) * tol + (Fr(0) if ex_tf else area_tol(pa)):
                        viol('transform(M).area() is not det(M)*area() (%r vs %r)' % (Aa, float(det) * A),
                             dict(base, observed=[A, Aa], tf=[m11, m12, m21, m22, common.chex(w)]), 'area-affine')
                except Exception as e:
                    viol('transform().area() raised %s' % type(e).__name__,
                         dict(base, error=repr(e), tf=[m11, m12, m21, m22, common.chex(w)]), 'area-affine-exception')
            # Coq case
            ch = chord if chord else 1e-4
            term = '(%s, %s, %s, %s, %s)' % (
                coq_list([coq_cseg(s, ch) for s in path]), coq_bool(exact), qc(A),
                ('(Some %s)' % qc(o_rev)) if o_rev is not None else 'None',
                ('(Some (%s, %s, %s, %s, %s, %s, %s))' % (qc(o_tf[0][0]), qc(o_tf[0][1]), qc(o_tf[0][2]), qc(o_tf[0][3]),
                                                           cq(o_tf[0][4]), qc(o_tf[1]), coq_bool(o_tf[2])))
                if o_tf is not None else 'None')
            area_cases.append(term)
            area_meta.append(dict(base, observed=A))
            dist[kind] = dist.get(kind, 0) + 1
            if len(samples) < 3:
                samples.append({'shape': kind, 'segments': len(path), 'area': A})
            return A

        def rnd_tf():
            M = rng.choice([(0.75, -1.0, 1.0, 0.75),       # 5/4 * rotation by the 3-4-5 angle (dyadic entries)
                            (0.0, -1.0, 1.0, 0.0), (-1.0, 0.0, 0.0, -1.0), (1.0, 0.0, 0.0, -1.0),
                            (2.0, 0.5, -0.25, 1.5), (1.0, 2.0, 0.0, 1.0), (0.5, 0.0, 0.0, 4.0),
                            (3.0, 1.0, 0.0, 2.0), (-0.75, 1.0, 1.0, 0.75), (1.0, 1.0, 1.0, 1.0)])
            return M + (complex(dy(rng, -20, 20), dy(rng, -20, 20)),)

        polys = []      # (kind, verts, ccw) kept for the enclosure / containment parts
        if replay:
            r = json.load(open(replay))['replay']
            if r.get('kind') == 'area':
                p = path_from_json(r['path'])
                tfs = rnd_tf()
                if 'tf' in r:
                    tfs = tuple(r['tf'][:4]) + (complex(float.fromhex(r['tf'][4][0]), float.fromhex(r['tf'][4][1])),)
                area_checks(p, r.get('shape', 'replay'), r.get('ccw'), tfs,
                            float.fromhex(r['chord']) if r.get('chord') else None, forced=r)
            n_shapes = n_arc = 0
        for i in range(n_shapes):
            k = rng.choice(['convex', 'convex', 'star', 'star', 'selfx', 'rounded', 'rounded', 'bezier', 'bezier', 'tiny', 'huge',
                            'floaty'])
            n = rng.randint(3, 12)
            if k == 'convex':
                vs = gen_convex(rng, n); ccw = True
                if rng.random() < 0.4: vs = vs[::-1]; ccw = False
                polys.append((k, vs, ccw)); path = poly_path(vs)
            elif k == 'star':
                vs = gen_star(rng, n); ccw = True
                if rng.random() < 0.4: vs = vs[::-1]; ccw = False
                polys.append((k, vs, ccw)); path = poly_path(vs)
            elif k == 'selfx':
                vs = gen_selfx(rng, n); ccw = None
                polys.append((k, vs, ccw)); path = poly_path(vs)
            elif k == 'rounded':
                vs = gen_convex(rng, n); path = rounded_bezier(rng, vs); ccw = True
                if rng.random() < 0.4: path = path.reversed(); ccw = False
            elif k == 'bezier':
                path = random_bezier_path(rng, rng.randint(2, 8)); ccw = None
            elif k == 'floaty':     # same shapes, coordinates that are not dyadic-friendly
                z0 = complex(rng.uniform(-3, 3), rng.uniform(-3, 3)); f = rng.uniform(0.3, 3)
                if rng.random() < 0.5:
                    vs = [v * f + z0 for v in gen_star(rng, n)]; ccw = True; path = poly_path(vs)
                else:
                    path = rounded_bezier(rng, [v * f + z0 for v in gen_convex(rng, n)]); ccw = True
            elif k == 'tiny':
                vs = [v / 2 ** 20 for v in gen_convex(rng, n)]; ccw = True; path = poly_path(vs)
            else:
                vs = [v * 2 ** 12 for v in gen_star(rng, n)]; ccw = True; path = poly_path(vs)
            area_checks(path, k, ccw, rnd_tf())
        # ---- circles / ellipses from two arcs
        for i in range(n_arc):
            path, meta = ellipse_path(rng)
            a, b = meta['a'], meta['b']
            chord = max(rng.choice([0.5, 0.25, 0.1]) * min(a, b), (a + b) / 60)
            if i % 7 == 3:
                path = path.reversed(); ccw = False
            else:
                ccw = True
            A = area_checks(path, 'ellipse', ccw, None, chord=chord)
            if A is None:
                continue
            # within the chord-length approximation: inscribed polygon with equal steps of the eccentric angle
            ns = [int(math.ceil(s.length() / chord)) for s in path]
            dl = meta['deltas'] if ccw else meta['deltas'][::-1]
            inscribed = 0.5 * a * b * sum(n * math.sin(d / n) for n, d in zip(ns, dl))
            bound = math.pi * a * b * max((d / n) ** 2 for n, d in zip(ns, dl)) / 6 * 1.01
            evals += 1
            sgn = 1 if ccw else -1
            if abs(sgn * A - inscribed) > 1e-9 * inscribed or abs(sgn * A - math.pi * a * b) > bound + 1e-9 * inscribed:
                viol('area() of an ellipse from two arcs is outside the chord approximation bound '
                     '(%r; pi*a*b=%r, inscribed polygon=%r)' % (A, math.pi * a * b, inscribed),
                     {'kind': 'area', 'shape': 'ellipse', 'path': path_json(path), 'chord': common.fhex(chord),
                      'observed': A, 'pi_ab': math.pi * a * b, 'inscribed': inscribed}, 'area-arc')
            nontrivial.add(('ellipse', a, b, meta['phi'], chord))
        if not replay and not quick:
            # the default chord length (1e-4) once, on a small circle
            c = Path(Arc(0.25 + 0j, 0.25 + 0.25j, 0, False, True, -0.25 + 0j), Arc(-0.25 + 0j, 0.25 + 0.25j, 0, False, True, 0.25 + 0j))
            A = float(c.area()); evals += 1
            if abs(A - math.pi / 16) > math.pi / 16 * 1e-6:
                viol('area() of a circle with the default chord length', {'kind': 'area', 'path': path_json(c), 'observed': A}, 'area-arc')

        # ---- history stream: ONE path object queried repeatedly (different chord_length, after in-place edits);
        #      every answer must be the answer of a fresh path with the same segments and the same chord_length
        def fresh(p_):
            return path_from_json(path_json(p_))

        def hist_query(p_, chord, base, step, tie=False):
            nonlocal evals
            kw = {'chord_length': chord} if chord is not None else {}
            try:
                a_obj = float(p_.area(**kw)); a_new = float(fresh(p_).area(**kw)); evals += 1
            except Exception as e:
                viol('area() raised %s in a query history' % type(e).__name__, dict(base, error=repr(e), step=step),
                     'area-history-exception')
                return None
            if a_obj != a_new:
                viol('area(%s) after %s returns %r on the queried object but %r on a fresh path with the same segments'
                     % ('chord_length=%r' % chord if chord is not None else '', step, a_obj, a_new),
                     dict(base, path=path_json(p_), chord=common.fhex(chord) if chord else None, step=step,
                          observed=[a_obj, a_new]), 'area-history')
            if tie:      # the Coq model sees the answer given in the middle of the history
                area_cases.append('(%s, false, %s, None, None)' % (
                    coq_list([coq_cseg(s_, chord if chord else 1e-4) for s_ in p_]), qc(a_obj)))
                area_meta.append(dict(base, path=path_json(p_), chord=common.fhex(chord) if chord else None,
                                      step=step, observed=a_obj))
            return a_obj

        n_hist = 0 if replay else (12 if quick else 200) * boost
        for i in range(n_hist):
            if i % 3 != 2:
                if i % 2:
                    p_, meta = ellipse_path(rng); sz = min(meta['a'], meta['b']); big = meta['a'] + meta['b']
                else:
                    p_, k_, _, _ = arc_shape(rng)
                    bb_ = p_.bbox(); big = (bb_[1] - bb_[0]) + (bb_[3] - bb_[2]); sz = big / 4
                rough = max(0.5 * sz, big / 40); fine = max(rough / 8, big / 300)
                order = rng.choice([(rough, fine), (fine, rough), (rough, fine, rough), (fine, rough, fine)])
                base = {'kind': 'area-history', 'shape': 'arcs', 'chords': [common.fhex(c_) for c_ in order]}
                for j, c_ in enumerate(order):
                    hist_query(p_, c_, base, 'query %d of chord lengths %r' % (j + 1, list(order)), tie=(j == 1))
                # reversed() after priming with the other chord length
                try:
                    c_ = order[0]
                    ar, af = float(p_.reversed().area(chord_length=c_)), float(fresh(p_).area(chord_length=c_)); evals += 1
                    if abs(ar + af) > 1e-9 * abs(af) + 1e-12:
                        viol('reversed().area(chord_length=%r) = %r is not minus the area %r of the path, after the path object '
                             'had been queried with another chord length' % (c_, ar, af),
                             dict(base, path=path_json(p_), observed=[ar, af]), 'area-history')
                except Exception as e:
                    viol('reversed().area() raised %s in a query history' % type(e).__name__, dict(base, error=repr(e)),
                         'area-history-exception')
                nontrivial.add(('hist', 'arcs', i))
                dist['hist-arcs'] = dist.get('hist-arcs', 0) + 1
            else:
                # in-place edits of a polygon whose area is primed before each edit
                vs = gen_star(rng, rng.randint(4, 9))
                p_ = poly_path(vs)
                base = {'kind': 'area-history', 'shape': 'edits'}
                hist_query(p_, None, base, 'construction')
                n_ = len(p_)
                k = rng.randrange(n_)
                a_, b_ = p_[k].start, p_[k].end
                m_ = (a_ + b_) / 2 + (b_ - a_) * 1j * rng.choice([0.25, -0.125, 0.5])
                p_[k] = QuadraticBezier(a_, m_, b_)                               # __setitem__
                hist_query(p_, None, base, 'p[%d] = QuadraticBezier(...)' % k, tie=True)
                k = rng.randrange(n_)
                a_, b_ = p_[k].start, p_[k].end
                m_ = snap((a_ + b_) / 2 + (b_ - a_) * 1j * 0.25)
                p_[k] = Line(a_, m_); p_.insert(k + 1, Line(m_, b_))              # insert
                hist_query(p_, None, base, 'insert of a vertex after segment %d' % k)
                k = rng.randrange(1, len(p_) - 1)
                if isinstance(p_[k], Line) and isinstance(p_[k - 1], Line) and p_[k - 1].start != p_[k].end:
                    e_ = p_[k].end
                    del p_[k]                                                     # __delitem__
                    p_[k - 1] = Line(p_[k - 1].start, e_)
                    hist_query(p_, None, base, 'del p[%d] and re-joining' % k)
                if isinstance(p_[0], Line) and isinstance(p_[-1], Line):
                    z_ = snap(p_.start + complex(rng.choice([0.5, -1, 2]), rng.choice([0.25, 1, -2])))
                    if z_ != p_[0].end and z_ != p_[-1].start:
                        p_.start = z_; p_.end = z_                                # start / end setters
                        hist_query(p_, None, base, 'p.start = p.end = %r' % z_, tie=True)
                nontrivial.add(('hist', 'edits', i))
                dist['hist-edits'] = dist.get('hist-edits', 0) + 1

        fails, errors = common.run_cases(tmp, '', 'casety', OKDEF_AREA, area_cases, shard=25, prefix='area')
        for e in errors:
            rep.violation('correspondence case file (area) failed to evaluate', {'kind': 'cases', 'error': e},
                          found_input=False, key='cases-error')
        for idx, code in fails:
            viol('%s: disagreement beyond rounding' % AREA_OBS.get(code, code),
                 dict(area_meta[idx], observation=AREA_OBS.get(code, str(code))), 'corr-area-%d' % code)
        evals += len(area_cases) * 7

        # ============================== B. path_encloses_pt ==============================
        enc_cases, enc_meta = [], []

        last = {}

        def enc_check(vs, pt, opt, kind):
            nonlocal evals
            last.pop('enc', None)
            path = poly_path(vs)
            edges = edges_of(path)
            fpt, fopt = fz(pt), fz(opt)
            an = probe_analysis(fpt, fopt, edges)
            if an is None:
                return False
            base = {'kind': 'encloses', 'shape': kind, 'verts': [common.chex(v) for v in vs],
                    'pt': common.chex(pt), 'opt': common.chex(opt)}
            try:
                got = bool(path_encloses_pt(pt, opt, path))
            except Exception as e:
                viol('path_encloses_pt raised %s on a polygon in general position' % type(e).__name__,
                     dict(base, error=repr(e)), 'encloses-exception')
                return True
            evals += 1
            want = (an['count'] % 2 == 1)
            if got != want:
                if an['missed']:
                    viol('path_encloses_pt misses crossings whose |denom| <= 1e-8 (np.isclose absolute tolerance): '
                         'got %r, even-odd rule %r' % (got, want), dict(base, observed=got, expected=want, crossings=an['count']),
                         'encloses-isclose-abs-tol')
                else:
                    viol('path_encloses_pt disagrees with the even-odd rule (got %r, %d proper crossings)' % (got, an['count']),
                         dict(base, observed=got, expected=want, crossings=an['count']), 'encloses-parity')
            enc_cases.append('(%s, %s, %s, %s, %s, %s, %s)' % (
                coq_edges(path), cq(pt), cq(opt), qc(ATOL), qc(Fr(TOL) ** 2), coq_bool(got), coq_bool(an['theorem_gp'])))
            enc_meta.append(dict(base, observed=got, crossings=an['count']))
            last['enc'] = (got, want, an)
            if an['gap'] is not None:
                # two crossings closer than 1e-5*|z|: where a relative de-dup tolerance would merge them
                zmax = max(abs(pt), abs(opt))
                if an['gap'] < 1e-5 * zmax:
                    dist['enc-crossings-closer-than-1e-5|z|'] = dist.get('enc-crossings-closer-than-1e-5|z|', 0) + 1
            nontrivial.add(('enc', kind, len(vs), an['count']))
            dist['enc-' + kind] = dist.get('enc-' + kind, 0) + 1
            return True


        def enc_far(vs, pt, opt, kind, got0):
            """the same scene translated far from the origin (exactly): exact reference, Coq tie, and
            translation invariance of the answer"""
            O = rng.choice(FAR_OFFSETS)
            tr = translate_exact(list(vs) + [pt, opt], O)
            if tr is None:
                return
            if not enc_check(tr[:-2], tr[-2], tr[-1], kind + '-far') or 'enc' not in last:
                return
            got1 = last['enc'][0]
            if got0 is not None and got1 != got0:
                viol('path_encloses_pt is not translation invariant: %r at the origin, %r after translating polygon, '
                     'point and outside point by %r' % (got0, got1, O),
                     {'kind': 'encloses', 'shape': kind + '-far', 'verts': [common.chex(v) for v in tr[:-2]],
                      'pt': common.chex(tr[-2]), 'opt': common.chex(tr[-1]), 'offset': common.chex(O),
                      'observed': [got0, got1]}, 'encloses-translation')

        if replay:
            r = json.load(open(replay))['replay']
            hx = lambda ab: complex(float.fromhex(ab[0]), float.fromhex(ab[1]))
            if r.get('kind') == 'encloses' and 'verts' in r:
                enc_check([hx(v) for v in r['verts']], hx(r['pt']), hx(r['opt']), r.get('shape', 'replay'))
            n_enc = n_con = 0
        tries = 0
        while len(enc_cases) < n_enc and tries < 20 * n_enc and polys:
            tries += 1
            kind, vs, ccw = polys[rng.randrange(len(polys))]
            if rng.random() < 0.08:
                # small-scale drawings: extent 2^-10 .. 2^-18 (translated to the origin first)
                x0, y0 = min(v.real for v in vs), min(v.imag for v in vs)
                ext = max(max(v.real for v in vs) - x0, max(v.imag for v in vs) - y0)
                sc = 2.0 ** -rng.choice([10, 14, 16, 18]) / 2.0 ** round(math.log2(ext))
                vs = [(v - complex(x0, y0)) * sc for v in vs]
                kind = kind + '-small'
            xs = [v.real for v in vs]; ys = [v.imag for v in vs]
            w, h = max(xs) - min(xs), max(ys) - min(ys)
            den = 64 / max(w, h, 1e-300)
            den = 2.0 ** round(math.log2(den))
            g = lambda lo, hi: round(rng.uniform(lo, hi) * den) / den
            pt = complex(g(min(xs) - 0.2 * w, max(xs) + 0.2 * w), g(min(ys) - 0.2 * h, max(ys) + 0.2 * h))
            m = rng.random()
            if m < 0.4:      # the outside point is_contained_by would use
                opt = complex(min(xs) - 1, min(ys) - 1)
            elif m < 0.8:    # just outside the bounding box, any side
                side = rng.randrange(4)
                opt = [complex(min(xs) - g(0.1 * w, w), g(min(ys) - h, max(ys) + h)),
                       complex(max(xs) + g(0.1 * w, w), g(min(ys) - h, max(ys) + h)),
                       complex(g(min(xs) - w, max(xs) + w), min(ys) - g(0.1 * h, h)),
                       complex(g(min(xs) - w, max(xs) + w), max(ys) + g(0.1 * h, h))][side]
            else:            # far away
                opt = pt + complex(g(-40 * w, 40 * w), g(-40 * h, 40 * h)) + complex(3 * w, 5 * h)
                if min(xs) <= opt.real <= max(xs) and min(ys) <= opt.imag <= max(ys):
                    continue
            if opt == pt:
                continue
            ok_ = enc_check(vs, pt, opt, kind)
            if ok_ and 'enc' in last and rng.random() < 0.3:
                enc_far(vs, pt, opt, kind, last['enc'][0])
            if ok_ and kind in ('convex', 'star'):
                # the generator's own reference agrees with an independent ray cast (harness self-check)
                rc = ray_cast_inside(fz(pt), [fz(v) for v in vs])
                if rc is not None:
                    an = probe_analysis(fz(pt), fz(opt), edges_of(poly_path(vs)))
                    assert rc == (an['count'] % 2 == 1), 'harness: even-odd reference vs ray casting'
        # ---- thin features (walls 2^-6 .. 1 thick, crossed on both sides), at the origin and far from it
        thin_scenes = []
        n_thin = 0 if replay else (16 if quick else 400) * boost
        for i in range(n_thin):
            kind, vs, queries, cav, wall, t = gen_thin(rng)
            thin_scenes.append((kind, vs, cav, wall, t))
            for pt, opt in queries:
                if enc_check(vs, pt, opt, 'thin-' + kind) and 'enc' in last:
                    enc_far(vs, pt, opt, 'thin-' + kind, last['enc'][0])
                else:
                    enc_far(vs, pt, opt, 'thin-' + kind, None)
        fails, errors = common.run_cases(tmp, '', 'casety', OKDEF_ENC, enc_cases, shard=40, prefix='enc')
        for e in errors:
            rep.violation('correspondence case file (encloses) failed to evaluate', {'kind': 'cases', 'error': e},
                          found_input=False, key='cases-error')
        for idx, code in fails:
            m = enc_meta[idx]
            if code == 2:
                raise AssertionError('harness: general-position claim rejected by Coq on %r' % (m,))
            key = 'corr-enc-%d' % code
            if code == 4:
                key = 'encloses-parity'
            viol('%s' % ENC_OBS.get(code, code), dict(m, observation=ENC_OBS.get(code, str(code))), key)
        evals += len(enc_cases) * 4

        # ---- curved paths: rounded Bezier shapes and ellipses, numeric reference
        n_curv = 0 if replay else (40 if quick else 1500) * boost
        done = tries = 0
        while done < n_curv and tries < 10 * n_curv:
            tries += 1
            if rng.random() < 0.7:
                vs = gen_convex(rng, rng.randint(3, 8)); path = rounded_bezier(rng, vs); kind = 'rounded'
            else:
                path, meta = ellipse_path(rng); kind = 'ellipse'
            bb = path.bbox()
            w, h = bb[1] - bb[0], bb[3] - bb[2]
            pt = complex(rng.uniform(bb[0] - 0.1 * w, bb[1] + 0.1 * w), rng.uniform(bb[2] - 0.1 * h, bb[3] + 0.1 * h))
            opt = complex(bb[0] - 1, bb[2] - 1) if rng.random() < 0.5 else \
                complex(bb[1] + rng.uniform(0.1, 1) * w, rng.uniform(bb[2] - h, bb[3] + h))
            gp, cnt = probe_crossings_sampled(path, pt, opt)
            if not gp:
                continue
            done += 1
            base = {'kind': 'encloses-curved', 'shape': kind, 'path': path_json(path), 'pt': common.chex(pt), 'opt': common.chex(opt)}
            try:
                got = bool(path_encloses_pt(pt, opt, path)); evals += 1
            except Exception as e:
                viol('path_encloses_pt raised %s on a %s path' % (type(e).__name__, kind), dict(base, error=repr(e)),
                     'encloses-curved-exception')
                continue
            if got != (cnt % 2 == 1):
                viol('path_encloses_pt on a closed %s path disagrees with the crossing parity (got %r, %d transversal crossings)'
                     % (kind, got, cnt), dict(base, observed=got, crossings=cnt), 'encloses-curved-parity')
            nontrivial.add(('enc-curved', kind, done))
            dist['enc-' + kind] = dist.get('enc-' + kind, 0) + 1


        # ---- shapes with PARTIAL circular arcs carrying a rotation attribute (directly or via rotated())
        arc_shapes = []
        n_ash = 0 if replay else (16 if quick else 500) * boost
        for i in range(n_ash):
            path, kind, truth, rotated_attr = arc_shape(rng)
            arc_shapes.append((path, kind, truth))
            bb = path.bbox()
            w, h = bb[1] - bb[0], bb[3] - bb[2]
            cache = {}
            q = 0
            for attempt in range(12):
                if q >= 4:
                    break
                pt = complex(rng.uniform(bb[0] - 0.15 * w, bb[1] + 0.15 * w), rng.uniform(bb[2] - 0.15 * h, bb[3] + 0.15 * h))
                opt = [complex(bb[0] - 1, bb[2] - 1), complex(bb[1] + rng.uniform(0.2, 2) * w, rng.uniform(bb[2] - h, bb[3] + h)),
                       complex(rng.uniform(bb[0] - w, bb[1] + w), bb[3] + rng.uniform(0.2, 2) * h)][attempt % 3]
                gp, cnt = probe_crossings_sampled(path, pt, opt, cache=cache)
                if not gp:
                    continue
                q += 1
                want = (cnt % 2 == 1)
                tr = truth(pt)
                if tr is not None and tr != want:
                    raise AssertionError('harness: sampled parity vs geometric truth on %s at %r' % (kind, pt))
                base = {'kind': 'encloses-curved', 'shape': kind, 'path': path_json(path), 'pt': common.chex(pt),
                        'opt': common.chex(opt)}
                try:
                    got = bool(path_encloses_pt(pt, opt, path)); evals += 1
                except Exception as e:
                    viol('path_encloses_pt raised %s on a %s path' % (type(e).__name__, kind), dict(base, error=repr(e)),
                         'encloses-curved-exception')
                    continue
                if got != want:
                    viol('path_encloses_pt on a closed path with a partial circular arc (%s, Arc.rotation %s 0) disagrees with the '
                         'crossing parity (got %r, %d transversal crossings)' % (kind, '!=' if rotated_attr else '==', got, cnt),
                         dict(base, observed=got, crossings=cnt), 'encloses-curved-parity')
                nontrivial.add(('enc-arcshape', kind, i, q))
                dist['enc-arc-' + kind] = dist.get('enc-arc-' + kind, 0) + 1

        # ============================== C. is_contained_by ==============================
        con_cases, con_meta = [], []

        def con_check(inner_vs, outer_vs, kind):
            nonlocal evals
            last.pop('con', None)
            inner, outer = poly_path(inner_vs), poly_path(outer_vs)
            e_in, e_out = edges_of(inner), edges_of(outer)
            pc = pair_crossing(e_in, e_out)
            if pc is None:
                return False
            crosses, missed = pc
            xs = [v.real for v in outer_vs]; ys = [v.imag for v in outer_vs]
            pt = inner_vs[0]
            opt = complex(min(xs) - 1, min(ys) - 1)
            an = probe_analysis(fz(pt), fz(opt), e_out)
            if an is None:
                return False          # the implied probe is not in general position
            enclosed = (an['count'] % 2 == 1)
            want = (not (crosses or missed)) and enclosed
            base = {'kind': 'contained', 'shape': kind, 'inner': [common.chex(v) for v in inner_vs],
                    'outer': [common.chex(v) for v in outer_vs]}
            import svgpathtools.path as sp
            probes = []
            orig_enc = sp.path_encloses_pt

            def spy(pt, opt, path):          # same parameter names as path_encloses_pt (it may be called by keyword)
                probes.append((pt, opt))
                return orig_enc(pt, opt, path)
            sp.path_encloses_pt = spy        # observe the probe is_contained_by chooses (harness-side wrapper)
            try:
                got = bool(inner.is_contained_by(outer))
                inter = bool(inner.intersect(outer, justonemode=True))
                bb = outer.bbox()
            except Exception as e:
                viol('is_contained_by raised %s' % type(e).__name__, dict(base, error=repr(e)), 'contained-exception')
                return True
            finally:
                sp.path_encloses_pt = orig_enc
            evals += 1
            for pt_, opt_ in probes:
                # what makes the parity an enclosure test: the far end of the probe is outside the outer path's box
                if bb[0] <= complex(opt_).real <= bb[1] and bb[2] <= complex(opt_).imag <= bb[3]:
                    viol('is_contained_by probes towards %r, which is inside the bounding box %r of the outer path'
                         % (opt_, bb), dict(base, opt=common.chex(opt_)), 'contained-probe-inside-bbox')
                if complex(pt_) != complex(pt):
                    viol('is_contained_by tests %r, not the start of the inner path' % (pt_,), dict(base), 'contained-probe-start')
            if got != want:
                if missed or an['missed']:
                    viol('is_contained_by wrong because crossings with |denom| <= 1e-8 are discarded (got %r, expected %r)'
                         % (got, want), dict(base, observed=got, expected=want), 'contained-isclose-abs-tol')
                else:
                    viol('is_contained_by is %r but paths %s and the inner start is %senclosed'
                         % (got, 'cross' if crosses else 'do not cross', '' if enclosed else 'not '),
                         dict(base, observed=got, expected=want, crosses=crosses, enclosed=enclosed), 'contained-decision')
            con_cases.append('(%s, %s, %s, %s, %s, (%s, %s, %s, %s), %s)' % (
                coq_edges(outer), cq(pt), qc(ATOL), qc(Fr(TOL) ** 2), coq_bool(inter),
                qc(bb[0]), qc(bb[1]), qc(bb[2]), qc(bb[3]), coq_bool(got)))
            con_meta.append(dict(base, observed=got, intersects=inter))
            cls = 'crossing' if crosses else ('nested' if enclosed else 'disjoint')
            dist['con-' + cls] = dist.get('con-' + cls, 0) + 1
            if abs(shoelace([fz(v) for v in inner_vs])) > abs(shoelace([fz(v) for v in outer_vs])):
                # |signed area| says nothing about containment (cancelling lobes, double winding)
                dist['con-%s-inner-area-exceeds-outer' % cls] = dist.get('con-%s-inner-area-exceeds-outer' % cls, 0) + 1
            if '/' in kind and (kind.split('/')[0] in SPECIAL_MODES or kind.startswith('thin') or kind.endswith('-far')):
                tag = kind.split('/')[0] + ('-far' if kind.endswith('-far') and not kind.split('/')[0].endswith('-far') else '')
                dist['con-' + tag] = dist.get('con-' + tag, 0) + 1
            last['con'] = got
            nontrivial.add(('con', cls, len(inner_vs), len(outer_vs), len(con_cases)))
            return True

        def con_far(inner_vs, outer_vs, kind, got0):
            """the same pair translated far from the origin (exactly): reference, Coq tie, invariance"""
            O = rng.choice(FAR_OFFSETS)
            tr = translate_exact(list(inner_vs) + list(outer_vs), O)
            if tr is None:
                return
            ti, to = tr[:len(inner_vs)], tr[len(inner_vs):]
            if not con_check(ti, to, kind + '-far') or 'con' not in last:
                return
            if got0 is not None and last['con'] != got0:
                viol('is_contained_by is not translation invariant: %r at the origin, %r after translating both paths by %r'
                     % (got0, last['con'], O),
                     {'kind': 'contained', 'shape': kind + '-far', 'inner': [common.chex(v) for v in ti],
                      'outer': [common.chex(v) for v in to], 'offset': common.chex(O), 'observed': [got0, last['con']]},
                     'contained-translation')


        con2_cases, con2_meta = [], []

        def con_check_curved(inner_vs, outer, kind):
            """outer is a closed curved path; references from dense samples"""
            nonlocal evals
            inner = poly_path(inner_vs)
            cen = sum(inner_vs) / len(inner_vs)
            rad = max(abs(v - cen) for v in inner_vs)
            bb0 = outer.bbox()
            size = max(bb0[1] - bb0[0], bb0[3] - bb0[2])
            dmin = min(abs(z - cen) for z in sample_path(outer, 1500))
            if dmin < rad + 0.02 * size:
                return False                   # not clearly apart from the curve
            pt = inner_vs[0]
            opt = complex(bb0[0] - 1, bb0[2] - 1)
            gp, cnt = probe_crossings_sampled(outer, pt, opt)
            if not gp:
                return False                   # the implied probe is not in general position
            enclosed = (cnt % 2 == 1)
            want = enclosed                    # the paths do not cross
            base = {'kind': 'contained-curved', 'shape': kind, 'inner': [common.chex(v) for v in inner_vs],
                    'path': path_json(outer)}
            import svgpathtools.path as sp
            probes = []
            orig_enc = sp.path_encloses_pt

            def spy(pt, opt, path):          # same parameter names as path_encloses_pt (it may be called by keyword)
                r_ = orig_enc(pt, opt, path)
                probes.append((pt, opt, bool(r_)))
                return r_
            sp.path_encloses_pt = spy
            try:
                got = bool(inner.is_contained_by(outer))
                inter = bool(inner.intersect(outer, justonemode=True))
                bb = outer.bbox()
            except Exception as e:
                viol('is_contained_by raised %s' % type(e).__name__, dict(base, error=repr(e)), 'contained-exception')
                return True
            finally:
                sp.path_encloses_pt = orig_enc
            evals += 1
            if got != want:
                viol('is_contained_by is %r but the inner polygon is clear of the outer %s path and its start is %senclosed '
                     '(%d transversal crossings of the probe)' % (got, kind, '' if enclosed else 'not ', cnt),
                     dict(base, observed=got, expected=want, crossings=cnt), 'contained-decision')
            encl = ('(Some %s)' % coq_bool(probes[-1][2])) if probes else 'None'
            con2_cases.append('((%s, %s, %s, %s), %s, %s, %s, %s)' % (
                qc(bb[0]), qc(bb[1]), qc(bb[2]), qc(bb[3]), cq(pt), coq_bool(inter), encl, coq_bool(got)))
            con2_meta.append(dict(base, observed=got, intersects=inter))
            cls = kind.split('/')[0]
            dist['con-' + cls] = dist.get('con-' + cls, 0) + 1
            dist['con-curved-' + ('nested' if enclosed else 'disjoint')] = \
                dist.get('con-curved-' + ('nested' if enclosed else 'disjoint'), 0) + 1
            nontrivial.add(('con2', cls, enclosed, len(con2_cases)))
            return True

        if replay:
            r = json.load(open(replay))['replay']
            if r.get('kind') == 'contained':
                hx = lambda ab: complex(float.fromhex(ab[0]), float.fromhex(ab[1]))
                con_check([hx(v) for v in r['inner']], [hx(v) for v in r['outer']], r.get('shape', 'replay'))
            if r.get('kind') == 'contained-curved':
                hx = lambda ab: complex(float.fromhex(ab[0]), float.fromhex(ab[1]))
                con_check_curved([hx(v) for v in r['inner']], path_from_json(r['path']), r.get('shape', 'replay'))
        # ---- pairs where |signed area| is no guide: self-intersecting outer paths (cancelling lobes, winding 2
        #      cores), doubly winding inner paths, figure-eight Bezier outer paths
        n_special = 0 if replay else (42 if quick else 700) * boost
        last_inner = [None]
        done = tries = 0
        while done < n_special and tries < 20 * n_special:
            tries += 1
            mode = SPECIAL_MODES[tries % len(SPECIAL_MODES)]
            if mode in ('bowtie-lobe', 'bowtie-gap'):
                outer_vs, lobes, gaps, sz = gen_bowtie(rng)
                cen = rng.choice(lobes if mode == 'bowtie-lobe' else gaps)
                last_inner[0] = small_poly(rng, cen, sz / rng.choice([8, 16]))
                ok_ = con_check(last_inner[0], outer_vs, mode + '/bowtie')
            elif mode in ('pentagram-tip', 'pentagram-core'):
                outer_vs, tips, core, R = gen_pentagram(rng)
                cen = rng.choice(tips if mode == 'pentagram-tip' else core)
                last_inner[0] = small_poly(rng, cen, R / rng.choice([8, 16]))
                ok_ = con_check(last_inner[0], outer_vs, mode + '/pentagram')
            elif mode == 'spiral2':
                inner_vs, outer_vs = gen_spiral2(rng)
                last_inner[0] = inner_vs
                ok_ = con_check(inner_vs, outer_vs, mode + '/convex')
            else:
                outer, lobes, gaps, sz = figure8_path(rng)
                cen = rng.choice(lobes if mode == 'figure8-lobe' else gaps)
                ok_ = con_check_curved(small_poly(rng, cen, sz * rng.choice([0.25, 0.125]) * (1 if mode == 'figure8-lobe' else 0.25)),
                                       outer, mode + '/figure8')
            done += 1 if ok_ else 0
            if ok_ and 'con' in last and mode not in ('figure8-lobe', 'figure8-gap') and rng.random() < 0.3:
                con_far(last_inner[0], outer_vs, mode + '/' + mode, last['con'])
        # ---- small polygons inside / outside the shapes with partial rotated circular arcs
        for path, kind, truth in arc_shapes:
            bb = path.bbox()
            w, h = bb[1] - bb[0], bb[3] - bb[2]
            placed = {True: 0, False: 0}
            for attempt in range(16):
                cen = complex(rng.uniform(bb[0], bb[1]), rng.uniform(bb[2], bb[3]))
                tr = truth(cen)
                if tr is None and kind.startswith('stadium'):
                    tr = attempt % 2 == 0        # class unknown in advance; the sampled reference decides
                elif tr is None:
                    continue
                if placed[tr] >= 1:
                    continue
                if con_check_curved(small_poly(rng, cen, min(w, h) / 16), path, 'arc-%s/%s' % (kind, 'in' if tr else 'out')):
                    placed[tr] += 1
        # ---- thin-walled outer paths: a small polygon in the cavity (the implied probe crosses a wall on both
        #      sides), inside the wall, or outside; at the origin and far from it
        for kind, vs, cav, wall, t in thin_scenes:
            xs = [v.real for v in vs]; ys = [v.imag for v in vs]
            outp = complex(max(xs) + 1.5, (min(ys) + max(ys)) / 2)
            for where, cen, size in (('cavity', cav, 0.25), ('wall', wall, t / 4), ('outside', outp, 0.5)):
                inner_vs = small_poly(rng, cen, size)
                nm = 'thin-%s-%s/%s' % (kind, where, kind)
                if con_check(inner_vs, vs, nm) and 'con' in last:
                    con_far(inner_vs, vs, nm, last['con'])
                else:
                    con_far(inner_vs, vs, nm, None)
        tries = 0
        simple = [p for p in polys if p[0] in ('convex', 'star')]
        n_con += len(con_cases)
        while len(con_cases) < n_con and tries < 30 * n_con and simple and polys:
            tries += 1
            kind, outer_vs, _ = polys[rng.randrange(len(polys))] if rng.random() < 0.25 else simple[rng.randrange(len(simple))]
            _, inner0, _ = simple[rng.randrange(len(simple))]
            xs = [v.real for v in outer_vs]; ys = [v.imag for v in outer_vs]
            w, h = max(xs) - min(xs), max(ys) - min(ys)
            ixs = [v.real for v in inner0]; iys = [v.imag for v in inner0]
            iw = max(max(ixs) - min(ixs), max(iys) - min(iys))
            mode = rng.choice(['nested', 'nested', 'disjoint', 'disjoint-in-bbox', 'crossing', 'crossing', 'around'])
            ic = complex((max(ixs) + min(ixs)) / 2, (max(iys) + min(iys)) / 2)
            if mode == 'nested':
                s = 2.0 ** round(math.log2(max(min(w, h), 1e-9) / iw / rng.choice([3, 5, 9])))
                cen = sum(outer_vs) / len(outer_vs)
            elif mode == 'disjoint':
                s = 2.0 ** round(math.log2(max(w, h) / iw / rng.choice([1, 2, 4])))
                cen = complex(max(xs) + w * rng.uniform(0.6, 2), rng.uniform(min(ys), max(ys)))
            elif mode == 'disjoint-in-bbox':
                s = 2.0 ** round(math.log2(max(min(w, h), 1e-9) / iw / rng.choice([8, 16])))
                cen = complex(rng.uniform(min(xs), max(xs)), rng.uniform(min(ys), max(ys)))
            elif mode == 'crossing':
                s = 2.0 ** round(math.log2(max(w, h) / iw / rng.choice([1, 2])))
                cen = outer_vs[rng.randrange(len(outer_vs))]
            else:           # the "inner" path surrounds the outer one
                s = 2.0 ** round(math.log2(max(w, h) / iw * rng.choice([4, 8])))
                cen = sum(outer_vs) / len(outer_vs)
            cen = complex(round(cen.real * 64) / 64, round(cen.imag * 64) / 64)
            ic = complex(round(ic.real * 64) / 64, round(ic.imag * 64) / 64)
            inner_vs = [(v - ic) * s + cen for v in inner0]
            if rng.random() < 0.3:
                inner_vs = inner_vs[::-1]
            k0 = rng.randrange(len(inner_vs))
            inner_vs = inner_vs[k0:] + inner_vs[:k0]
            if con_check(inner_vs, outer_vs, mode + '/' + kind) and 'con' in last and rng.random() < 0.25:
                con_far(inner_vs, outer_vs, mode + '/' + kind, last['con'])
        fails, errors = common.run_cases(tmp, '', 'casety', OKDEF_CON, con_cases, shard=30, prefix='con')
        for e in errors:
            rep.violation('correspondence case file (is_contained_by) failed to evaluate', {'kind': 'cases', 'error': e},
                          found_input=False, key='cases-error')
        for idx, code in fails:
            viol('%s' % CON_OBS.get(code, code), dict(con_meta[idx], observation=CON_OBS.get(code, str(code))),
                 'corr-con-%d' % code)
        evals += len(con_cases) * 2
        fails, errors = common.run_cases(tmp, '', 'casety', OKDEF_CON2, con2_cases, shard=60, prefix='con2')
        for e in errors:
            rep.violation('correspondence case file (is_contained_by, curved outer) failed to evaluate',
                          {'kind': 'cases', 'error': e}, found_input=False, key='cases-error')
        for idx, code in fails:
            viol('%s' % CON2_OBS.get(code, code), dict(con2_meta[idx], observation=CON2_OBS.get(code, str(code))),
                 'corr-con2-%d' % code)
        evals += len(con2_cases) * 2

        # ------------------------------ evidence
        rep.cov['evaluations'] = evals
        rep.cov['traces_validated_against_impl'] = len(area_cases) + len(enc_cases) + len(con_cases) + len(con2_cases)
        rep.cov['distinct_nontrivial'] = len(nontrivial)
        rep.cov['rule'] = (
            'area: closed paths (convex / star-shaped concave / self-intersecting polygons 3-12 vertices with dyadic '
            'coordinates incl. 2^-20 and 2^12 scales, rounded convex Bezier paths, random closed Line/Quad/Cubic paths, '
            'ellipses from two arcs) each with reversed / translated / scaled / rotated / transform(M) variants; distinct = '
            'distinct (shape kind, size, exact area); enclosure: (polygon, pt, opt) in exact general position, distinct = '
            'distinct (kind, n, crossing count); containment: nested / disjoint / crossing / surrounding pairs, plus pairs where '
            '|signed area| is no guide (bow-tie and pentagram outer polygons with a small polygon in a lobe / tip / gap / winding-2 '
            'core, doubly winding spiral inside a smaller-area convex polygon, figure-eight Bezier outer path); thin features '
            '(U-channel, sliver, C-frame; walls 2^-6..1 thick crossed on both sides) and exact translates of enclosure / containment '
            'scenes by offsets 1e4..1e6 with the translation invariance of the answers; closed shapes with partial circular arcs '
            'whose rotation attribute is non-zero (D, pie, stadium; direct and through rotated()); area(): query histories on one '
            'object (rough/fine chord lengths, in-place edits) against fresh paths; every Coq '
            'comparison is computed on Model/Area.v in exact rationals')
        rep.cov['input_distribution'] = dist
        rep.cov['violations_by_key'] = by_key
        rep.cov['samples'] = samples + [{'encloses': m} for m in enc_meta[:2]] + [{'contained': m} for m in con_meta[:1]]
        if info['agree_failed'] and not rep.violations:
            rep.violation('agreement lemma(s) %s no longer check: the generated area kernel differs from the model'
                          % info['agree_failed'],
                          {'kind': 'agreement', 'lemmas': info['agree_failed'], 'file': 'coq/GenAgree/Area.v',
                           'messages': info.get('agree_msgs', {})}, found_input=False, key='agree')
    rep.assumptions += [
        'numpy poly1d arithmetic (polymul, polyint, polyder, polyval) is the dense coefficient arithmetic of Base/Poly.v (sampled)',
        'binary64 rounding bound 4096*2^-53*sum_seg(sum|Re ctrl|)(sum|Im ctrl|); exact equality on dyadic polygons',
        'Arc.point / Arc.length are taken from the implementation (C04 / C06); the error of the chord polygon vs the true '
        'sector is not a theorem (checked: inscribed-polygon formula and the (delta/n)^2/6 bound)',
        'Path.intersect beyond Line-Line (Bezier, Arc) is an oracle for path_encloses_pt (C11 / C12)',
        'polytools.real/imag are translated by their built-in meaning (their try/except is outside the translator subset)']
