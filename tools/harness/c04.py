"""C04 — Arc realises the SVG endpoint parameterisation (F.6.5) for all parameters.

Theorems: coq/Props/C04.v (model coq/Model/Arc.v).
Ties:  translator (GenArc: Arc.point, Arc.derivative n=1..8, centeriso,
       icenteriso, u1transform) + agreement lemmas GenAgree/Arc.v;
       correspondence: for every generated arc the implementation's radius,
       center, theta, delta, point(t), derivative(t,n) (n=1..5, 9 values of t)
       and the pieces of as_cubic_curves(2)/as_quad_curves(2) are compared
       INSIDE Coq with the model run in 120-bit bigfloats (Base/BigF.v);
       implementation-level predicate: the property statement evaluated on
       the real code (end points, on-ellipse residual, minimal scaling, flags,
       derivative against finite differences, approximations' end points).
"""
import math, warnings, json
from fractions import Fraction as Fr
import common
from common import bf, cbf, coq_list, coq_bool

GEN_GROUPS = ['GenArc']
AGREE = ['Arc.v', 'ArcParam.v']

ROTS = [0.0, 90.0, -90.0, 180.0, 270.0, 360.0, 725.0]
FLAGS = [(False, False), (False, True), (True, False), (True, True)]
PYTH = [(3, 4, 5), (5, 12, 13), (8, 15, 17), (7, 24, 25), (20, 21, 29), (1, 0, 1), (0, 1, 1)]
FIXED_T = [0.0, 1.0, 0.5, 0.25, 0.75, 1.0 / 3.0, 0.9]

# hand-picked arcs, run first
CORPUS = [
    # the half circle W of Props/C04.v
    (1 + 0j, 1 + 1j, 0.0, False, True, -1 + 0j, 'corpus-halfcircle'),
    # inside the snapped region (Props/C04.v: Sstart/Srad/Send)
    (0j, complex(1 + 2.0 ** -30, 1), 0.0, False, True, 2 + 0j, 'corpus-snapped-axis'),
    # snapped region, start slightly off the axis: point(0) misses start by ~1e-4
    (0j, complex(1.000000004, 1), 0.0, True, False, complex(2, 2e-6), 'corpus-snapped'),
    # just outside the snapped region
    (0j, complex(1.00000002, 1), 0.0, True, True, complex(2, 2e-6), 'corpus-unsnapped'),
    (0j, 3 + 2j, 30.0, True, False, 4 + 1j, 'corpus-generic'),
    (0j, -3 - 2j, 390.0, False, False, 4 + 1j, 'corpus-negative-radii'),
    (10 + 0j, 1 + 1j, 180.0, False, True, 0j, 'corpus-rot180-axis'),
    # tiny but non-zero radii / very flat ellipse / tiny units: admissible, must be enlarged
    (0j, 1e-9 + 1e-9j, 0.0, False, True, 10 + 5j, 'corpus-tiny-radius'),
    (0j, 50 + 1e-9j, 30.0, False, True, 10 + 5j, 'corpus-flat'),
    (0j, 1e-20 + 3j, 30.0, True, True, 1e-9 + 2e-9j, 'corpus-tiny-radius'),
    (0j, 3e-9 + 2e-9j, 30.0, True, False, 4e-9 + 1e-9j, 'corpus-tiny-units'),
    (0j, 3e12 + 2e12j, 30.0, True, False, 4e12 + 1e12j, 'corpus-huge-units'),
    # start within 1e-8 rad of an axis extreme (acos conditioning, KF-C04-4)
    (100 + 1e-6j, 100 + 100j, 0.0, False, True, 100j, 'corpus-axis-extreme'),
    # radii too small by a hair (decimally rounded data): radius_check = 1 + 2.2e-6, 1 + 2.2e-7, 1 + 5e-9
    (0j, 70.7106 + 70.7106j, 0.0, False, True, 100 + 100j, 'corpus-hair-small'),
    (0j, 70.71067 + 70.71067j, 0.0, True, False, 100 + 100j, 'corpus-hair-small'),
    (0j, 70.710678 + 70.710678j, 30.0, True, True, 100 + 100j, 'corpus-hair-small'),
]


def rnd_pt(rng, sc=1e3):
    return complex(rng.uniform(-sc, sc), rng.uniform(-sc, sc))


def gen_arc(rng, i):
    """one arc from the families of the quantifier"""
    fam = rng.choice(['ample', 'ample', 'too_small', 'too_small', 'exact_fit', 'eccentric',
                      'near_snap', 'axis', 'int', 'tiny_chord', 'on_ellipse', 'hair_small', 'hair_small',
                      'tiny_radius', 'tiny_radius', 'flat', 'tiny_units', 'huge_units'])
    if fam in ('tiny_units', 'huge_units'):
        # a whole drawing in tiny (1e-12..1e-6) or huge (1e6..1e15) units: an ordinary arc, scaled
        u = 10 ** (rng.uniform(-12, -6) if fam == 'tiny_units' else rng.uniform(6, 15))
        while True:
            s0, r0, rot0, la0, sw0, e0, f0 = gen_arc(rng, i)
            if f0.split('-')[0] in ('ample', 'too_small', 'eccentric', 'int', 'exact_fit', 'hair_small', 'on_ellipse'):
                break
        s1, r1, e1 = s0 * u, r0 * u, e0 * u
        if s1 == e1 or r1.real == 0 or r1.imag == 0:
            return gen_arc(rng, i)
        return (s1, r1, rot0, la0, sw0, e1, fam + '/' + f0)
    rot = rng.choice(ROTS + [rng.uniform(-720, 720), rng.uniform(0, 360), rng.uniform(-5, 5)])
    large, sweep = FLAGS[i % 4]
    neg = rng.random() < 0.25

    def half_chord_in_frame(s, e):
        phi = math.radians(rot)
        z = (s - e) / 2 * complex(math.cos(phi), -math.sin(phi))
        return z.real, z.imag

    if fam == 'tiny_radius':
        # one or both radius components in [1e-300, 1e-7] (log-uniform); chord ordinary or tiny.
        # Admissible (non-zero): the radii must be enlarged by the minimal factor
        s = rnd_pt(rng)
        e = s + rnd_pt(rng, 10 ** rng.uniform(-9, -3)) if rng.random() < 0.4 else rnd_pt(rng)
        if s == e:
            e = s + 1
        tiny = lambda: 10 ** rng.uniform(-300, -7)
        ordinary = lambda: abs(s - e) * 10 ** rng.uniform(-2, 1.5)
        which = rng.choice(['both', 'x', 'y'])
        r = complex(tiny() if which in ('both', 'x') else ordinary(),
                    tiny() if which in ('both', 'y') else ordinary())
    elif fam == 'flat':
        # very flat ellipses: one radius ordinary, the other 1e-12..1e-7 of it; the chord either
        # generic (radii get enlarged) or along the long axis (the flat ellipse fits as given)
        R = 10 ** rng.uniform(0, 3)
        flat = R * 10 ** rng.uniform(-12, -7)
        longx = rng.random() < 0.5
        r = complex(R, flat) if longx else complex(flat, R)
        if rng.random() < 0.5:
            phi = math.radians(rot)
            half = R * rng.uniform(0.05, 1.2)
            d = (half if longx else half * 1j) * complex(math.cos(phi), math.sin(phi))
            mid = rnd_pt(rng, 100)
            s, e = mid + d, mid - d
        else:
            s = rnd_pt(rng, 100)
            e = s + rnd_pt(rng, R)
        if s == e:
            e = s + 1
    elif fam == 'hair_small':
        # radii too small by a hair: radius_check in [1+1e-9, 1+1e-4] log-uniform, obtained by
        # shrinking an exactly fitting pair of radii by 1/sqrt(radius_check); the fitting pair is
        # either a Pythagorean construction or the computed fit of a random chord
        rc_t = 1 + 10 ** rng.uniform(-9, -4)
        if rng.random() < 0.5:
            a, b, c = rng.choice(PYTH)
            if rng.random() < 0.5: a = -a
            if rng.random() < 0.5: b = -b
            rx = c * rng.randint(1, 40) / rng.choice([1, 2, 4, 8])
            ry = c * rng.randint(1, 40) / rng.choice([1, 2, 4, 8])
            phi = math.radians(rot)
            d = complex(rx * a / c, ry * b / c) * complex(math.cos(phi), math.sin(phi))
            mid = complex(rng.randint(-500, 500), rng.randint(-500, 500))
            s, e = mid + d, mid - d
        else:
            s, e = rnd_pt(rng), rnd_pt(rng)
            if s == e:
                e = s + 1
            x, y = half_chord_in_frame(s, e)
            ecc = 10 ** rng.uniform(0, 2)
            ax, ay = (1.0, 1.0 / ecc) if rng.random() < 0.5 else (1.0 / ecc, 1.0)
            need = math.sqrt((x / ax) ** 2 + (y / ay) ** 2)
            rx, ry = need * ax, need * ay
        f = 1.0 / math.sqrt(rc_t)
        r = complex(rx * f, ry * f)
    elif fam in ('ample', 'too_small', 'eccentric', 'tiny_chord'):
        s = rnd_pt(rng)
        if fam == 'tiny_chord':
            e = s + rnd_pt(rng, 10 ** rng.uniform(-6, -1))
        else:
            e = rnd_pt(rng)
        if s == e:
            e = s + 1
        x, y = half_chord_in_frame(s, e)
        ecc = 10 ** rng.uniform(0, 3) if fam == 'eccentric' else 10 ** rng.uniform(0, 1)
        if rng.random() < 0.5:
            ax, ay = 1.0, 1.0 / ecc
        else:
            ax, ay = 1.0 / ecc, 1.0
        need = math.sqrt((x / ax) ** 2 + (y / ay) ** 2)   # radii (need*ax, need*ay) fit exactly
        if fam == 'too_small':
            f = rng.choice([1e-3, 1e-3, 10 ** rng.uniform(-3, -0.01)])
        else:
            f = 10 ** rng.uniform(0.01, 1.3)
        r = complex(need * ax * f, need * ay * f)
    elif fam in ('exact_fit', 'near_snap', 'axis'):
        # rational point on the ellipse: half chord (rx*a/c, ry*b/c) in the frame
        a, b, c = rng.choice(PYTH) if fam != 'axis' else rng.choice([(1, 0, 1), (0, 1, 1)])
        if rng.random() < 0.5: a = -a
        if rng.random() < 0.5: b = -b
        rx = c * rng.randint(1, 40) / rng.choice([1, 2, 4, 8])
        ry = c * rng.randint(1, 40) / rng.choice([1, 2, 4, 8])
        if fam == 'axis' and rng.random() < 0.5:
            rot = rng.choice(ROTS)
        elif fam != 'axis':
            rot = rng.choice([0.0, 0.0, 90.0, 180.0, 360.0, rng.uniform(-720, 720)])
        phi = math.radians(rot)
        zp = complex(rx * a / c, ry * b / c)
        d = zp * complex(math.cos(phi), math.sin(phi))      # (start-end)/2
        mid = complex(rng.randint(-500, 500), rng.randint(-500, 500))
        s, e = mid + d, mid - d
        if fam == 'near_snap':
            # radicand of radii*(1+eps) is (1+eps)^2 - 1 ~ 2 eps
            eps = rng.choice([5e-11, 1.5e-9, 4e-9, 4.9e-9, 4.99e-9, 5.01e-9, 5.2e-9, 1.5e-8, 5e-8, 5e-7])
            rx, ry = rx * (1 + eps), ry * (1 + eps)
        elif fam == 'axis' and rng.random() < 0.5:
            f = rng.choice([1e-3, 0.5, 1.0, 1.0])
            rx, ry = rx * f, ry * f
        r = complex(rx, ry)
    elif fam == 'on_ellipse':
        # start / end taken on a given ellipse (ample radii); start often at or next to an
        # axis extreme, where acos is ill-conditioned
        rx, ry = rng.uniform(1, 100), rng.uniform(1, 100)
        ctr = rnd_pt(rng, 100)
        phi = math.radians(rot)
        rm = complex(math.cos(phi), math.sin(phi))
        th0 = rng.choice([0.0, math.pi, 1e-9, -1e-9, 1e-8, 3e-8, 1e-7, math.pi - 1e-8, math.pi / 2,
                          rng.uniform(-3, 3)])
        b = rng.uniform(0.3, 2.8) * rng.choice([1, -1])
        s = ctr + rm * complex(rx * math.cos(th0), ry * math.sin(th0))
        e = ctr + rm * complex(rx * math.cos(th0 + b), ry * math.sin(th0 + b))
        r = complex(rx, ry)
    else:  # int
        s = complex(rng.randint(-20, 20), rng.randint(-20, 20))
        e = complex(rng.randint(-20, 20), rng.randint(-20, 20))
        if s == e:
            e = s + complex(1, 2)
        r = complex(rng.randint(1, 15), rng.randint(1, 15))
        rot = rng.choice(ROTS + [30.0, 45.0, -45.0])
    if neg:
        r = complex(-r.real if rng.random() < 0.7 else r.real, -r.imag if rng.random() < 0.7 else r.imag)
    if r.real == 0 or r.imag == 0 or s == e:
        return gen_arc(rng, i)
    return (s, r, float(rot), large, sweep, e, fam + ('-neg' if neg else ''))


# ------------------------------------------------------------------ Coq side
OKDEF = r'''
From SVP Require Import Model.Arc.
Definition N := NumB.
Definition T := NumTB.
(* the variants of the implementation under test, detected by the harness *)
Definition FX : bool := __FX__.     (* radical rule: false = np.isclose snap, true = repaired *)
Definition DFX : bool := __DFX__.    (* derivative n%4==0 branch: false = no factor k, true = repaired *)
Definition bz (z : Z) : bf := lit N z.
Definition e9 : bf := div N (bz 1) (bz 1000000000).
Definition cabs1 (z : bf * bf) : bf := add N (babs (fst z)) (babs (snd z)).
Definition bmin (x y : bf) : bf := if bf_ltb y x then y else x.
Definition two_m46 : bf := bf_of 1 (-46).
Definition two_m23 : bf := bf_of 1 (-23).
(* forward error of the implementation's acos(x) in binary64 where sqrt(1-x^2) = s:
   min(2^-46/|s|, 2^-23) radians *)
Definition cond (s : bf) : bf :=
  let a := babs s in
  if bf_leb a (bf_of 1 (-70)) then two_m23 else bmin (div N two_m46 a) two_m23.
(* the same when x itself carries the absolute error ex: min((2^-46+ex)/|s|, sqrt(2(2^-46+ex))) *)
Definition cond2 (s ex : bf) : bf :=
  let a := babs s in
  let e := add N two_m46 ex in
  let cap := bf_sqrt (add N e e) in
  if bf_leb a (bf_of 1 (-70)) then cap else bmin (div N e a) cap.
Definition ang_close (tol a b : bf) : bool :=
  let d := babs (sub N a b) in
  bf_leb d tol || bf_leb (babs (sub N d (bz 360))) tol.
Fixpoint all2 {A B} (f : A -> B -> bool) (l1 : list A) (l2 : list B) : bool :=
  match l1, l2 with
  | [], [] => true
  | a :: r1, b :: r2 => f a b && all2 f r1 r2
  | _, _ => false
  end.
Fixpoint bpow (x : bf) (n : nat) : bf := match n with O => bz 1 | S m => mul N x (bpow x m) end.
Definition oget (o : option (bf * bf)) : bf * bf :=
  match o with Some z => z | None => (bz 123456789, bz 123456789) end.
Definition c4list (c : cubic4 (K:=bf)) : list (bf * bf) := let '(a, b, c, d) := c in [a; b; c; d].
Definition q3list (c : quad3 (K:=bf)) : list (bf * bf) := let '(a, b, c) := c in [a; b; c].

(* case: start, radius, rotation, large, sweep, end,
         observed (radius, center, theta, delta),
         samples [(t, point(t), [derivative(t,1..5)])],
         as_cubic_curves(2) control points, as_quad_curves(2) control points *)
Definition casety : Type :=
  ((bf * bf) * (bf * bf) * bf * bool * bool * (bf * bf)
   * ((bf * bf) * (bf * bf) * bf * bf)
   * list (bf * (bf * bf) * list (bf * bf))
   * list (list (bf * bf)) * list (list (bf * bf)))%type.

Definition ok (c : casety) : nat :=
  let '(start, radius, rot, large, sweep, end_, obs, samples, cub, quad) := c in
  let '(o_radius, o_center, o_theta, o_delta) := obs in
  let P := arc_init_v N T FX start radius rot large sweep end_ in
  let radicand := arc_radicand_of N T start radius rot end_ in
  (* the isclose(radicand, 0) decision is within rounding of its threshold: undecided *)
  if negb FX && bf_leb (babs (sub N radicand (atol8 N))) (mul N (atol8 N) (bf_of 1 (-13))) then 90 else
  let radical := arc_radical_of N T FX start radius rot end_ in
  let u1 := arc_u1_of N T FX start radius rot large sweep end_ in
  let u2 := arc_u2_of N T FX start radius rot large sweep end_ in
  (* the sign test on u1.imag is within rounding while |u1| < 1 (only possible when the
     snap fired on a positive radicand: theta = +-acos(u1.real) is then discontinuous) *)
  if bf_leb (babs (snd u1)) (bf_of 1 (-40)) &&
     bf_ltb (bf_of 1 (-60)) (sub N (bz 1) (babs (fst u1))) then 91 else
  (* radical = 0: det_uv is exactly 0 (u2 = -u1) in binary64 and in R, but not under
     the directed rounding of the bigfloat instance; the value of delta is then
     given by theorem C04_delta_cases *)
  let snapped := bf_eqb radical (zero N) in
  let delta_m := if snapped then (if sweep then bz 180 else bz (-180)) else a_delta P in
  let Pm := mkArcP start (a_radius P) rot large sweep end_ (a_center P) (a_theta P) delta_m
                   (a_phi P) (a_rot P) in
  let rsum := cabs1 (a_radius P) in
  let S := add N (add N (cabs1 start) (cabs1 end_)) (add N rsum (cabs1 (a_center P))) in
  let tol := mul N e9 S in
  (* forward error of the implementation's radical = sqrt(radicand): the radicand carries an
     absolute rounding error ~2^-49, so the radical ~2^-50/radical (capped at its square root) *)
  (* repaired radical rule: the decision `scaled or radicand <= 0` is within rounding when
     |radicand| <= 2^-46; the implementation's radical is then anything in [0, 2^-22] *)
  let rS := a_radius P in let z := arc_zp1_of N T start rot end_ in
  (* condition numbers of degenerate inputs (radii tiny against the chord, very flat ellipses):
     the half chord (x1', y1') in the rotated frame carries the absolute rounding error
     eta = 2^-49 |start - end|; hence u1, u2 carry eu, radius_check carries drc (relative to the
     given radii) / drcS (stored radii), the radicand drad *)
  let eta := mul N (bf_of 1 (-49)) (cabs1 (csub N start end_)) in
  let eu := add N (div N eta (fst rS)) (div N eta (snd rS)) in
  let r0 := abs_radius N radius in
  let rc0 := arc_rc_of N T start radius rot end_ in
  (* first order 2*eta*|x|/rx^2 plus second order eta^2/rx^2 (matters where x1' or y1' is ~0) *)
  let drc := mul N eta (add N (div N (add N (babs (fst z)) (add N (babs (fst z)) eta)) (mul N (fst r0) (fst r0)))
                              (div N (add N (babs (snd z)) (add N (babs (snd z)) eta)) (mul N (snd r0) (snd r0)))) in
  let drcS := mul N eta (add N (div N (add N (babs (fst z)) (add N (babs (fst z)) eta)) (mul N (fst rS) (fst rS)))
                               (div N (add N (babs (snd z)) (add N (babs (snd z)) eta)) (mul N (snd rS) (snd rS)))) in
  let rcS := arc_rc N rS z in
  let erad := add N (bf_of 1 (-48)) (div N drcS (mul N rcS rcS)) in
  let kc := if FX && bf_leb (babs radicand) (bf_of 1 (-46)) then bf_of 1 (-22)
            else if snapped then zero N else bmin (div N erad radical) (bf_sqrt erad) in
  let wabs := add N (babs (div N (mul N (fst rS) (snd z)) (snd rS)))
                    (babs (div N (mul N (snd rS) (fst z)) (fst rS))) in
  let euk := add N eu kc in
  let cth := add N (cond2 (snd u1) euk) euk in
  let cde := if snapped then add N euk euk
             else add N (cond2 (arc_det N u1 u2) (add N euk euk)) (add N euk euk) in
  let tol_th := add N (mul N e9 (bz 360)) (mul N (bz 58) cth) in
  let tol_de := add N (mul N e9 (bz 360)) (mul N (bz 58) cde) in
  let k1 := add N (bz 1) (babs (div N (mul N delta_m (pi_ T)) (bz 180))) in
  let tol_pt (t : bf) := add N tol (mul N rsum (add N cth (mul N (babs t) cde))) in
  let tol_d (t : bf) (n : nat) :=
      mul N (mul N rsum (bpow k1 n))
            (add N e9 (add N cth (mul N (add N (bz 1) (babs t)) cde))) in
  first_fail
   [ (* stored radii: |r| or sqrt(radius_check)*|r| — a few binary64 roundings, 1e-13 relative *)
     (bcclose (mul N rsum (add N (mul N e9 (bf_of 1 (-13))) (div N drc (bmax (bz 1) rc0)))) o_radius (a_radius P), 1);
     (bcclose (add N (add N tol (mul N wabs kc))
                     (mul N (mul N radical eta) (add N (div N (fst rS) (snd rS)) (div N (snd rS) (fst rS)))))
              o_center (a_center P), 2);
     (ang_close tol_th o_theta (a_theta P), 3);
     (bclose tol_de o_delta delta_m, 4);
     (forallb (fun s => let '(t, o_pt, _) := s in bcclose (tol_pt t) o_pt (arc_point N T Pm t)) samples, 5);
     (forallb (fun s => let '(t, _, o_der) := s in
         all2 (fun n o => bcclose (tol_d t n) o (oget (arc_deriv N T DFX Pm t (Z.of_nat n))))
              [1; 2; 3; 4; 5] o_der) samples, 6);
     (all2 (fun o m => all2 (bcclose (add N (tol_pt (bz 1)) (tol_pt (bz 1)))) o (c4list m))
           cub (arc_as_cubic_curves N T Pm 2), 7);
     (all2 (fun o m => all2 (bcclose (add N (tol_pt (bz 1)) (tol_pt (bz 1)))) o (q3list m))
           quad (arc_as_quad_curves N T Pm 2), 8);
     (* C04_on_ellipse evaluated on the implementation's own outputs: every observed
        point(t) is on the ellipse with the OBSERVED centre and radii (rotation matrix
        recomputed at 120 bits) *)
     (let Pobs := mkArcP start o_radius rot large sweep end_ o_center o_theta o_delta (a_phi P) (a_rot P) in
      let rmin := bmin (babs (fst o_radius)) (babs (snd o_radius)) in
      (* "within 1e-9*scale of the ellipse": with q = 1e-9*scale/min(radii) the residual of
         (x/rx)^2 + (y/ry)^2 - 1 may be 2q + q^2 *)
      let q := mul N e9 (bmax (bz 1) (div N S rmin)) in
      let tol_e := mul N q (add N (bz 2) q) in
      forallb (fun s => let '(_, o_pt, _) := s in
                 bclose tol_e (cnorm2 N (arc_u1transform N Pobs o_pt)) (bz 1)) samples, 9)
   ].
'''

OBS_NAMES = {1: 'stored radius (tolerance 1e-13 relative)', 2: 'center', 3: 'theta', 4: 'delta', 5: 'point(t)',
             6: 'derivative(t,n), n=1..5', 7: 'as_cubic_curves(2) control points',
             8: 'as_quad_curves(2) control points', 90: 'undecided (isclose threshold within rounding)',
             9: 'on-ellipse residual of the observed points w.r.t. the observed centre/radii',
             91: 'undecided (sign of u1.imag within rounding inside the snapped region)'}


def detect_variants():
    """which variant of the two repaired places does the implementation run?
    Behavioural probes; the answers select the model flags (FX, DFX), the variant agreement
    lemmas of GenAgree/ArcVariant.v and the classification of end-point errors."""
    from svgpathtools import Arc
    v = complex(Arc(1 + 0j, 1 + 1j, 0, 0, 1, -1 + 0j).derivative(0.5, 4))
    if abs(v - 1j) <= 1e-9:
        dfx = False
    elif abs(v - 1j * math.pi ** 4) <= 1e-6:
        dfx = True
    else:
        dfx = None
    a = Arc(0j, complex(1.000000004, 1), 0, True, False, complex(2, 2e-6))   # radicand = 8e-9
    fx = not (abs(a.delta) == 180)
    return fx, dfx


def observe(arc_in, ts):
    from svgpathtools import Arc
    s, r, rot, la, sw, e, _ = arc_in
    a = Arc(s, r, rot, la, sw, e)
    o = {'radius': complex(a.radius), 'center': complex(a.center), 'theta': float(a.theta),
         'delta': float(a.delta), 'rotm': complex(a.rot_matrix),
         'pts': [complex(a.point(t)) for t in ts],
         'der': [[complex(a.derivative(t, n)) for n in (1, 2, 3, 4, 5)] for t in ts]}
    o['cub'] = {k: [[complex(p) for p in c.bpoints()] for c in a.as_cubic_curves(k)] for k in (1, 2, 3, 5)}
    o['quad'] = {k: [[complex(p) for p in c.bpoints()] for c in a.as_quad_curves(k)] for k in (1, 2, 3, 5)}
    return a, o


def nonfinite(o):
    """names of the observed quantities that are not finite numbers"""
    bad = []
    fin = lambda z: math.isfinite(complex(z).real) and math.isfinite(complex(z).imag)
    for k in ('radius', 'center', 'theta', 'delta'):
        if not fin(o[k]):
            bad.append(k)
    if not all(fin(p) for p in o['pts']):
        bad.append('point(t)')
    if not all(fin(d) for ds in o['der'] for d in ds):
        bad.append('derivative(t,n)')
    for nm in ('cub', 'quad'):
        if not all(fin(p) for pieces in o[nm].values() for c in pieces for p in c):
            bad.append('as_%s_curves' % ('cubic' if nm == 'cub' else 'quad'))
    return bad


def case_term(arc_in, ts, o):
    s, r, rot, la, sw, e, _ = arc_in
    samples = ['(%s, %s, %s)' % (bf(t), cbf(p), coq_list([cbf(d) for d in ds]))
               for t, p, ds in zip(ts, o['pts'], o['der'])]
    return '(%s, %s, %s, %s, %s, %s, (%s, %s, %s, %s), %s, %s, %s)' % (
        cbf(s), cbf(r), bf(rot), coq_bool(la), coq_bool(sw), cbf(e),
        cbf(o['radius']), cbf(o['center']), bf(o['theta']), bf(o['delta']),
        coq_list(samples),
        coq_list([coq_list([cbf(p) for p in c]) for c in o['cub'][2]]),
        coq_list([coq_list([cbf(p) for p in c]) for c in o['quad'][2]]))


# -------------------------------------------- implementation-level predicate
def cfr(z):
    return Fr(z.real), Fr(z.imag)


def exact_frame(arc_in, o):
    """exact rational geometry from the inputs, the stored rot_matrix (floats
    taken as exact rationals) and the stored radii"""
    s, r, rot, la, sw, e, _ = arc_in
    c, sn = cfr(o['rotm'])
    n2 = c * c + sn * sn
    dx, dy = (Fr(s.real) - Fr(e.real)) / 2, (Fr(s.imag) - Fr(e.imag)) / 2
    x1 = (c * dx + sn * dy) / n2
    y1 = (c * dy - sn * dx) / n2
    rx0, ry0 = abs(Fr(r.real)), abs(Fr(r.imag))
    rc = x1 * x1 / (rx0 * rx0) + y1 * y1 / (ry0 * ry0)
    rx, ry = cfr(o['radius'])
    tmp = rx * rx * y1 * y1 + ry * ry * x1 * x1
    radicand = (rx * rx * ry * ry - tmp) / tmp
    rcS = x1 * x1 / (rx * rx) + y1 * y1 / (ry * ry)
    return {'c': c, 's': sn, 'n2': n2, 'x1': x1, 'y1': y1, 'rc': rc, 'rx': rx, 'ry': ry,
            'radicand': radicand, 'rcS': rcS, 'rx0': rx0, 'ry0': ry0}


def fd_weights(x0, xs, m):
    """Fornberg finite-difference weights for the m-th derivative at x0"""
    n = len(xs)
    c = [[0.0] * (m + 1) for _ in range(n)]
    c1, c4 = 1.0, xs[0] - x0
    c[0][0] = 1.0
    for i in range(1, n):
        mn = min(i, m)
        c2, c5, c4 = 1.0, c4, xs[i] - x0
        for j in range(i):
            c3 = xs[i] - xs[j]
            c2 *= c3
            if j == i - 1:
                for k in range(mn, 0, -1):
                    c[i][k] = c1 * (k * c[i - 1][k - 1] - c5 * c[i - 1][k]) / c2
                c[i][0] = -c1 * c5 * c[i - 1][0] / c2
            for k in range(mn, 0, -1):
                c[j][k] = (c4 * c[j][k] - k * c[j][k - 1]) / c3
            c[j][0] = c4 * c[j][0] / c3
        c1 = c2
    return [c[i][m] for i in range(n)]


def ff(q):
    """float of a Fraction/float, saturating instead of raising OverflowError"""
    try:
        return float(q)
    except OverflowError:
        return math.inf if q > 0 else -math.inf


def fsqrt(q):
    """sqrt of a positive Fraction to ~1e-30 relative (Newton on integers)"""
    sc = 10 ** 60
    return Fr(math.isqrt(int(q * sc)), 10 ** 30)


def scaling_clause(arc_in, o, ex=None):
    """'radii are enlarged by exactly the minimal factor when no ellipse fits and are otherwise
    unchanged', on the implementation, in exact rational arithmetic: radius_check from the inputs
    and the stored rot_matrix; stored radii must be sqrt(radius_check)*|r| to 1e-13 relative when
    radius_check > 1 + 1e-13, and |r| itself when radius_check < 1 - 1e-13."""
    bad = []
    if not (math.isfinite(o['radius'].real) and math.isfinite(o['radius'].imag)):
        return [('scaling', 'stored radius is not finite', {'stored': str(o['radius'])})]
    if ex is None:
        ex = exact_frame(arc_in, o)
    rc = ex['rc']
    rx, ry = ex['rx'], ex['ry']
    # conditioning: the half chord (x1', y1') is computed with absolute rounding error
    # eta = 2^-49*|start - end|, so radius_check with 2*eta*(|x1'|/rx^2 + |y1'|/ry^2)
    eta = Fr(abs(arc_in[0].real - arc_in[5].real) + abs(arc_in[0].imag - arc_in[5].imag)) / 2 ** 49
    drc = eta * ((2 * abs(ex['x1']) + eta) / ex['rx0'] ** 2 + (2 * abs(ex['y1']) + eta) / ex['ry0'] ** 2)
    tolr = Fr(1, 10 ** 13) + drc / max(rc, 1)
    if rc > 1 + tolr:
        lam = fsqrt(rc)
        wx, wy = lam * ex['rx0'], lam * ex['ry0']
        if not (abs(rx - wx) <= wx * tolr and abs(ry - wy) <= wy * tolr):
            bad.append(('scaling', 'no ellipse fits (radius_check = 1 + %.3g) but the stored radii %r are not the '
                        'given radii enlarged by the minimal factor sqrt(radius_check) = 1 + %.3g (expected %r)'
                        % (ff(rc - 1), (ff(rx), ff(ry)), ff(lam - 1), (ff(wx), ff(wy))),
                        {'radius_check_minus_1': ff(rc - 1), 'stored': [ff(rx), ff(ry)],
                         'want': [ff(wx), ff(wy)]}))
    elif rc < 1 - tolr:
        if not (rx == ex['rx0'] and ry == ex['ry0']):
            bad.append(('scaling', 'radii changed although an ellipse fits (radius_check = 1 - %.3g)' % ff(1 - rc),
                        {'radius_check_minus_1': ff(rc - 1), 'stored': [ff(rx), ff(ry)]}))
    return bad


def holds_impl(arc_in, a, o, ts, fx=False):
    """the property statement on the implementation; returns list of (key, what, detail)"""
    bad = []
    s, r, rot, la, sw, e, _ = arc_in
    ex = exact_frame(arc_in, o)
    rx, ry = ff(ex['rx']), ff(ex['ry'])
    scale = abs(s) + abs(e) + rx + ry + abs(o['center'])
    radicand = ff(ex['radicand'])
    # --- end points
    p0, p1 = complex(a.point(0)), complex(a.point(1))
    err = max(abs(p0 - s), abs(p1 - e))
    if not err <= 1e-9 * scale:
        # classify: snapped region / acos conditioning at an axis extreme / other
        u1x = ff((ex['x1']) / ex['rx'])
        if fx:
            snapped_region = False
        else:
            snapped_region = True
        if snapped_region and 0 < radicand <= 1e-13:
            key = 'snap-endpoint-error-tiny-radicand'
            why = ('radicand = %.3g > 0 (rounding level) is snapped to 0 while start/end sit at an axis extreme of '
                   'the ellipse, where the centre moves like sqrt(radicand)' % radicand)
        elif snapped_region and 1e-13 < radicand <= 1.0000001e-8:
            key = 'snap-endpoint-error'
            why = ('0 < radicand = %.3g <= 1e-8 is snapped to 0 by np.isclose: the centre is put at the chord '
                   'midpoint, point(0)/point(1) miss start/end' % radicand)
        elif min(abs(math.sin(math.radians(o['theta']))),
                 abs(math.sin(math.radians(o['theta'] + o['delta'])))) < 1e-5:
            key = 'endpoint-acos-conditioning'
            why = ('start or end sits within 1e-5 rad of an axis extreme of the ellipse (theta = %r, delta = %r): '
                   'theta/delta come from acos of a value within rounding of +-1, which loses half the digits'
                   % (o['theta'], o['delta']))
        else:
            key = 'endpoint-error'
            why = 'radicand = %.3g' % radicand
        bad.append((key, 'point(0)=start / point(1)=end fails by %.3g (> 1e-9*scale = %.3g); %s'
                    % (err, 1e-9 * scale, why), {'err': err, 'scale': scale, 'radicand': radicand}))
    # --- on the ellipse with the stored centre, radii, rotation (exact rational residual)
    cx, cy = cfr(o['center'])
    worst = 0.0
    for p in o['pts']:
        px, py = cfr(p)
        zx = (ex['c'] * (px - cx) + ex['s'] * (py - cy)) / ex['n2']
        zy = (ex['c'] * (py - cy) - ex['s'] * (px - cx)) / ex['n2']
        res = abs(ff((zx / ex['rx']) ** 2 + (zy / ex['ry']) ** 2 - 1))
        worst = max(worst, res)
    q = 1e-9 * max(1.0, scale / min(rx, ry))        # within 1e-9*scale of the ellipse
    if not worst <= q * (2 + q):
        bad.append(('off-ellipse', 'a point(t) is off the stored ellipse: residual %.3g' % worst, {'residual': worst}))
    # --- minimal scaling
    bad += scaling_clause(arc_in, o, ex)
    rc = ff(ex['rc'])
    # --- flags
    d = o['delta']
    if not (d != 0 and (d > 0) == bool(sw) and abs(d) <= 360):
        bad.append(('sweep-flag', 'delta = %r does not have the sign selected by sweep=%r / exceeds 360' % (d, sw),
                    {'delta': d}))
    if abs(abs(d) - 180) > 1e-6 and (abs(d) > 180) != bool(la):
        bad.append(('large-flag', '|delta| = %r versus large_arc=%r' % (abs(d), la), {'delta': d}))
    if radicand > (1e-12 if fx else 1.001e-8) and abs(d) == 180 and rc < 1 - 1e-7:
        bad.append(('large-flag', 'half ellipse although radicand = %.3g > 1e-8' % radicand, {'delta': d}))
    # --- derivative(t, n) against finite differences of point (9-point stencil)
    h = 2.0 ** -5
    kk = abs(d) * math.pi / 180
    for t in ts[2:5]:
        xs = [t + j * h for j in range(-4, 5)]
        ps = [complex(a.point(x)) for x in xs]
        for n in (1, 2, 3, 4, 5):
            w = fd_weights(t, xs, n)
            fdv = sum(wi * pi for wi, pi in zip(w, ps))
            dv = complex(a.derivative(t, n))
            tolf = 2e-2 * (rx + ry) * max(1.0, kk) ** n + 1e-6 * scale
            if not abs(fdv - dv) <= tolf:
                key = 'deriv-n-mod4-eq0-missing-chain-factor' if n % 4 == 0 else 'deriv-fd-n%d' % n
                bad.append((key, 'derivative(t=%r, n=%d) = %r but finite differences of point give %r'
                            % (t, n, dv, fdv), {'t': t, 'n': n, 'deriv': str(dv), 'fd': str(fdv),
                                                'k^n': kk ** n}))
                break
        else:
            continue
        break
    # --- approximations: chained from start to end, exactly
    for name, dd in (('cubic', o['cub']), ('quad', o['quad'])):
        for k, pieces in dd.items():
            okc = (len(pieces) == k and pieces[0][0] == s and pieces[-1][-1] == e and
                   all(pieces[i][-1] == pieces[i + 1][0] for i in range(k - 1)))
            if not okc:
                bad.append(('approx-ends-' + name, 'as_%s_curves(%d) is not a chain from start to end' % (name, k),
                            {'pieces': [[str(p) for p in c] for c in pieces]}))
    return bad


def sq_underflow(arc_in):
    """a radius component so small that the code's intermediate squares leave the binary64
    range: rx*rx / ry*ry subnormal or 0 (|r| < 1.5e-154), or (x1'/rx)^2 resp. (y1'/ry)^2
    above 1.8e308 (|chord|/|r| > ~1e154)"""
    r = arc_in[1]
    m = min(abs(r.real), abs(r.imag))
    ch = abs(arc_in[0] - arc_in[5])
    big = max(abs(r.real), abs(r.imag), 1.0)
    # ... or the enlarged radii sqrt(radius_check)*|r| ~ (|chord|/m)*|r| exceed ~1e154, whose square overflows
    return m < 1.5e-154 or ch / m * big > 1e152


def arc_json(arc_in):
    s, r, rot, la, sw, e, fam = arc_in
    return {'start': common.chex(s), 'radius': common.chex(r), 'rotation': common.fhex(rot),
            'large_arc': bool(la), 'sweep': bool(sw), 'end': common.chex(e), 'family': fam,
            'python': 'Arc(%r, %r, %r, %r, %r, %r)' % (s, r, rot, bool(la), bool(sw), e)}


def run(rep, tier, seed, replay=None):
    warnings.simplefilter('ignore')
    rng = common.mkrng(seed, 'C04')
    with common.Scratch() as tmp:
        info = common.std_static(rep, 'C04', GEN_GROUPS, AGREE, tmp)
        fx, dfx = detect_variants()
        rep.cov['implementation_variants'] = {
            'radical_rule': 'repaired (0 iff scaled or radicand <= 0)' if fx else 'pinned (np.isclose snap)',
            'derivative_mod4_eq0': {False: 'pinned (no chain factor)', True: 'repaired (factor k)',
                                    None: 'NEITHER modelled variant'}[dfx]}
        if dfx is None:
            rep.violation('Arc.derivative(t, 4) is neither the pinned nor the repaired variant of the model',
                          {'kind': 'variant', 'probe': 'Arc(1,1+1j,0,0,1,-1).derivative(0.5,4)'},
                          found_input=False, key='deriv-variant-unknown')
            dfx = False
        # derivative at n = 4, 8 against the detected variant (GenAgree/ArcVariant.v)
        other = 'pinned' if dfx else 'fixed'
        skipv = set(info['untranslated'].keys()) | {'gen_Arc_derivative_%d_%s' % (k, other) for k in (4, 8)}
        if 'gen_Arc_derivative_4' in info['untranslated']: skipv.add('gen_Arc_derivative_4_' + ('fixed' if dfx else 'pinned'))
        if 'gen_Arc_derivative_8' in info['untranslated']: skipv.add('gen_Arc_derivative_8_' + ('fixed' if dfx else 'pinned'))
        va = common.run_agree('ArcVariant.v', tmp, skip=skipv)
        rep.cov['obligations'] += len(va)
        for name, (aok, msg) in sorted(va.items()):
            if aok:
                rep.cov['discharged'] += 1
            else:
                info['agree_failed'].append(name)
                info.setdefault('agree_msgs', {})[name] = msg
        rep.cov['agreement_lemmas']['checked'] += len(va)
        rep.cov['agreement_lemmas']['failed'] = info['agree_failed']
        n = 300 if tier == 'quick' else 5000
        # derivative with a symbolic n is known to be outside the
        # translator subset; only a lost tie for point/derivative_k promotes the budget
        lost = [k for k in info['untranslated'] if k not in ('gen_Arc_derivative',)]
        if info['agree_failed'] or lost:
            n *= 4
        if replay:
            r = json.load(open(replay))['replay']['arc']
            cx = lambda p: complex(float.fromhex(p[0]), float.fromhex(p[1]))
            todo = [(cx(r['start']), cx(r['radius']), float.fromhex(r['rotation']), r['large_arc'],
                     r['sweep'], cx(r['end']), 'replay')]
        else:
            todo = list(CORPUS) + [gen_arc(rng, i) for i in range(n)]
        cases, meta, fams = [], [], {}
        nontrivial = set()
        found = {}          # key -> [count, first (what, replay)]
        n_nonfinite = 0
        n_raised = 0
        for arc_in in todo:
            fam = arc_in[6]
            fams[fam] = fams.get(fam, 0) + 1
            ts = FIXED_T + [rng.random(), rng.random()]
            try:
                a, o = observe(arc_in, ts)
            except Exception as ex:
                # the inputs are admissible by construction (start != end, both radii non-zero)
                key = 'arc-constructor-rejects-admissible'
                if key not in found:
                    found[key] = [0, 'Arc(...) raised %s on an admissible input (start != end, radii %r non-zero)'
                                  % (type(ex).__name__, arc_in[1]),
                                  {'kind': 'exception', 'arc': arc_json(arc_in), 'error': repr(ex),
                                   'how': './check C04 --replay <this file>'}]
                found[key][0] += 1
                n_raised += 1
                continue
            nontrivial.add((arc_in[0], arc_in[1], arc_in[2], arc_in[5]))
            nf = nonfinite(o)
            if nf:
                # never skipped: an admissible arc with nan/inf geometry violates every clause
                n_nonfinite += 1
                exq = exact_frame(arc_in, dict(o, radius=complex(abs(arc_in[1].real), abs(arc_in[1].imag))))
                key = 'non-finite-geometry'
                if sq_underflow(arc_in):
                    key = 'tiny-radius-float-range'
                if key not in found:
                    found[key] = [0, 'non-finite %s on an admissible arc (%sradius_check = 1 + %.3g, stored radius %r, '
                                  'center %r)' % ('/'.join(nf),
                                                  'a radius component so small (< 1.5e-154, or < 1e-153*|chord|) that rx*rx or (x1p/rx)**2 leaves the binary64 range; '
                                                  if sq_underflow(arc_in) else '',
                                                  ff(exq['rc'] - 1), o['radius'], o['center']),
                                  {'kind': 'property', 'arc': arc_json(arc_in),
                                   'detail': {'nonfinite': nf, 'radius_check_minus_1': ff(exq['rc'] - 1),
                                              'radius': str(o['radius']), 'center': str(o['center'])},
                                   'how': './check C04 --replay <this file>'}]
                found[key][0] += 1
                for key, what, detail in scaling_clause(arc_in, o):
                    if sq_underflow(arc_in):
                        key = 'tiny-radius-float-range'
                    if key not in found:
                        found[key] = [0, what, {'kind': 'property', 'arc': arc_json(arc_in), 'detail': detail,
                                                'how': './check C04 --replay <this file>'}]
                    found[key][0] += 1
                continue
            cases.append(case_term(arc_in, ts, o))
            meta.append((arc_in, ts, o))
            for key, what, detail in holds_impl(arc_in, a, o, ts, fx):
                if sq_underflow(arc_in) and not key.startswith('deriv'):
                    key = 'tiny-radius-float-range'
                    what = 'a radius component so small that rx*rx or (x1p/rx)**2 leaves the binary64 range: ' + what
                if key not in found:
                    found[key] = [0, what, {'kind': 'property', 'arc': arc_json(arc_in), 'detail': detail,
                                            'how': './check C04 --replay <this file>'}]
                found[key][0] += 1
        for key, (cnt, what, rp) in sorted(found.items()):
            rp['cases_in_this_run'] = cnt
            rep.violation('C04: %s  [%d arc(s) of this run]' % (what, cnt), rp, key=key)
        okdef = OKDEF.replace('__FX__', coq_bool(fx)).replace('__DFX__', coq_bool(dfx))
        fails, errors = common.run_cases(tmp, 'From SVP Require Import Base.BigF.\n', 'casety', okdef, cases,
                                         shard=max(8, (len(cases) + 15) // 16) if len(cases) < 800 else 60,
                                         timeout=1500)
        for er in errors:
            rep.violation('correspondence case file failed to evaluate', {'kind': 'cases', 'error': er},
                          found_input=False, key='cases-error')
        undecided = [i for i, c in fails if c in (90, 91)]
        real = [(i, c) for i, c in fails if c not in (90, 91)]
        seen_codes = {}
        for idx, code in real:
            arc_in, ts, o = meta[idx]
            seen_codes[code] = seen_codes.get(code, 0) + 1
            if seen_codes[code] > 2:
                continue
            rep.violation('C04: %s of the implementation disagrees with the model beyond 1e-9*scale'
                          % OBS_NAMES.get(code, code),
                          {'kind': 'correspondence', 'observation': OBS_NAMES.get(code, str(code)),
                           'arc': arc_json(arc_in),
                           'observed': {'radius': str(o['radius']), 'center': str(o['center']),
                                        'theta': o['theta'], 'delta': o['delta']},
                           'how': './check C04 --replay <this file>'},
                          key='tiny-radius-float-range' if sq_underflow(arc_in) else 'corr-%d' % code)
        ncmp = 4 + 9 + 45 + 8 + 6 + 9
        rep.cov['evaluations'] = (len(cases) - len(undecided)) * ncmp
        rep.cov['traces_validated_against_impl'] = len(cases) - len(undecided)
        rep.cov['skipped_undecided'] = len(undecided)
        rep.cov['nonfinite_reported'] = n_nonfinite
        rep.cov['constructor_exceptions_reported'] = n_raised
        rep.cov['distinct_nontrivial'] = len(nontrivial)
        rep.cov['rule'] = ('arcs from the families %s (start/end in +-1e3; radii far too small, exactly fitting from '
                           'Pythagorean points, ample, negative-signed, eccentricity to 1e3, radicand around the 1e-8 '
                           'snap threshold; rotations {0,+-90,180,270,360,725,random}; the 4 flag pairs cycled); '
                           'non-trivial = distinct (start, radius, rotation, end); per arc %d observations compared inside '
                           'Coq with the model in 120-bit bigfloats (tolerance 1e-9*scale plus the stated acos forward-error '
                           'term), cases whose isclose decision is within 2^-13 relative of the threshold are skipped and '
                           'counted; plus the property itself on the implementation') % (sorted(fams), ncmp)
        rep.cov['input_distribution'] = fams
        rep.cov['samples'] = [{'arc': arc_json(m[0])['python'], 'center': str(m[2]['center']),
                               'theta': m[2]['theta'], 'delta': m[2]['delta']} for m in meta[7:10]]
        rep.cov['property_violation_classes'] = {k: v[0] for k, v in found.items()}
        if info['agree_failed'] and not rep.violations:
            rep.violation('agreement lemma(s) %s no longer check: generated code differs from the model'
                          % info['agree_failed'],
                          {'kind': 'agreement', 'lemmas': info['agree_failed'],
                           'file': 'coq/GenAgree/Arc.v, coq/GenAgree/ArcVariant.v',
                           'messages': info.get('agree_msgs', {})},
                          found_input=False, key='agree')
    rep.assumptions += ['libm cos/sin/acos/sqrt are oracles (binary64, <= 2 ulp, sampled)',
                        'np.isclose / np.clip modelled by their documented formulas',
                        'bigfloat (120-bit, Interval library) evaluation of the model is accurate to ~1e-30 relative '
                        '(unverified enclosure)',
                        'acos forward error of the implementation bounded by min(2^-46/sqrt(1-x^2), 2^-23) rad',
                        'autoscale_radius=True (default) only',
                        'the variant flags (FX, DFX) of the model are chosen by behavioural probes of the implementation; '
                        'a wrong choice shows up as correspondence / variant-agreement failures']
