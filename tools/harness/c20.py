"""C20 — smoothed_path removes kinks without moving the path.
Theorems: coq/Props/C20.v (models coq/Model/Smooth.v).
Ties: translator (GenSmooth + GenAgree/Smooth.v: isclose, Line.unit_tangent,
Line.length; smoothed_joint / smoothed_path are outside the subset) and the
correspondence check below: the hand model is executed INSIDE Coq in 120-bit
bigfloats (NumB / NumTB) on the implementation's exact inputs — the joint
procedure on line-line / line-curve / curve-line / curve-curve pairs and the
whole smoothed_path loop (open and closed paths) — and compared with the
control points the implementation returned.  The oracles of the model
(CubicBezier.length, ilength, the singular branch of unit_tangent) are
instantiated with the values the implementation itself obtained (recorded by
wrapping the methods from this process); cropped is the model's de Casteljau.
The property itself is evaluated on the implementation's output
(holds_impl): continuity, kinks(out) == [], independently computed unit
tangents at every joint, end points / closedness, distance to the input path,
untouched smooth joints, single-segment paths."""
import math, cmath, warnings, signal, json, time, os
import common
from common import bf, cbf, coq_list

GEN_GROUPS = ['GenSmooth']
AGREE = ['Smooth.v']

TIME_LIMIT = 20.0          # wall-clock guard per smoothed_path / smoothed_joint call (s)
DIST_SLACK = 1e-9
TAN_TOL = 1e-6          # |u - v| of the independently computed unit tangents at an output joint


# ------------------------------------------------------------------ geometry
def rot(z, deg):
    return z * cmath.exp(1j * math.radians(deg))


def unit(z):
    return z / abs(z)


def true_tangent(seg, at_end):
    """unit tangent from the control points (first non-vanishing difference);
    independent of the library's unit_tangent"""
    from svgpathtools import Line
    bp = list(seg.bpoints())
    if at_end:
        bp = bp[::-1]
    scale = max(abs(p) for p in bp) + 1.0
    for p in bp[1:]:
        d = p - bp[0]
        if abs(d) > 1e-13 * scale:
            return unit(-d) if at_end else unit(d)
    return None


def tangent_conditioning(seg, at_end):
    """8 ulp(M)/|d| for the control-point difference d that true_tangent uses (M = largest |coordinate|)"""
    import math
    bp = list(seg.bpoints())
    if at_end:
        bp = bp[::-1]
    scale = max(abs(p) for p in bp) + 1.0
    for p in bp[1:]:
        d = p - bp[0]
        if abs(d) > 1e-13 * scale:
            return 8 * math.ulp(max(abs(q) for q in bp)) / abs(d)
    return 0.0


def is_singular(seg):
    from svgpathtools import CubicBezier
    return isinstance(seg, CubicBezier) and (seg.control1 == seg.start or seg.control2 == seg.end)


def near_singular(seg):
    """an end derivative that is zero up to rounding (cropped pieces of S-type cubics)"""
    from svgpathtools import CubicBezier
    if not isinstance(seg, CubicBezier):
        return False
    sc = 1e-9 * (1.0 + max(abs(p) for p in seg.bpoints()))
    return abs(seg.control1 - seg.start) <= sc or abs(seg.control2 - seg.end) <= sc


# ---------------------------------------------------------------- generators
# smoothed_path calls a joint smooth when |u - v| < 1e-8 + 1e-5|v| (turn below
# ~1.0e-5 rad = 0.000574 deg) and a reversal when |-u - v| is that small;
# kinks() reports a joint when |u.v - 1| > 1e-8 (turn above ~1.41e-4 rad = 0.0081 deg).
def logu(rng, lo, hi):
    return 10 ** rng.uniform(math.log10(lo), math.log10(hi))


def pick_angle(rng, profile):
    """corner angle in degrees; 0.0 = exactly smooth"""
    r = rng.random()
    if profile == 'threshold':
        # both sides of the code's own smooth / kink / reversal thresholds (never within 10% of them)
        k = rng.choice(['sub', 'above', 'rev-sub', 'rev-above', 'rev-exact'])
        if k == 'sub': return logu(rng, 1e-4, 5e-4)
        if k == 'above': return logu(rng, 6.5e-4, 5e-3)
        if k == 'rev-sub': return 180.0 - logu(rng, 1e-4, 5e-4)
        if k == 'rev-above': return 180.0 - logu(rng, 6.5e-4, 5e-3)
        return 180.0
    if profile == 'shallow':
        if r < 0.15: return 0.0
        if r < 0.70: return logu(rng, 0.005, 0.5)
        if r < 0.85: return 180.0 - logu(rng, 0.01, 0.5)
        return rng.uniform(1.0, 179.0)
    if r < 0.18: return 0.0
    if r < 0.27: return rng.choice([1.0, 2.0, 5.0, 175.0, 178.0, 179.0, 90.0, 45.0, 135.0])
    if r < 0.39: return logu(rng, 0.005, 0.5)           # shallow corners
    if r < 0.45: return 180.0 - logu(rng, 0.01, 0.5)    # near-reversals 179.5 .. 179.99
    return rng.uniform(1.0, 179.0)


def gen_path(rng, mj, closed, kinds='mixed', nseg=None, singular=False, profile='std', origin=0j):
    """heading walk: every joint is either exactly smooth or has a corner angle
    in [0.005,179.99] degrees (shallow corners and near-reversals included);
    profile 'threshold' straddles the code's own classification thresholds;
    segment sizes 0.1 .. 100 x maxjointsize"""
    from svgpathtools import Line, CubicBezier
    n = nseg or rng.choice([2, 2, 3, 3, 4, 5, 6, 7])
    if closed and n < 3:
        n = 3
    for attempt in range(200):
        p = origin + complex(rng.uniform(-50, 50), rng.uniform(-50, 50))
        if rng.random() < 0.3:
            p = complex(round(p.real), round(p.imag))
        h = cmath.exp(1j * rng.uniform(0, 2 * math.pi))
        segs, angles = [], []
        start_pt, start_dir = p, None
        ok = True
        for i in range(n):
            last = (i == n - 1)
            is_line = {'lines': True, 'cubics': False}.get(kinds, rng.random() < 0.5)
            if i == 0:
                ang = None
                d0 = h
            else:
                ang = pick_angle(rng, profile)
                d0 = rot(h, ang * rng.choice([-1, 1])) if ang else h
            L = mj * 10 ** rng.uniform(-1, 2)
            if closed and last:
                # close the path: the end point and (for a cubic) the end tangent are forced
                q = start_pt
                chord = q - p
                if abs(chord) < 0.05 * mj or abs(chord) > 300 * mj:
                    ok = False
                    break
                if is_line:
                    seg = Line(p, q)
                    if i > 0:
                        ang = math.degrees(abs(cmath.phase(unit(chord) / h)))
                    a_close = math.degrees(abs(cmath.phase(start_dir / unit(chord))))
                    d1 = unit(chord)
                else:
                    a_close = pick_angle(rng, profile)
                    d1 = rot(start_dir, -a_close * rng.choice([-1, 1])) if a_close else start_dir
                    Lc = abs(chord)
                    seg = CubicBezier(p, p + rng.uniform(0.2, 0.5) * Lc * d0,
                                      q - rng.uniform(0.2, 0.5) * Lc * d1, q)
                    if a_close == 0.0:
                        # exactly collinear control point for an exactly smooth closing joint
                        seg = CubicBezier(seg.start, seg.control1,
                                          q - rng.uniform(0.2, 0.5) * Lc * true_tangent(segs[0], False), q)
                angles.append(ang)
                angles.append(a_close)
                segs.append(seg)
                break
            if is_line:
                q = p + L * d0
                seg = Line(p, q)
                d1 = d0
            else:
                phi0, phi1 = rng.uniform(-40, 40), rng.uniform(-40, 40)
                chord = rot(d0, -phi0)
                q = p + L * chord
                d1 = rot(chord, phi1)
                c1 = p + rng.uniform(0.2, 0.5) * L * d0
                c2 = q - rng.uniform(0.2, 0.5) * L * d1
                if singular and rng.random() < 0.6:
                    if rng.random() < 0.5:
                        c1 = p              # S-type: coincident first control point
                    else:
                        c2 = q
                seg = CubicBezier(p, c1, c2, q)
            if i > 0 and ang == 0.0:
                # make the joint exactly smooth w.r.t. the true tangents
                tprev = true_tangent(segs[-1], True)
                if isinstance(seg, Line):
                    seg = Line(p, p + L * tprev); q = seg.end; d1 = tprev
                else:
                    if seg.control1 != seg.start:
                        seg = CubicBezier(p, p + abs(seg.control1 - p) * tprev, seg.control2, seg.end)
            if i == 0:
                start_dir = true_tangent(seg, False)
            angles.append(ang)
            segs.append(seg)
            tq = true_tangent(seg, True)
            if tq is None:
                ok = False
                break
            h = tq
            p = seg.end
        if not ok:
            continue
        # measure the joint angles actually realised (true tangents) and keep
        # only paths inside the property's domain
        real = joint_angles(segs, closed)
        if any(a is None for a in real):
            continue
        if profile == 'threshold' or all((a < 1e-9) or (0.004 <= a <= 179.995) for a in real):
            return segs, real
    raise RuntimeError('generator could not build a path')


def joint_angles(segs, closed):
    out = []
    n = len(segs)
    rng_ = range(n) if closed else range(n - 1)
    for i in rng_:
        u = true_tangent(segs[i], True)
        v = true_tangent(segs[(i + 1) % n], False)
        if u is None or v is None:
            out.append(None)
            continue
        a = math.degrees(abs(cmath.phase(v / u)))      # accurate for tiny turns and near-reversals
        if abs(u - v) < 1e-12:
            a = 0.0
        out.append(a)
    return out


def gen_params(rng):
    r = rng.random()
    if r < 0.25:
        mj = 3.0
    elif r < 0.5:
        mj = rng.choice([0.5, 1.0, 2.0, 10.0, 50.0])
    else:
        mj = 10 ** rng.uniform(-0.5, 1.5)
    r = rng.random()
    if r < 0.3:
        tight = 1.99
    elif r < 0.4:
        tight = rng.choice([0.01, 0.5, 1.0, 1.5, 1.9, 1.999])
    else:
        tight = rng.uniform(0.02, 1.98)
    return mj, tight


def gen_near_closed(rng, mj):
    """an OPEN path that nearly closes: a closed path whose last end point is
    moved off the start by a gap of 1e-9 .. 1e-3 relative to the coordinates
    (near the origin: absolute), near and far from the origin; the phantom
    closing joint is a corner or smooth"""
    from svgpathtools import Line, CubicBezier
    for attempt in range(100):
        where = rng.choice(['origin', 'near', 'far', 'farther'])
        origin = {'origin': 0j, 'near': 0j, 'far': complex(rng.uniform(80, 400), rng.uniform(80, 400)),
                  'farther': 1e4 * cmath.exp(1j * rng.uniform(0, 2 * math.pi))}[where]
        kinds = rng.choice(['mixed', 'lines', 'cubics'])
        segs, _ = gen_path(rng, mj, True, kinds, nseg=rng.choice([3, 3, 4, 5]), origin=origin)
        if where == 'origin':
            # start exactly at / very near the origin
            z0 = segs[0].start - complex(rng.uniform(-1e-3, 1e-3), rng.uniform(-1e-3, 1e-3)) * rng.choice([0, 1])
            segs = [type(s)(*[pt - z0 for pt in s.bpoints()]) for s in segs]
            if not all(segs[i].end == segs[i + 1].start for i in range(len(segs) - 1)):
                continue
        start = segs[0].start
        scale = max(1.0, abs(start))
        gap = scale * 10 ** rng.uniform(-9, -3)
        delta = gap * cmath.exp(1j * rng.uniform(0, 2 * math.pi))
        last = segs[-1]
        if isinstance(last, Line):
            last = Line(last.start, last.end + delta)
        else:
            last = CubicBezier(last.start, last.control1, last.control2 + delta, last.end + delta)
        segs = segs[:-1] + [last]
        if segs[-1].end == start:
            continue
        real = joint_angles(segs, False)
        if any(a is None for a in real) or not all((a < 1e-9) or (0.004 <= a <= 179.995) for a in real):
            continue
        return segs, real, where, gap / scale
    raise RuntimeError('generator could not build a nearly closed path')


def gen_scurve_path(rng, mj):
    """a point-symmetric S cubic (P0 + P3 = P1 + P2: point(0.5) is the chord
    midpoint) or a self-crossing loop cubic, a corner, then a cubic or a line;
    sizes 12 .. 35 x maxjointsize so that a mis-measured length shows"""
    from svgpathtools import Line, CubicBezier
    p = complex(rng.uniform(-50, 50), rng.uniform(-50, 50))
    d = cmath.exp(1j * rng.uniform(0, 2 * math.pi))
    L = mj * rng.uniform(12, 35)
    q = p + L * d
    shape = rng.choice(['S', 'S', 'loop'])
    if shape == 'S':
        w = L * rng.uniform(1.0, 1.4) * rot(d, rng.uniform(60, 85) * rng.choice([-1, 1]))
        first = CubicBezier(p, p + w, q - w, q)
    else:
        n_ = rot(d, 90) * rng.choice([-1, 1])
        first = CubicBezier(p, p + L * (rng.uniform(1.5, 2.0) * d + rng.uniform(0.5, 1.0) * n_),
                            q + L * (-rng.uniform(1.5, 2.0) * d + rng.uniform(0.5, 1.0) * n_), q)
    h = true_tangent(first, True)
    d0 = rot(h, rng.uniform(20, 150) * rng.choice([-1, 1]))
    L2 = mj * rng.uniform(3, 30)
    if rng.random() < 0.7:
        chord = rot(d0, -rng.uniform(-40, 40))
        e = q + L2 * chord
        second = CubicBezier(q, q + 0.35 * L2 * d0, e - 0.35 * L2 * rot(chord, rng.uniform(-40, 40)), e)
    else:
        second = Line(q, q + L2 * d0)
    segs = [first, second]
    if rng.random() < 0.4:
        d_in = rot(true_tangent(first, False), rng.uniform(20, 150) * rng.choice([-1, 1]))
        segs = [Line(p - mj * rng.uniform(3, 30) * d_in, p)] + segs
    return segs, shape


def gen_singular_joint(rng, mj):
    """Line + S-type cubic (first control point = start), or the mirror image
    (last control point = end) + Line; the cubic leaves / reaches the joint
    along tau, whose direction covers all four quadrants"""
    from svgpathtools import Line, CubicBezier
    q = complex(rng.uniform(-50, 50), rng.uniform(-50, 50))
    tau = cmath.exp(1j * rng.uniform(0, 2 * math.pi))
    ang = rng.uniform(1.0, 179.0) * rng.choice([-1, 1])
    L0, L1 = mj * 10 ** rng.uniform(-0.5, 1.5), mj * 10 ** rng.uniform(-0.5, 1.5)
    d_in = rot(tau, -ang)                      # direction of travel before the joint
    far = q + L1 * rot(tau, rng.uniform(-30, 30))
    cub = CubicBezier(q, q, q + 0.4 * L1 * tau, far)      # leaves q along tau
    line = Line(q - L0 * d_in, q)
    if rng.random() < 0.5:
        return [line, cub], tau, 'LC'
    # mirror: cubic arrives at q along -tau reversed, i.e. reversed orientation
    return [cub.reversed(), line.reversed()], tau, 'CL'


# -------------------------------------------------------- running the code
class Timeout(Exception):
    pass


def _alarm(signum, frame):
    raise Timeout()


class Recorder:
    """wraps CubicBezier.length / ilength (oracles of the model) to record the
    values the implementation obtained"""
    def __init__(self):
        import svgpathtools.path as P
        import svgpathtools.smoothing as S
        self.P, self.S = P, S
        self.lens, self.ils, self.uts = [], [], []
        self.depth = 0

    def __enter__(self):
        P = self.P
        self.o_len, self.o_il = P.CubicBezier.length, P.CubicBezier.ilength
        self.o_ut = P.CubicBezier.unit_tangent
        self.o_disvg = self.S.disvg
        rec = self

        def length(self_, t0=0, t1=1, *a, **k):
            v = rec.o_len(self_, t0, t1, *a, **k)
            if rec.depth == 0 and t0 == 0 and t1 == 1:
                rec.lens.append((tuple(self_.bpoints()), float(v)))
            return v

        def ilength(self_, s, *a, **k):
            rec.depth += 1
            try:
                t = rec.o_il(self_, s, *a, **k)
            finally:
                rec.depth -= 1
            rec.ils.append((tuple(self_.bpoints()), float(s), float(t)))
            return t

        def unit_tangent(self_, t):
            singular = (self_.derivative(t) == 0)
            try:
                v = rec.o_ut(self_, t)
            except ValueError:
                if singular:
                    rec.uts.append((tuple(self_.bpoints()), float(t), None))
                raise
            if singular:
                rec.uts.append((tuple(self_.bpoints()), float(t), complex(v)))
            return v
        P.CubicBezier.length = length
        P.CubicBezier.ilength = ilength
        P.CubicBezier.unit_tangent = unit_tangent
        self.S.disvg = lambda *a, **k: None      # _report_unfixable_kinks would open a browser
        return self

    def __exit__(self, *a):
        self.P.CubicBezier.length = self.o_len
        self.P.CubicBezier.ilength = self.o_il
        self.P.CubicBezier.unit_tangent = self.o_ut
        self.S.disvg = self.o_disvg


def guarded(fn, limit=None):
    """run fn() under the wall-clock guard; returns (value, exception, seconds)"""
    old = signal.signal(signal.SIGALRM, _alarm)
    signal.setitimer(signal.ITIMER_REAL, limit or TIME_LIMIT)
    t0 = time.time()
    try:
        return fn(), None, time.time() - t0
    except Timeout as e:
        return None, e, time.time() - t0
    except BaseException as e:            # the implementation raises plain Exception / AssertionError
        if isinstance(e, KeyboardInterrupt):
            raise
        return None, e, time.time() - t0
    finally:
        signal.setitimer(signal.ITIMER_REAL, 0)
        signal.signal(signal.SIGALRM, old)


def copy_seg(seg):
    from svgpathtools import Line, CubicBezier
    if isinstance(seg, Line):
        return Line(seg.start, seg.end)
    return CubicBezier(seg.start, seg.control1, seg.control2, seg.end)


# ------------------------------------------------------- distance to a path
def dist_to_path(pts, segs):
    """for each point: distance to the union of the input segments (lines
    exactly; cubics by dense sampling + local ternary refinement).  The value
    is an upper bound of the true distance that is tight to ~1e-12."""
    import numpy as np
    from svgpathtools import Line
    pts = np.asarray(pts, dtype=complex)
    best = np.full(len(pts), np.inf)
    cubics = []
    for s in segs:
        if isinstance(s, Line):
            a, b = s.start, s.end
            ab = b - a
            t = ((pts - a).real * ab.real + (pts - a).imag * ab.imag) / (abs(ab) ** 2)
            t = np.clip(t, 0, 1)
            best = np.minimum(best, abs(pts - (a + t * ab)))
        else:
            ts = np.linspace(0, 1, 257)
            sp = s.poly()(ts)
            d = abs(pts[:, None] - sp[None, :])
            k = d.argmin(axis=1)
            best = np.minimum(best, d[np.arange(len(pts)), k])
            cubics.append((s, ts, k))
    return best, cubics


def refine(pt, seg, tk):
    lo, hi = max(0.0, tk - 1 / 256), min(1.0, tk + 1 / 256)
    for _ in range(80):
        m1, m2 = lo + (hi - lo) / 3, hi - (hi - lo) / 3
        if abs(seg.point(m1) - pt) < abs(seg.point(m2) - pt):
            hi = m2
        else:
            lo = m1
    return abs(seg.point((lo + hi) / 2) - pt)


# ------------------------------------------------------------- holds_impl
def check_output(segs, closed, real_angles, mj, out, exc, dt, lib_tol=False):
    """the property evaluated on the implementation's output.
    Returns a list of (key, message)."""
    from svgpathtools import Path
    from svgpathtools.smoothing import kinks
    import numpy as np
    sing = any(is_singular(s) for s in segs)
    bad = []
    if isinstance(exc, Timeout):
        return [('timeout', 'smoothed_path did not return within %gs' % TIME_LIMIT)]
    if exc is not None:
        msg = str(exc)
        if 'Maximum iterations' in msg:
            key = 'raises-ilength-maxits'
        elif 'kinks have been detected' in msg:
            key = 'smooth-singular-tangent-sign' if sing else 'raises-unfixable-kinks'
        else:
            key = 'raises-%s' % type(exc).__name__
        return [(key, 'smoothed_path raised %s: %s' % (type(exc).__name__, msg[:200]))]
    if not isinstance(out, Path) or len(out) == 0:
        return [('not-a-path', 'smoothed_path returned %r' % type(out))]
    n = len(out)
    if not all(out[i].end == out[i + 1].start for i in range(n - 1)):
        bad.append(('not-continuous', 'output path is not continuous'))
        return bad
    if closed:
        if not (out[0].start == out[-1].end):
            bad.append(('not-closed', 'input closed, output start %r != end %r' % (out[0].start, out[-1].end)))
    else:
        if out[0].start != segs[0].start or out[-1].end != segs[-1].end:
            bad.append(('endpoints-moved', 'open path: start/end %r,%r became %r,%r' % (
                segs[0].start, segs[-1].end, out[0].start, out[-1].end)))
    # library's own kink test
    try:
        with warnings.catch_warnings():
            warnings.simplefilter('ignore')
            kk = kinks(out)
    except Exception as e:
        kk = ['kinks() raised %s' % type(e).__name__]
    if kk:
        key = 'kinks-remain'
        if sing and all(isinstance(k, int) and (near_singular(out[k]) or near_singular(out[k - 1])) for k in kk):
            key = 'smooth-singular-tangent-sign'
        bad.append((key, 'kinks(out) = %r' % (kk,)))
    # independent tangents at every joint (incl. the closing joint of a closed path)
    rng_ = range(n) if (closed and not bad) else range(n - 1)
    worst, where = 0.0, None
    for i in rng_:
        u, v = true_tangent(out[i], True), true_tangent(out[(i + 1) % n], False)
        if u is None or v is None:
            worst, where = 2.0, i
            break
        # conditioning of the two directions: a control-point difference d of points of magnitude M
        # carries a relative rounding error ~ ulp(M)/|d| (short pieces far from the origin); the
        # judge allows TAN_TOL on top of 8 ulp(M)/|d| per side (measured from the control points,
        # independent of the library)
        cond = tangent_conditioning(out[i], True) + tangent_conditioning(out[(i + 1) % n], False)
        d = max(0.0, abs(u - v) - cond)
        if lib_tol:
            # the library's own kink tolerance: |u.v - 1| <= 1e-8 (scaled to compare with TAN_TOL)
            d = TAN_TOL * abs(u.real * v.real + u.imag * v.imag - 1) / 1e-8
        if d > worst:
            worst, where = d, i
    if worst > TAN_TOL:
        key = 'tangent-mismatch'
        if sing and where is not None and (near_singular(out[where]) or near_singular(out[(where + 1) % n])):
            key = 'smooth-singular-tangent-sign'
        bad.append((key, 'unit tangents differ by %.3g at the joint after output segment %s' % (worst, where)))
    # every output point within maxjointsize of the input path
    ts = np.linspace(0, 1, 64)
    pts, owner = [], []
    for k, s in enumerate(out):
        pp = s.poly()(ts)
        pts.extend(pp); owner.extend([k] * len(ts))
    d, cubics = dist_to_path(pts, segs)
    far = [i for i in range(len(pts)) if d[i] > mj + DIST_SLACK]
    for i in far[:50]:
        dd = d[i]
        for (s, tss, ks) in cubics:
            dd = min(dd, refine(pts[i], s, tss[ks[i]]))
        if dd > mj + DIST_SLACK:
            bad.append(('too-far', 'a point of output segment %d is %.6g from the input path (maxjointsize %g)' % (
                owner[i], dd, mj)))
            break
    # joints that were already smooth keep position and tangents
    nin = len(segs)
    for i, a in enumerate(real_angles):
        if a is not None and a < 1e-9:
            q = segs[i].end
            u_in, v_in = true_tangent(segs[i], True), true_tangent(segs[(i + 1) % nin], False)
            hit = False
            for j in range(n if closed else n - 1):
                if out[j].end == q and out[(j + 1) % n].start == q:
                    u, v = true_tangent(out[j], True), true_tangent(out[(j + 1) % n], False)
                    if u is not None and v is not None and abs(u - u_in) < 1e-9 and abs(v - v_in) < 1e-9:
                        hit = True
            if not hit:
                key = 'smooth-singular-tangent-sign' if (is_singular(segs[i]) or is_singular(segs[(i + 1) % nin])) \
                    else 'smooth-joint-touched'
                bad.append((key, 'the smooth input joint %d (at %r) is not kept' % (i, q)))
                break
    return bad


# --------------------------------------------------------------- Coq terms
def seg_term(bp):
    if len(bp) == 2:
        return '(SLine %s %s)' % (cbf(bp[0]), cbf(bp[1]))
    return '(SCubic %s %s %s %s)' % tuple(cbf(p) for p in bp)


def tables_terms(lens, ils, uts):
    lt = coq_list(['(%s, %s)' % (seg_term(k), bf(v)) for k, v in lens])
    it = coq_list(['(%s, %s, %s)' % (seg_term(k), bf(s), bf(t)) for k, s, t in ils])
    ut = coq_list(['(%s, %s, %s)' % (seg_term(k), bf(t), 'None' if v is None else '(Some %s)' % cbf(v))
                   for k, t, v in uts])
    return lt, it, ut


OKDEF = r'''
From SVP Require Import Base.BigF Model.Bezier Model.Smooth.
Definition N := NumB.
Definition T := NumTB.
Definition segB := seg bf.
Definition cB := (bf * bf)%type.
Definition seg_close (tol : bf) (g h : segB) : bool :=
  match g, h with
  | SLine a b, SLine c d => bcclose tol a c && bcclose tol b d
  | SCubic a b c d, SCubic a' b' c' d' =>
      bcclose tol a a' && bcclose tol b b' && bcclose tol c c' && bcclose tol d d'
  | _, _ => false
  end.
Definition keytol : bf := bf_of 1 (-30).
(* oracles: the values the implementation obtained *)
Definition o_len (tbl : list (segB * bf)) (g : segB) : bf :=
  match find (fun e => seg_close keytol (fst e) g) tbl with
  | Some e => snd e | None => F.fromZ (-1) end.
Definition o_il (tbl : list (segB * bf * bf)) (g : segB) (s : bf) : option bf :=
  match find (fun e => seg_close keytol (fst (fst e)) g && bclose keytol (snd (fst e)) s) tbl with
  | Some e => Some (snd e) | None => None end.
(* singular branch of unit_tangent: what the implementation answered (None = ValueError);
   a call the implementation never made is an error of the model run *)
Definition o_ut (tbl : list (segB * bf * option cB)) (g : segB) (t : bf) : utres bf :=
  match find (fun e => seg_close keytol (fst (fst e)) g && bclose keytol (snd (fst e)) t) tbl with
  | Some (_, Some v) => UTok v | Some (_, None) => UTValueError | None => UTOther end.
(* CubicBezier.cropped(0,t) / cropped(t,1): crop_bezier = split_bezier (de Casteljau) *)
Definition o_crop (g : segB) (t0 t1 : bf) : segB :=
  let sp := split_bezier N (sbpoints g) (if bf_eqb t0 (F.fromZ 0) then t1 else t0) in
  match (if bf_eqb t0 (F.fromZ 0) then fst sp else snd sp) with
  | [a; b; c; d] => SCubic a b c d
  | [a; b] => SLine a b
  | _ => g
  end.
Definition lseg_close (tol : bf) := lclose (seg_close tol).
(* joint case: (seg0, seg1, maxjointsize, tightness, tol, length table, ilength table,
               unit-tangent table, observed seg0', observed elbow list, observed seg1') *)
Definition jcase : Type :=
  (segB * segB * bf * bf * bf * list (segB * bf) * list (segB * bf * bf) * list (segB * bf * option cB)
   * segB * list segB * segB)%type.
Definition okj (c : jcase) : nat :=
  let '(s0, s1, mj, tg, tol, lt, it, ut, o0, oel, o1) := c in
  match smoothed_joint N T (o_ut ut) (o_len lt) (o_il it) o_crop s0 s1 mj tg with
  | None => 9
  | Some (m0, mel, m1) =>
      first_fail [ (seg_close tol m0 o0, 1); (lseg_close tol mel oel, 2); (seg_close tol m1 o1, 3) ]
  end.
(* path case: (path, maxjointsize, tightness, tol, tables, observed outcome);
   observed None = the implementation raised the "unfixable kinks" exception *)
Definition pcase : Type :=
  (list segB * bf * bf * bf * list (segB * bf) * list (segB * bf * bf) * list (segB * bf * option cB)
   * option (list segB))%type.
Definition okp (c : pcase) : nat :=
  let '(p, mj, tg, tol, lt, it, ut, obs) := c in
  match smoothed_path N T (o_ut ut) (o_len lt) (o_il it) o_crop p mj tg false, obs with
  | SPOk mout, Some oout =>
      if lseg_close tol mout oout then 0
      else if Nat.eqb (length mout) (length oout) then 4 else 5
  | SPOk _, None => 8
  | SPSharp _, None => 0
  | SPSharp _, Some _ => 6
  | SPError, _ => 7
  end.
'''

CODES = {1: 'trimmed seg0 differs from the model', 2: 'elbow control points differ from the model',
         3: 'trimmed seg1 differs from the model', 9: 'model joint raises, implementation returned',
         4: 'smoothed_path output control points differ from the model',
         5: 'smoothed_path output has a different number of segments than the model',
         6: 'model reports unfixable kinks (a joint classified as a 180-degree reversal), implementation returned a path',
         8: 'implementation reports unfixable kinks, the model classifies no joint as a reversal and returns a path',
         7: 'model raises, implementation returned a path'}


def scale_of(segs):
    return max(abs(p) for s in segs for p in s.bpoints())


def tol_of(segs):
    return 2.0 ** -40 * (1.0 + scale_of(segs))


# ------------------------------------------------------------------- run
def ser_path(segs):
    return [[common.chex(p) for p in s.bpoints()] for s in segs]


def deser_path(data):
    from svgpathtools import Line, CubicBezier
    out = []
    for bp in data:
        pts = [complex(float.fromhex(a), float.fromhex(b)) for a, b in bp]
        out.append(Line(*pts) if len(pts) == 2 else CubicBezier(*pts))
    return out


def arclen_ref(bp, n=16384):
    """independent arc length of a cubic: chord sum over n pieces (relative error ~1e-7)"""
    import numpy as np
    from svgpathtools import CubicBezier
    pts = CubicBezier(*bp).poly()(np.linspace(0, 1, n + 1))
    return float(np.sum(np.abs(np.diff(pts))))


def run_path_case(segs, closed, mj, tight, noscipy=False):
    """runs smoothed_path on a fresh copy; returns dict with everything observed.
    noscipy: the configuration in which scipy.integrate.quad is unavailable
    (CubicBezier.length falls back to the recursive segment_length)"""
    from svgpathtools import Path
    from svgpathtools.smoothing import smoothed_path
    import svgpathtools.path as P
    fresh = [copy_seg(s) for s in segs]
    path = Path(*fresh)
    old = P._quad_available
    try:
        if noscipy:
            P._quad_available = False
        with Recorder() as rec, warnings.catch_warnings():
            warnings.simplefilter('ignore')
            out, exc, dt = guarded(lambda: smoothed_path(path, maxjointsize=mj, tightness=tight))
        if isinstance(exc, Timeout):
            # a wall-clock limit on a shared machine is not evidence: the same call once more, on a
            # fresh copy, with a 6x limit (a seed-1 run hit the 20 s guard on a call that takes 12 ms)
            path = Path(*[copy_seg(s) for s in segs])
            with Recorder() as rec, warnings.catch_warnings():
                warnings.simplefilter('ignore')
                out, exc, dt = guarded(lambda: smoothed_path(path, maxjointsize=mj, tightness=tight), 6 * TIME_LIMIT)
    finally:
        P._quad_available = old
    return {'out': out, 'exc': exc, 'dt': dt, 'lens': rec.lens, 'ils': rec.ils, 'uts': rec.uts}


def run(rep, tier, seed, replay=None):
    warnings.simplefilter('ignore')
    from svgpathtools import Path, Line, CubicBezier
    from svgpathtools.smoothing import smoothed_path, smoothed_joint
    rng = common.mkrng(seed, 'C20')
    with common.Scratch() as tmp:
        info = common.std_static(rep, 'C20', GEN_GROUPS, AGREE, tmp)
        # the functions the model mirrors are outside the translator: never 'untranslated => search harder'
        quick = (tier == 'quick')
        n_paths = 170 if quick else 1500
        n_joints = 60 if quick else 400
        n_sing = 12 if quick else 80
        n_singj = 16 if quick else 120
        n_shallow = 48 if quick else 400
        n_thresh = 24 if quick else 200
        n_nearclosed = 30 if quick else 250
        n_nos_s = 5 if quick else 30          # no-scipy: S / loop cubic next to a corner (slow: ~5 s each)
        n_nos = 10 if quick else 60           # no-scipy: ordinary short paths
        if info['agree_failed']:
            n_paths *= 2
        dist, kinds_count, ang_hist = {}, {}, [0] * 18
        jcases, jmeta, pcases, pmeta = [], [], [], []
        nontrivial = set()
        evals = 0

        def report(what, key, segs, closed, mj, tight, extra=None):
            r = {'kind': 'impl-property', 'key': key, 'path': ser_path(segs), 'closed': closed,
                 'maxjointsize': common.fhex(mj), 'tightness': common.fhex(tight),
                 'repr': 'Path(%s)' % ', '.join(repr(s) for s in segs),
                 'call': 'smoothed_path(path, maxjointsize=%r, tightness=%r)' % (mj, tight),
                 'how': './check C20 --replay <this file>'}
            if extra:
                r.update(extra)
            rep.violation('C20: ' + what, r, key=key)

        # ---------------- paths: property on the implementation + model correspondence
        todo = []
        if replay:
            r = json.load(open(replay))['replay']
            todo.append((deser_path(r['path']), bool(r.get('closed')), float.fromhex(r['maxjointsize']),
                         float.fromhex(r['tightness']), 'replay'))
            if r.get('noscipy'):
                todo[-1] = todo[-1][:4] + ('noscipy-replay',)
            n_joints = n_sing = n_singj = 0
            sing_joints = []
        else:
            for i in range(n_paths):
                mj, tight = gen_params(rng)
                closed = rng.random() < 0.45
                kinds = rng.choice(['mixed', 'mixed', 'mixed', 'lines', 'cubics'])
                segs, _ = gen_path(rng, mj, closed, kinds)
                todo.append((segs, closed, mj, tight, ('closed-' if closed else 'open-') + kinds))
            for i in range(n_sing):
                mj, tight = gen_params(rng)
                closed = rng.random() < 0.3
                segs, _ = gen_path(rng, mj, closed, 'mixed', singular=True)
                if any(is_singular(s) for s in segs):
                    todo.append((segs, closed, mj, tight, 'singular-S-type'))
            # shallow corners / near-reversals, every joint kind, closing joints included
            for i in range(n_shallow):
                mj, tight = gen_params(rng)
                closed = (i % 3 == 0)
                kinds = ['mixed', 'lines', 'cubics', 'mixed'][i % 4]
                segs, _ = gen_path(rng, mj, closed, kinds, nseg=rng.choice([2, 3, 3, 4, 5]), profile='shallow')
                if closed:
                    # any joint of the loop becomes the closing joint (so LL / LC closing joints are controlled too)
                    k = rng.randrange(len(segs))
                    segs = segs[k:] + segs[:k]
                todo.append((segs, closed, mj, tight, 'shallow-' + ('closed-' if closed else 'open-') + kinds))
            # both sides of the code's smooth / kink / reversal thresholds: ties the classification
            for i in range(n_thresh):
                mj, tight = gen_params(rng)
                closed = (i % 4 == 0)
                kinds = ['mixed', 'lines', 'cubics'][i % 3]
                segs, _ = gen_path(rng, mj, closed, kinds, nseg=rng.choice([2, 3, 4]), profile='threshold')
                todo.append((segs, closed, mj, tight, 'threshold'))
            # open paths that nearly close (must be treated as open: exact start == end test)
            near_stat = {}
            for i in range(n_nearclosed):
                mj, tight = gen_params(rng)
                segs, _, where, relgap = gen_near_closed(rng, mj)
                k = '%s/gap~1e%d' % (where, int(math.floor(math.log10(relgap))))
                near_stat[k] = near_stat.get(k, 0) + 1
                todo.append((segs, False, mj, tight, 'open-nearly-closed'))
            # the configuration without scipy (segment_length instead of quad)
            for i in range(n_nos_s):
                mj = rng.choice([3.0, 3.0, 1.0, 5.0])
                tight = rng.choice([1.99, rng.uniform(0.02, 1.98)])
                segs, shape = gen_scurve_path(rng, mj)
                todo.append((segs, False, mj, tight, 'noscipy-' + shape + '-cubic-at-corner'))
            for i in range(n_nos):
                mj, tight = gen_params(rng)
                closed = (i % 3 == 0)
                segs, _ = gen_path(rng, mj, closed, rng.choice(['mixed', 'mixed', 'cubics']),
                                   nseg=rng.choice([2, 3, 3]))
                todo.append((segs, closed, mj, tight, 'noscipy-' + ('closed' if closed else 'open')))
            sing_joints = []
            for i in range(n_singj):
                mj, tight = gen_params(rng)
                segs, tau, kind = gen_singular_joint(rng, mj)
                sing_joints.append((segs, tau, kind, mj, tight))
                todo.append((segs, False, mj, tight, 'singular-S-type'))
        t_impl = 0.0
        fine = {'shallow_0.005-0.5deg': {}, 'near_reversal_179.5-179.99deg': {}, 'threshold_stream': {}}
        for segs, closed, mj, tight, mode in todo:
            dist[mode] = dist.get(mode, 0) + 1
            real = joint_angles(segs, closed)
            for a in real:
                if a is not None and a >= 1e-9:
                    ang_hist[min(17, int(a // 10))] += 1
            pairs = list(zip(segs, segs[1:] + (segs[:1] if closed else [])))
            for j, (s0, s1) in enumerate(pairs):
                k = ('L' if isinstance(s0, Line) else 'C') + ('L' if isinstance(s1, Line) else 'C')
                kinds_count[k] = kinds_count.get(k, 0) + 1
                a = real[j]
                if a is not None and mode != 'singular-S-type':
                    kk = k + ('-closing' if (closed and j == len(pairs) - 1) else '')
                    b = None
                    if mode == 'threshold':
                        b = 'threshold_stream'
                        kk = ('smooth-side' if a < 5.5e-4 else 'kink-side' if a < 179.9994 else 'reversal-side')
                    elif 0.004 <= a <= 0.5:
                        b = 'shallow_0.005-0.5deg'
                    elif 179.5 <= a <= 179.995:
                        b = 'near_reversal_179.5-179.99deg'
                    if b:
                        fine[b][kk] = fine[b].get(kk, 0) + 1
            nos = mode.startswith('noscipy')
            o = run_path_case(segs, closed, mj, tight, noscipy=nos)
            t_impl += o['dt']
            evals += 1
            unfix = o['exc'] is not None and 'kinks have been detected' in str(o['exc'])
            # the threshold stream contains joints the code documents as unfixable (reversals within
            # 0.0006 deg): outside the property's domain, kept for the classification tie only
            judged = not (mode == 'threshold' and any(a is not None and a > 179.999 for a in real))
            bad = check_output(segs, closed, real, mj, o['out'], o['exc'], o['dt'],
                               lib_tol=(mode == 'threshold')) if judged else []
            evals += 7
            # sample of the length-oracle contract: what CubicBezier.length() answered is the arc length
            for bp, v in o['lens']:
                evals += 1
                if min(abs(bp[1] - bp[0]), abs(bp[3] - bp[2])) > 1e-9 * (1 + abs(bp[0])):
                    ref = arclen_ref(bp)
                    if abs(v - ref) > 1e-4 * ref + 1e-9:
                        bad.append(('length-oracle-wrong',
                                    'CubicBezier%r.length() = %.9g during smoothed_path, arc length is %.9g%s' % (
                                        tuple(bp), v, ref, ' (no-scipy configuration)' if nos else '')))
                        break
            for key, msg in bad:
                report(msg, key, segs, closed, mj, tight,
                       {'output': repr(o['out'])[:1500], 'joint_angles_deg': real, 'noscipy': nos,
                        'config': 'svgpathtools.path._quad_available = False' if nos else 'default'})
            if any(a is not None and a >= 1e-9 for a in real):
                nontrivial.add((tuple(tuple(s.bpoints()) for s in segs), mj, tight))
            if ((o['exc'] is None and isinstance(o['out'], Path)) or unfix) and mode != 'singular-S-type':
                lt, it, ut = tables_terms(o['lens'], o['ils'], o['uts'])
                obs = 'None' if unfix else '(Some %s)' % coq_list([seg_term(s.bpoints()) for s in o['out']])
                pcases.append('(%s, %s, %s, %s, %s, %s, %s, %s)' % (
                    coq_list([seg_term(s.bpoints()) for s in segs]), bf(mj), bf(tight), bf(tol_of(segs)),
                    lt, it, ut, obs))
                pmeta.append((segs, closed, mj, tight, o, bad))

        # single-segment paths are returned unchanged
        for i in range(0 if replay else 10):
            mj, tight = gen_params(rng)
            segs, _ = gen_path(rng, mj, False, 'mixed', nseg=2)
            for s in segs:
                p1 = Path(copy_seg(s))
                out, exc, dt = guarded(lambda: smoothed_path(p1, maxjointsize=mj, tightness=tight))
                evals += 1
                if exc is not None or out is not p1 or list(out) != [s]:
                    report('a single-segment path is not returned unchanged (%r)' % (exc or out,),
                           'single-changed', [s], False, mj, tight)
            # closed single segment (start == end) as well
            p0 = segs[0].start
            loop = CubicBezier(p0, p0 + 3 + 1j, p0 - 2 + 4j, p0)
            p1 = Path(loop)
            out, exc, dt = guarded(lambda: smoothed_path(p1, maxjointsize=mj, tightness=tight))
            evals += 1
            if exc is not None or out is not p1 or list(out) != [loop]:
                report('a single closed segment is not returned unchanged (%r)' % (exc or out,),
                       'single-changed', [loop], True, mj, tight)

        # ---------------- joints: smoothed_joint vs the model, all four kind pairs
        jtodo = []
        for i in range(n_joints):
            mj, tight = gen_params(rng)
            kinds = ['lines', 'mixed', 'mixed', 'cubics'][i % 4]
            segs, real = gen_path(rng, mj, False, kinds, nseg=2)
            if real[0] < 1e-9:
                continue
            jtodo.append((segs, mj, tight, None))
        for segs, tau, kind, mj, tight in sing_joints:
            jtodo.append((segs, mj, tight, (tau, kind)))
        sing_stat = {'cases': 0, 'sign_flipped': 0, 'flip_iff_tau_in_left_half_plane': True}
        for segs, mj, tight, sj in jtodo:
            s0, s1 = copy_seg(segs[0]), copy_seg(segs[1])
            with Recorder() as rec, warnings.catch_warnings():
                warnings.simplefilter('ignore')
                res, exc, dt = guarded(lambda: smoothed_joint(s0, s1, maxjointsize=mj, tightness=tight))
            if isinstance(exc, Timeout):
                s0, s1 = copy_seg(segs[0]), copy_seg(segs[1])
                with Recorder() as rec, warnings.catch_warnings():
                    warnings.simplefilter('ignore')
                    res, exc, dt = guarded(lambda: smoothed_joint(s0, s1, maxjointsize=mj, tightness=tight), 6 * TIME_LIMIT)
            evals += 1
            if exc is not None:
                key = 'timeout' if isinstance(exc, Timeout) else (
                    'raises-ilength-maxits' if 'Maximum iterations' in str(exc) else 'raises-%s' % type(exc).__name__)
                report('smoothed_joint raised %s: %s' % (type(exc).__name__, str(exc)[:200]), key,
                       segs, False, mj, tight, {'call': 'smoothed_joint(seg0, seg1, %r, %r)' % (mj, tight)})
                continue
            n0, el, n1 = res
            lt, it, ut = tables_terms(rec.lens, rec.ils, rec.uts)
            jcases.append('(%s, %s, %s, %s, %s, %s, %s, %s, %s, %s, %s)' % (
                seg_term(segs[0].bpoints()), seg_term(segs[1].bpoints()), bf(mj), bf(tight), bf(tol_of(segs)),
                lt, it, ut, seg_term(n0.bpoints()), coq_list([seg_term(e.bpoints()) for e in el]),
                seg_term(n1.bpoints())))
            jmeta.append((segs, mj, tight, res))
            k = 'joint-' + ('L' if isinstance(s0, Line) else 'C') + ('L' if isinstance(s1, Line) else 'C')
            if sj:
                # the hypothesis of C20_singular_tangent_sign_refuted, evaluated on the code:
                # the singular branch answers -tau exactly when tau is in the left half plane
                k += '-singular'
                tau, kind = sj
                # direction the code must match at the singular end of the S-type cubic as it is
                # traversed in the (possibly reversed) call that reaches the line-curve branch: +tau
                vals = [v for (_, t, v) in rec.uts if v is not None and t == 0.0]
                if vals:
                    v = vals[-1]
                    sing_stat['cases'] += 1
                    flipped = abs(v + tau) < 1e-9
                    sing_stat['sign_flipped'] += int(flipped)
                    left = tau.real < 0 or (tau.real == 0 and tau.imag < 0)
                    if flipped != left or not (flipped or abs(v - tau) < 1e-9):
                        sing_stat['flip_iff_tau_in_left_half_plane'] = False
            dist[k] = dist.get(k, 0) + 1

        # ---------------- the comparison with the model, computed inside Coq
        jf, jerr = common.run_cases(tmp, '', 'jcase', OKDEF + '\nDefinition ok := okj.\n', jcases,
                                    shard=25, prefix='c20j', timeout=900)
        pf, perr = common.run_cases(tmp, '', 'pcase', OKDEF + '\nDefinition ok := okp.\n', pcases,
                                    shard=12, prefix='c20p', timeout=900)
        for e in jerr + perr:
            rep.violation('correspondence case file failed to evaluate', {'kind': 'cases', 'error': e},
                          found_input=False, key='cases-error')
        evals += len(jcases) * 3 + len(pcases)
        for idx, code in jf:
            segs, mj, tight, res = jmeta[idx]
            rep.violation('C20 correspondence: smoothed_joint: %s' % CODES.get(code, code),
                          {'kind': 'correspondence-joint', 'key': 'corr-joint-%d' % code, 'observation': CODES.get(code, str(code)),
                           'path': ser_path(segs), 'closed': False, 'maxjointsize': common.fhex(mj),
                           'tightness': common.fhex(tight), 'repr': repr(segs), 'observed': repr(res)[:1500]},
                          key='corr-joint-%d' % code)
        for idx, code in pf:
            segs, closed, mj, tight, o, bad = pmeta[idx]
            # a disagreement with the model on an input where the property holds on the
            # implementation is still reported (no failing input found for the property)
            rep.violation('C20 correspondence: smoothed_path: %s' % CODES.get(code, code),
                          {'kind': 'correspondence-path', 'key': 'corr-path-%d' % code, 'observation': CODES.get(code, str(code)),
                           'path': ser_path(segs), 'closed': closed, 'maxjointsize': common.fhex(mj),
                           'tightness': common.fhex(tight), 'repr': repr(segs),
                           'observed': repr(o['out'])[:1500], 'property_violations': [k for k, _ in bad]},
                          found_input=bool(bad), key='corr-path-%d' % code)

        rep.cov['evaluations'] = evals
        rep.cov['traces_validated_against_impl'] = len(jcases) + len(pcases)
        rep.cov['distinct_nontrivial'] = len(nontrivial)
        rep.cov['rule'] = ('non-trivial = a path with at least one joint whose corner angle (true tangents) is in '
                           '[1,179] degrees, distinct (control points, maxjointsize, tightness); every path is run '
                           'through smoothed_path under a %gs guard, 8 predicates of the property are evaluated on the '
                           'output, and the model is executed in Coq (bigfloat 120 bit) and compared control point by '
                           'control point (tol 2^-40*(1+max|coord|))') % TIME_LIMIT
        rep.cov['input_distribution'] = {'streams': dist, 'joint_kinds(seg0,seg1)': kinds_count,
                                         'corner_angle_histogram_10deg_bins': ang_hist,
                                         'maxjointsize': 'mix of 3, {0.5,1,2,10,50}, 10^U(-0.5,1.5)',
                                         'tightness': 'mix of 1.99, {0.01,0.5,1,1.5,1.9,1.999}, U(0.02,1.98)',
                                         'segment_size': 'maxjointsize * 10^U(-1,2)'}
        rep.cov['samples'] = [{'path': repr(m[0])[:300], 'closed': m[1], 'maxjointsize': m[2], 'tightness': m[3],
                               'n_out': (len(m[4]['out']) if m[4]['out'] is not None else None)} for m in pmeta[:3]]
        rep.cov['input_distribution']['fine_angle_joints(kind of seg0,seg1)'] = fine
        if not replay:
            rep.cov['input_distribution']['open_nearly_closed(where/relative gap)'] = near_stat
        rep.cov['impl_seconds'] = round(t_impl, 1)
        rep.cov['singular_unit_tangent_oracle'] = sing_stat
        if info['agree_failed'] and not rep.violations:
            rep.violation('agreement lemma(s) %s no longer check: generated code differs from the model'
                          % info['agree_failed'],
                          {'kind': 'agreement', 'lemmas': info['agree_failed'],
                           'file': 'coq/GenAgree/Smooth.v', 'messages': info.get('agree_msgs', {})},
                          found_input=False, key='agree')
    rep.assumptions += [
        'oracles of the model instantiated with the implementation\'s own values: CubicBezier.length (QUADPACK), '
        'ilength (bisection), singular-branch unit_tangent; cropped = de Casteljau of Model/Bezier.v',
        'theorems over R for regular segments; curve-curve joints and paths with cubics under CCcontract '
        '(length > 0, ilength in (0,1), cropped = sub-curve with same end tangent, chord <= arc)',
        'binary64 vs exact: comparison tolerance 2^-40*(1+max|coord|); BigF evaluation accuracy (unverified enclosure)']
