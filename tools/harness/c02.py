"""C02 — parse_path implements the SVG path-data semantics for every command
sequence.  Theorems: coq/Props/C02.v (refinement of the reference interpreter
by the model of _parse_path, by induction over programs of any length; lexer
rendering theorems).  Tie: correspondence, computed inside Coq on exact
rationals, of
  * Model/Lexer.v  `tokenize`   with  Path._tokenize_path      (every string),
  * Model/Parse.v  `impl_parse` with  svgpathtools.parse_path  (every string;
    four variants of the model are evaluated, the run reports which one the
    code of /repo is),
and the property itself: `spec_run` (reference interpreter of SVG 1.1 §8.3)
against parse_path on every grammatical program, under several spellings."""
import itertools, json, warnings
from fractions import Fraction as Fr
import common
from common import coq_list, coq_bool

LETTERS = 'MmZzLlHhVvCcSsQqTtAa'
NARGS = {'M': 2, 'L': 2, 'H': 1, 'V': 1, 'C': 6, 'S': 4, 'Q': 4, 'T': 2, 'A': 7, 'Z': 0}
ERR = {'IndexError': 1, 'ValueError': 2, 'TypeError': 3, 'AttributeError': 4, 'AssertionError': 5}

# ------------------------------------------------------------ Coq encoding
# Everything a case needs is handed to Coq as lists of primitive 63-bit integer
# literals (one kernel node each; nested constructor terms and string literals
# elaborate ~10x slower) and decoded there by the reader of OKDEF:
#   number  : w <> 0  -> (w - 2^61) / 2^K  (K = first word of the stream)
#             0, m, k -> (m - 2^61) / 2^k  (numbers that do not fit)
#   program : ncmds, then per command  letter code (index in LETTERS), ngroups, numbers
#   tokens  : ntoks, then per token  1 code | 2 number
#   outcome : 0 nsegs segs | 1 errcode ;  seg = 0 Line | 1 Quad | 2 Cubic | 3 Arc, then its numbers
B61 = 2 ** 61


def nd(x):
    """(numerator, denominator) of a Fraction / float / int, denominator a power of two"""
    if isinstance(x, Fr):
        return x.numerator, x.denominator
    if isinstance(x, float):
        return x.as_integer_ratio()
    return int(x), 1


def dy_exp(x):
    d = nd(x)[1]
    assert d & (d - 1) == 0, x
    return d.bit_length() - 1


class Enc:
    def __init__(self, numbers):
        ks = [dy_exp(x) for x in numbers]
        self.K = max([k for k in ks if k <= 16] or [0])
        self.w = [self.K]

    def int(self, n):
        self.w.append(int(n))

    def num(self, x):
        n, d = nd(x)
        k = d.bit_length() - 1
        if k <= self.K and abs(n) < 2 ** (60 - self.K + k):
            self.w.append((n << (self.K - k)) + B61)
        else:
            assert d & (d - 1) == 0 and abs(n) < 2 ** 60 and k < 2 ** 20, x
            self.w += [0, n + B61, k]

    def term(self):
        return words(self.w)


def words(ws):
    return coq_list([hex(w) for w in ws]) + '%uint63'


# ------------------------------------------------------------ statefulness
def snapshot(path):
    """immutable deep copy of what a parse returned: kinds and attribute values"""
    from svgpathtools import Line, QuadraticBezier, CubicBezier, Arc
    out = []
    for s in path:
        if isinstance(s, Line):
            out.append(('Line', s.start, s.end))
        elif isinstance(s, QuadraticBezier):
            out.append(('QuadraticBezier', s.start, s.control, s.end))
        elif isinstance(s, CubicBezier):
            out.append(('CubicBezier', s.start, s.control1, s.control2, s.end))
        elif isinstance(s, Arc):
            out.append(('Arc', s.start, s.radius, s.rotation, s.large_arc, s.sweep, s.end))
        else:
            out.append((type(s).__name__,))
    return tuple(out)


def mutate_in_place(path, rng):
    """edit the returned object through the public API: segment attributes,
    the Path.start / Path.end setters, and the container itself"""
    from svgpathtools import Line
    off = complex(rng.randint(1, 9), -rng.randint(1, 9)) + 1000
    for s in path:
        for a in ('start', 'end', 'control', 'control1', 'control2'):
            if hasattr(s, a) and getattr(s, a) is not None:
                setattr(s, a, getattr(s, a) + off)
        if hasattr(s, 'large_arc'):
            s.large_arc, s.sweep, s.rotation = not s.large_arc, not s.sweep, s.rotation + 33.0
            s.radius = s.radius * 3
    if len(path):
        try:
            path.start = path[0].start - 2 * off          # Path.start / Path.end setters
            path.end = path[-1].end - 3 * off
        except Exception:
            pass
        path.append(Line(path[-1].end, path[-1].end + 1))   # and the container
        path.reverse()
        del path[0]


def stateful_check(d, pos0, other, rng):
    """parse d, edit the result in place, parse the byte-identical string (and
    another spelling of the same program) again.  Returns a list of (key, message)."""
    from svgpathtools import parse_path
    bad = []
    with warnings.catch_warnings():
        warnings.simplefilter('ignore')
        kw = {'current_pos': pos0} if pos0 != 0j else {}
        p1 = parse_path(d, **kw)
        before = snapshot(p1)
        ids1 = set(id(s) for s in p1)
        keep = list(p1)                      # keep the objects alive so ids stay meaningful
        mutate_in_place(p1, rng)
        p2 = parse_path(d, **kw)
        after = snapshot(p2)
        if after != before:
            k = [i for i, (a, b) in enumerate(zip(before, after)) if a != b]
            bad.append(('stateful-reparse-differs',
                        'parse_path(%r) after the first result was edited in place returns %s instead of %s'
                        % (d, (after[k[0]] if k else after[-1:]) if after else after,
                           (before[k[0]] if k else before[-1:]) if before else before)))
        if any(id(s) in ids1 for s in p2):
            bad.append(('stateful-aliased-segments',
                        'two calls of parse_path(%r) return Paths sharing segment objects' % d))
        if other is not None:
            mutate_in_place(p2, rng)
            p3 = parse_path(other, **kw)
            if snapshot(p3) != before:
                bad.append(('stateful-respelling-differs',
                            'parse_path(%r) differs from the first parse of its other spelling %r after in-place edits'
                            % (other, d)))
            p4 = parse_path(d, **kw)
            if snapshot(p4) != before:
                bad.append(('stateful-reparse-differs',
                            'third parse_path(%r) differs from the first after in-place edits' % d))
        del keep
    return before, bad


def coq_str(s):
    """the bytes of s, 6 to a word, each word = 1 then the bytes in base 256"""
    b = s.encode('ascii')
    return words([int.from_bytes(b'\x01' + b[i:i + 6], 'big') for i in range(0, len(b), 6)])


def prog_numbers(prog):
    return [v for _, gs in prog for g in gs for v in g]


def enc_prog(e, prog):
    e.int(1)
    e.int(len(prog))
    for let, groups in prog:
        e.int(LETTERS.index(let))
        e.int(len(groups))
        for g in groups:
            for v in g:
                e.num(v)


def enc_toks(e, toks):
    e.int(2)
    e.int(len(toks))
    for t in toks:
        if isinstance(t, str):
            e.int(1)
            e.int(LETTERS.index(t))
        else:
            e.int(2)
            e.num(t)


# ---------------------------------------------------------------- programs
# a program is a list of (letter, groups); a group is a tuple of Fractions
# (for 'A': rx, ry, rot, large(0/1), sweep(0/1), x, y).  'Z' has groups == [].


def track(prog, pos0=(Fr(0), Fr(0))):
    """current point and subpath start after prog (used only to generate
    coincidences; the oracle is the Coq reference interpreter)"""
    cur, start = pos0, pos0
    for let, groups in prog:
        U, ab = let.upper(), let.isupper()
        if U == 'Z':
            cur = start
            continue
        for i, g in enumerate(groups):
            if U == 'H':
                cur = (g[0] if ab else cur[0] + g[0], cur[1])
            elif U == 'V':
                cur = (cur[0], g[0] if ab else cur[1] + g[0])
            else:
                x, y = g[-2], g[-1]
                cur = (x, y) if ab else (cur[0] + x, cur[1] + y)
            if U == 'M' and i == 0:
                start = cur
    return cur, start


def split_prog(prog, rng, p_repeat):
    """repeat the command letter before some argument groups (after a moveto
    the repeated letter is the lineto of the same case): a different program
    with, per the specification, the same meaning"""
    out = []
    for let, groups in prog:
        if let.upper() == 'Z' or len(groups) <= 1:
            out.append((let, list(groups)))
            continue
        cur_let, cur = let, [groups[0]]
        for g in groups[1:]:
            if rng.random() < p_repeat:
                out.append((cur_let, cur))
                if cur_let.upper() == 'M':
                    cur_let = 'L' if cur_let.isupper() else 'l'
                cur = [g]
            else:
                cur.append(g)
        out.append((cur_let, cur))
    return out


# ---------------------------------------------------------------- spelling
def dec_digits(v):
    """(negative, digits string, exponent10) with |v| = int(digits) * 10**exponent10, exact (v dyadic)"""
    n, d = nd(v)
    k = d.bit_length() - 1          # v = n / 2^k = n * 5^k / 10^k
    neg, m, e = n < 0, abs(n) * 5 ** k, -k
    while e < 0 and m % 10 == 0:
        m, e = m // 10, e + 1
    return neg, str(m), e


def plain(digs, e):
    """decimal text of int(digs) * 10**e without exponent"""
    if e >= 0:
        return digs + '0' * e
    if len(digs) <= -e:
        digs = '0' * (-e - len(digs) + 1) + digs
    return digs[:e] + '.' + digs[e:]


def spell(v, rng, style):
    """one legal spelling of the dyadic rational v; returns (text, risky feature or None)"""
    neg, digs, e = dec_digits(v)
    sign = '-' if neg else ''
    risky = None
    if style == 'plain':
        return sign + plain(digs, e), None
    r = rng.random()
    if r < 0.35:
        body = plain(digs, e)
    elif r < 0.5:                                    # leading '.'
        body = plain(digs, e)
        if body.startswith('0.'):
            body = body[1:]
    elif r < 0.8:                                    # exponent forms
        k = rng.choice([-3, -2, -1, 0, 1, 2, 3])
        digs2, e2 = digs, e - k                      # value = digs * 10**e2 * 10**k
        if digs2 != '0':
            while e2 > 0 and rng.random() < 0.5:
                digs2, e2 = digs2 + '0', e2 - 1
        body = plain(digs2, e2)
        if body.startswith('0.') and rng.random() < 0.5:
            body = body[1:]
        body += rng.choice('eE') + (rng.choice(['', '+']) if k >= 0 else '-') + \
            ('0' if rng.random() < 0.1 else '') + str(abs(k))
    elif r < 0.9:                                    # superfluous zeros
        body = plain(digs, e)
        if '.' in body:
            body += '0' * rng.randint(1, 2)
        else:
            body += '.' + '0' * rng.randint(1, 2)
        if rng.random() < 0.3:
            body = '0' + body
    else:
        body = plain(digs, e)
    if not neg and rng.random() < 0.1:
        sign = '+'
    return sign + body, risky


def spell_risky(v, rng, feature):
    """spellings that are legal SVG but that FLOAT_RE is suspected to mis-read"""
    neg, digs, e = dec_digits(v)
    sign = '-' if neg else ''
    if feature == 'trailing-dot' and e >= 0:
        return sign + plain(digs, e) + '.'           # "2."
    if feature == 'trailing-dot-exponent' and e >= 0:
        z = len(digs) - len(digs.rstrip('0')) if digs != '0' else 0
        k = rng.randint(0, min(z, 2))
        return sign + digs[:len(digs) - k] + '.' + rng.choice('eE') + str(k)   # "2.e1"
    return None


def text_value(t):
    """exact value of a numeral text per the SVG number grammar"""
    s = t
    neg = s.startswith('-')
    if s[0] in '+-':
        s = s[1:]
    ex = 0
    for ch in 'eE':
        if ch in s:
            s, x = s.split(ch)
            ex = int(x)
    ip, _, fp = s.partition('.')
    v = Fr(int((ip + fp) or '0'), 10 ** len(fp)) * Fr(10) ** ex
    return -v if neg else v


def render(prog, rng, style='mixed', risky=None):
    """d-string of prog under a separator / spelling policy.  Returns
    (string, feature actually used)"""
    used = None
    out = []
    prev = None            # None | 'cmd' | text of previous numeral
    seps_num = {'canon': [','], 'comma': [',', ', ', ' ,', ' , '], 'space': [' ', '  ', '\t', '\n'],
                'compact': [' '], 'mixed': [',', ' ', ', ', '  ', ' ,', '\n', '\t']}[style]
    for let, groups in prog:
        if prev is not None:
            out.append('' if style == 'compact' else ' ' if style == 'canon' else rng.choice(['', ' ', '  ', '\n']))
        out.append(let)
        prev = 'cmd'
        U = let.upper()
        for g in groups:
            for j, v in enumerate(g):
                is_flag = (U == 'A' and j in (3, 4))
                after_flag = (U == 'A' and j in (4, 5))
                if is_flag:
                    t = '1' if v else '0'
                else:
                    t = None
                    if risky in ('trailing-dot', 'trailing-dot-exponent') and rng.random() < 0.3:
                        t = spell_risky(v, rng, risky)
                        if t is not None:
                            used = risky
                    if t is None:
                        t, _ = spell(v, rng, 'plain' if style == 'canon' else 'any')
                    assert text_value(t) == Fr(v), (t, v)
                # separator
                if prev == 'cmd':
                    sep = '' if style in ('compact', 'canon') else rng.choice(['', ' '])
                elif risky == 'adjacent-arc-flags' and after_flag and t[0] not in '+-.' and rng.random() < 0.7:
                    sep = ''
                    used = risky
                else:
                    can_omit = t[0] in '+-' or (t[0] == '.' and ('.' in prev or 'e' in prev.lower()))
                    if prev.endswith('.'):
                        can_omit = t[0] in '+-'
                    if can_omit and (style == 'compact' or (style == 'mixed' and rng.random() < 0.5)):
                        sep = ''
                    else:
                        sep = rng.choice(seps_num)
                out.append(sep)
                out.append(t)
                prev = t
    return ''.join(out), used


# ------------------------------------------------------------- generation
def pool_pow2(i):
    """i-th number of the exhaustive pool: +-2^i/4; subset sums are pairwise distinct"""
    return Fr((-1) ** (i % 3 == 1) * 2 ** i, 4)


def args_from(let, nxt):
    U = let.upper()
    return [] if U == 'Z' else [tuple(nxt() for _ in range(NARGS[U]))]


def exhaustive_programs(maxlen):
    for n in range(maxlen + 1):
        for tail in itertools.product(LETTERS, repeat=n):
            yield ('M',) + tail


def prog_pow2(letters):
    cnt = [0]

    def nxt():
        cnt[0] += 1
        return pool_pow2(cnt[0])
    prog = []
    k = 0
    for let in letters:
        groups = args_from(let, nxt)
        if let.upper() == 'A':
            k += 1
            groups = [tuple([abs(g[0]), abs(g[1]), g[2], Fr(k % 2), Fr((k // 2 + 1) % 2)] + list(g[5:])) for g in groups]
        prog.append((let, groups))
    return prog


def rnd_num(rng):
    return Fr(rng.randint(-800, 800), rng.choice([1, 2, 4, 8]))


def prog_random(letters, rng, max_groups=3, edge=0.0):
    """random arguments (small dyadics), 1..max_groups argument groups per
    command, with injected coincidences: zero radii, arcs / lines ending on the
    current point or on the subpath start"""
    prog = []
    for let in letters:
        U = let.upper()
        if U == 'Z':
            prog.append((let, []))
            continue
        groups = []
        for _ in range(rng.randint(1, max_groups) if rng.random() < 0.5 else 1):
            g = [rnd_num(rng) for _ in range(NARGS[U])]
            cur, start = track(prog + [(let, groups)])
            if U == 'A':
                g[0], g[1] = abs(g[0]) or Fr(3), abs(g[1]) or Fr(5, 2)
                g[3], g[4] = Fr(rng.randint(0, 1)), Fr(rng.randint(0, 1))
                r = rng.random()
                if r < 0.12:
                    g[rng.randint(0, 1)] = Fr(0)          # zero radius -> line
                elif r < 0.15:
                    g[0], g[1] = -g[0], g[1]              # sign dropped (F.6.6)
                if rng.random() < edge:                   # arc ending where it starts
                    g[5], g[6] = (cur if let.isupper() else (Fr(0), Fr(0)))
            elif U in 'LM' and rng.random() < edge:       # go (back) to the subpath start
                tgt = start
                g[0], g[1] = tgt if let.isupper() else (tgt[0] - cur[0], tgt[1] - cur[1])
            groups.append(tuple(g))
        prog.append((let, groups))
    return prog


CORPUS = [  # (description, d) hand-picked interactions; parsed into ASTs by prog_of_canonical
    'M0,0 L1,1 Z S 2,2 3,3', 'M0,0 L1,1 Z T 2,2', 'M0,0 L1,1 z s 2,2 3,3', 'M0,0 L1,1 z t 2,2',
    'M1,1 A2,2 0 0 1 1,1', 'M1,1 A0,2 0 0 1 1,1', 'M1,1 a2,2 0 0 1 0,0', 'M1,1 A0,2 0 0 1 4,1', 'M1,1 A3,0 0 0 1 4,1',
    'M0,0 Z', 'M1,2 Z Z', 'M1,2 L3,4 Z Z', 'M1,2 L3,4 L1,2 Z', 'M1,2 L3,4 Z L5,6', 'M1,2 L3,4 Z H5', 'M1,2 L3,4 z v5',
    'M1,2 L3,4 z m1,1 2,2', 'M1,2 3,4 5,6', 'm1,2 3,4 5,6', 'M1,2 l3,4 5,6 l1,1', 'M1,2 h1 2 3 v1 2 3', 'M1,2 H1 2 3 V1 2 3',
    'M0,0 q1,2 3,4 t5,6 7,8', 'M0,0 Q1,2 3,4 T5,6 7,8', 'M0,0 q1,2 3,4 T5,6 t1,1', 'M0,0 T5,6 7,8', 'M0,0 C1,2 3,4 5,6 T7,8',
    'M0,0 c1,2 3,4 5,6 s7,8 9,10 1,1 2,2', 'M0,0 C1,2 3,4 5,6 S7,8 9,10 1,1 2,2', 'M0,0 S7,8 9,10 1,1 2,2',
    'M0,0 Q1,2 3,4 S7,8 9,10', 'M0,0 c1,2 3,4 5,6 1,2 3,4 5,6', 'M0,0 a1,1 0 1 0 2,0 1,1 0 0 1 2,0',
    'M0,0 A1,2 30 1 1 5,5 L0,0 z', 'M5,5 m1,1 m1,1 L0,0', 'M5,5 M1,1 l1,1', 'M0,0 C1,2 3,4 5,6 Z S1,1 2,2',
    'M0,0 L1,1 M2,2 S1,1 3,3', 'M0,0 C1,2 3,4 5,6 L7,7 S1,1 2,2', 'M0,0 Q1,2 3,4 H7 T1,1',
]


RISKY_CORPUS = [  # (spelling, the same program in canonical spelling, feature): legal SVG 1.1 spellings
    ('M0 0 A1,1 0 11 2,0', 'M0 0 A1,1 0 1 1 2,0', 'adjacent-arc-flags'),
    ('M0 0 A1,1 0 0 12,0', 'M0 0 A1,1 0 0 1 2,0', 'adjacent-arc-flags'),
    ('M0 0 a1,1 0 012,0', 'M0 0 a1,1 0 0 1 2,0', 'adjacent-arc-flags'),
    ('M0 0 L1.e1 4', 'M0 0 L10 4', 'trailing-dot-exponent'),
    ('M0 0 L1. 4.', 'M0 0 L1 4', 'trailing-dot'),
]


def prog_of_canonical(d):
    """AST of a d-string written in canonical form (letters separated by spaces
    from numbers that are separated by ' ' or ','): used for the corpus only"""
    import re
    prog = []
    for m in re.finditer(r'([MmZzLlHhVvCcSsQqTtAa])([^MmZzLlHhVvCcSsQqTtAa]*)', d):
        let = m.group(1)
        nums = [Fr(x) for x in re.split(r'[ ,]+', m.group(2).strip()) if x]
        n = NARGS[let.upper()]
        groups = [tuple(nums[i:i + n]) for i in range(0, len(nums), n)] if n else []
        prog.append((let, groups))
    return prog


# -------------------------------------------------------- implementation
def observe(d, pos0=0j):
    """parse_path(d): (outcome as (status, payload), python-comparable key, token list)
    payload: list of (kind, numbers) or the error code"""
    from svgpathtools import parse_path, Line, QuadraticBezier, CubicBezier, Arc, Path
    toks = list(Path()._tokenize_path(d))
    try:
        with warnings.catch_warnings():
            warnings.simplefilter('ignore')
            p = parse_path(d, current_pos=pos0) if pos0 != 0j else parse_path(d)
        segs = list(p)
    except Exception as e:
        name = type(e).__name__
        return (1, ERR.get(name, 9)), ('err', name), toks
    out, key = [], []

    def xy(z):
        z = complex(z)
        return [z.real, z.imag]
    for s in segs:
        if isinstance(s, Line):
            pts = [s.start, s.end]
            if any(z is None for z in pts):
                return (1, 6), ('err', 'NonePoint'), toks
            out.append((0, sum((xy(z) for z in pts), [])))
        elif isinstance(s, QuadraticBezier):
            pts = [s.start, s.control, s.end]
            out.append((1, sum((xy(z) for z in pts), [])))
        elif isinstance(s, CubicBezier):
            pts = [s.start, s.control1, s.control2, s.end]
            out.append((2, sum((xy(z) for z in pts), [])))
        elif isinstance(s, Arc):
            pts = [s.start, s.radius, s.rotation, s.large_arc, s.sweep, s.end]
            out.append((3, xy(s.start) + xy(s.radius) + [float(s.rotation), int(bool(s.large_arc)),
                                                         int(bool(s.sweep))] + xy(s.end)))
        else:
            return (1, 9), ('err', 'UnknownSegment'), toks
        key.append((type(s).__name__,) + tuple(pts))
    return (0, out), ('ok', tuple(key)), toks


OKDEF = r'''
From Coq Require Import Ascii String Uint63.
From SVP Require Import Model.Parse Model.Lexer.
Definition N := NumQ.
Inductive outcome := IOk (l : list (seg Qc)) | IErr (code : nat).

(* ---- reader of the integer streams written by the harness ---- *)
Definition rd (A : Type) : Type := list int -> option (A * list int).
Definition rret {A} (a : A) : rd A := fun s => Some (a, s).
Definition rfail {A} : rd A := fun _ => None.
Definition rbind {A B} (x : rd A) (f : A -> rd B) : rd B :=
  fun s => match x s with Some (a, r) => f a r | None => None end.
Definition rd_int : rd Z := fun s => match s with w :: r => Some (Uint63.to_Z w, r) | [] => None end.
Definition rd_nat : rd nat := rbind rd_int (fun z => rret (Z.to_nat z)).
Definition dyz (n k : Z) : Qc := Q2Qc (Qmake n (Z.to_pos (2 ^ k))).
Definition B61 : Z := (2 ^ 61)%Z.
Definition rd_num (K : Z) : rd Qc := fun s =>
  match s with
  | w :: r => if Uint63.eqb w 0
              then match r with
                   | m :: k :: r' => Some (dyz (Uint63.to_Z m - B61) (Uint63.to_Z k), r')
                   | _ => None end
              else Some (dyz (Uint63.to_Z w - B61) K, r)
  | [] => None
  end.
Fixpoint rd_rep {A} (x : rd A) (n : nat) : rd (list A) :=
  match n with
  | O => rret []
  | S m => rbind x (fun a => rbind (rd_rep x m) (fun l => rret (a :: l)))
  end.
Definition rd_pt (K : Z) : rd (Cplx Qc) :=
  rbind (rd_num K) (fun x => rbind (rd_num K) (fun y => rret (x, y))).
Definition rd_flag (K : Z) : rd bool :=
  rbind (rd_num K) (fun v => rret (negb (Qc_eq_bool v (Q2Qc 0)))).
Definition rd_pair (K : Z) : rd (Cplx Qc * Cplx Qc) :=
  rbind (rd_pt K) (fun a => rbind (rd_pt K) (fun b => rret (a, b))).
Definition rd_triple (K : Z) : rd (Cplx Qc * Cplx Qc * Cplx Qc) :=
  rbind (rd_pt K) (fun a => rbind (rd_pt K) (fun b => rbind (rd_pt K) (fun c => rret (a, b, c)))).
Definition rd_arcargs (K : Z) : rd (arcargs Qc) :=
  rbind (rd_pt K) (fun r => rbind (rd_num K) (fun rot => rbind (rd_flag K) (fun la =>
  rbind (rd_flag K) (fun sw => rbind (rd_pt K) (fun e => rret (mkArcArgs r rot la sw e)))))).
(* letter codes: index in 'MmZzLlHhVvCcSsQqTtAa' *)
Definition letter_of (code : Z) : option cmdletter :=
  match (code / 2)%Z with
  | 0 => Some cM | 1 => Some cZ | 2 => Some cL | 3 => Some cH | 4 => Some cV
  | 5 => Some cC | 6 => Some cS | 7 => Some cQ | 8 => Some cT | 9 => Some cA
  | _ => None end%Z.
Definition rd_cmd (K : Z) : rd (command Qc) :=
  rbind rd_int (fun code => rbind rd_nat (fun n =>
    let up := Z.even code in
    match letter_of code with
    | Some cM => rbind (rd_rep (rd_pt K) n) (fun l => rret (MoveTo up l))
    | Some cZ => rret (Close up)
    | Some cL => rbind (rd_rep (rd_pt K) n) (fun l => rret (LineTo up l))
    | Some cH => rbind (rd_rep (rd_num K) n) (fun l => rret (HTo up l))
    | Some cV => rbind (rd_rep (rd_num K) n) (fun l => rret (VTo up l))
    | Some cC => rbind (rd_rep (rd_triple K) n) (fun l => rret (CurveTo up l))
    | Some cS => rbind (rd_rep (rd_pair K) n) (fun l => rret (SmoothTo up l))
    | Some cQ => rbind (rd_rep (rd_pair K) n) (fun l => rret (QuadTo up l))
    | Some cT => rbind (rd_rep (rd_pt K) n) (fun l => rret (TTo up l))
    | Some cA => rbind (rd_rep (rd_arcargs K) n) (fun l => rret (ArcTo up l))
    | None => rfail
    end)).
Definition rd_tok (K : Z) : rd (tok Qc) :=
  rbind rd_int (fun tag =>
    match tag with
    | 1%Z => rbind rd_int (fun code => match letter_of code with
                                      | Some c => rret (TCmd c (Z.even code))
                                      | None => rfail end)
    | 2%Z => rbind (rd_num K) (fun v => rret (TNum v))
    | _ => rfail
    end).
Definition rd_expected (K : Z) : rd (list (command Qc) + list (tok Qc)) :=
  rbind rd_int (fun kind =>
    match kind with
    | 1%Z => rbind rd_nat (fun n => rbind (rd_rep (rd_cmd K) n) (fun p => rret (inl p)))
    | 2%Z => rbind rd_nat (fun n => rbind (rd_rep (rd_tok K) n) (fun t => rret (inr t)))
    | _ => rfail
    end).
Definition rd_seg (K : Z) : rd (seg Qc) :=
  rbind rd_int (fun kind =>
    match kind with
    | 0%Z => rbind (rd_pt K) (fun s => rbind (rd_pt K) (fun e => rret (Line s e)))
    | 1%Z => rbind (rd_pt K) (fun s => rbind (rd_pt K) (fun c => rbind (rd_pt K) (fun e => rret (Quad s c e))))
    | 2%Z => rbind (rd_pt K) (fun s => rbind (rd_pt K) (fun c1 => rbind (rd_pt K) (fun c2 =>
             rbind (rd_pt K) (fun e => rret (Cubic s c1 c2 e)))))
    | 3%Z => rbind (rd_pt K) (fun s => rbind (rd_pt K) (fun r => rbind (rd_num K) (fun rot =>
             rbind (rd_flag K) (fun la => rbind (rd_flag K) (fun sw => rbind (rd_pt K) (fun e =>
               rret (Arc s r rot la sw e)))))))
    | _ => rfail
    end).
Definition rd_outcome (K : Z) : rd outcome :=
  rbind rd_int (fun st =>
    match st with
    | 0%Z => rbind rd_nat (fun n => rbind (rd_rep (rd_seg K) n) (fun l => rret (IOk l)))
    | 1%Z => rbind rd_nat (fun c => rret (IErr c))
    | _ => rfail
    end).
Definition rd_case : rd ((list (command Qc) + list (tok Qc)) * Cplx Qc * outcome) :=
  rbind rd_int (fun K => rbind (rd_pt K) (fun pos0 => rbind (rd_expected K) (fun ex =>
  rbind (rd_outcome K) (fun o => rret (ex, pos0, o))))).
(* strings: words of 1 then up to 6 bytes, base 256 *)
Fixpoint unpack_fuel (fuel : nat) (z : Z) (acc : list ascii) : list ascii :=
  match fuel with
  | O => acc
  | S f => if (z <=? 1)%Z then acc
           else unpack_fuel f (Z.shiftr z 8) (ascii_of_N (Z.to_N (Z.land z 255)) :: acc)
  end.
Definition unpack (ws : list int) : list ascii :=
  flat_map (fun w => unpack_fuel 8 (Uint63.to_Z w) []) ws.

(* ---- comparison of the implementation's observations with the models ---- *)
(* radii: equal to |given|, or enlarged by a common factor (Arc._parameterize
   scales radii that are too small; C04's business) *)
Definition radius_ok (m i : Cplx Qc) : bool :=
  ceqb N m i ||
  (qle (fst m) (fst i) && qle (snd m) (snd i) &&
   qle (qabs (fst i * snd m - snd i * fst m)%Qc) (two_pow_neg 48 * (fst i * snd m))%Qc).
Definition seg_match (m i : seg Qc) : bool :=
  match m, i with
  | Arc s r rot la sw e, Arc s' r' rot' la' sw' e' =>
      ceqb N s s' && radius_ok r r' && Num.eqb N rot rot' && Bool.eqb la la' && Bool.eqb sw sw' && ceqb N e e'
  | _, _ => seg_eqb N m i
  end.
Definition err_match (e : perr) (c : nat) : bool :=
  match e with
  | IndexError => Nat.eqb c 1 | ValueError => Nat.eqb c 2 | TypeError => Nat.eqb c 3
  | AttributeError => Nat.eqb c 4 | AssertionError => Nat.eqb c 5
  | StartNone => true   (* closepath before any moveto: Python goes on with current_pos = None (a Line
                           ending in None, or whatever exception comes later); outside the model *)
  | OutOfFuel => false
  end.
Definition res_match (r : result (list (seg Qc))) (o : outcome) : bool :=
  match r, o with
  | Ok l, IOk l' => lclose seg_match l l'
  | Err e, IErr c => err_match e c
  | _, _ => false
  end.
Fixpoint join (l : list ltok) : list ascii :=
  match l with
  | [] => []
  | t :: r => (match t with LCmd a => [a] | LNum x => x end) ++ "|"%char :: join r
  end.
Fixpoint ascii_list_eqb (a b : list ascii) : bool :=
  match a, b with
  | [], [] => true
  | x :: a', y :: b' => Ascii.eqb x y && ascii_list_eqb a' b'
  | _, _ => false
  end.
(* the implementation's tokens, as written by the harness: texts each followed by "|" *)
Fixpoint split_bar (s : list ascii) (acc : list ascii) : list (list ascii) :=
  match s with
  | [] => []
  | c :: r => if Ascii.eqb c "|"%char then rev acc :: split_bar r [] else split_bar r (c :: acc)
  end.
Definition pytokens (s : list ascii) : list ltok :=
  map (fun x => match x with
                | [c] => if is_cmd c then LCmd c else LNum x
                | _ => LNum x end) (split_bar s []).
Definition casety : Type := (list int * list int * list int)%type.
Definition bit (b : bool) (v : nat) : nat := if b then 0 else v.
(* 1 / 2048 / 4096 / 8192: tokenizer model (dot_ok, arc_ok) = ff (the pinned one) / tf / ft / tt <> _tokenize_path
   2: the string does not lex (by the implementation) to the intended tokens
   4/8/16/32: impl_parse variant (none_ok,coinc_ok) = ff/tf/ft/tt disagrees with parse_path
   64: the reference interpreter disagrees with parse_path (the property)
   128/256/512 (informative): S/T directly after Z; arc ending on the current point; not grammatical
   1024: the case could not be decoded (harness defect) *)
Definition ok (c : casety) : nat :=
  let '(d, joined, body) := c in
  match rd_case body with
  | Some ((ex, pos0, o), []) =>
  let ds := unpack d in
  let pj := unpack joined in
  (* the parser models are run on the implementation's own token list, so that the
     parser tie does not depend on which FLOAT_RE the tokenizer has *)
  let toks := flat_map tok_of_ltok (pytokens pj) in
  let expected := match ex with inl prog => flatten N prog | inr t => t end in
  let main :=
    bit (ascii_list_eqb (join (tokenize ds)) pj) 1 +
    bit (ascii_list_eqb (join (tokenize_v true false ds)) pj) 2048 +
    bit (ascii_list_eqb (join (tokenize_v false true ds)) pj) 4096 +
    bit (ascii_list_eqb (join (tokenize_v true true ds)) pj) 8192 +
    bit (toks_eqb N toks expected) 2 +
    bit (res_match (impl_parse N false false toks pos0) o) 4 +
    bit (res_match (impl_parse N true false toks pos0) o) 8 +
    bit (res_match (impl_parse N false true toks pos0) o) 16 +
    bit (res_match (impl_parse N true true toks pos0) o) 32 +
    match ex with
    | inl prog => bit (res_match (Ok (spec_run N pos0 prog)) o) 64
    | inr _ => 0 end in
  match main with
  | O => O
  | _ => main + match ex with
                | inl prog => bit (no_smooth_after_close prog) 128 + bit (no_coincident_arc N pos0 prog) 256
                              + bit (grammatical prog) 512
                | inr _ => 0 end
  end
  | _ => 1024
  end.
'''

VARIANTS = {4: ('none_ok=false', 'coinc_ok=false'), 8: ('none_ok=true', 'coinc_ok=false'),
            16: ('none_ok=false', 'coinc_ok=true'), 32: ('none_ok=true', 'coinc_ok=true')}


class Case:
    __slots__ = ('d', 'prog', 'toks', 'pos0', 'stream', 'risky', 'obs', 'key', 'pytoks', 'canon_key', 'letters')

    def __init__(self, d, prog=None, toks=None, pos0=0j, stream='', risky=None, canon_key=None):
        self.d, self.prog, self.toks, self.pos0, self.stream, self.risky = d, prog, toks, pos0, stream, risky
        self.canon_key = canon_key

    def term(self):
        self.obs, self.key, self.pytoks = observe(self.d, self.pos0)
        st, payload = self.obs
        nums = [self.pos0.real, self.pos0.imag]
        nums += prog_numbers(self.prog) if self.prog is not None else [t for t in self.toks if not isinstance(t, str)]
        if st == 0:
            nums += [v for _, vs in payload for v in vs if dy_exp(v) <= 16]
        e = Enc(nums)
        e.num(self.pos0.real)
        e.num(self.pos0.imag)
        if self.prog is not None:
            enc_prog(e, self.prog)
        else:
            enc_toks(e, self.toks)
        e.int(st)
        if st == 0:
            e.int(len(payload))
            for kind, vs in payload:
                e.int(kind)
                for v in vs:
                    e.num(v)
        else:
            e.int(payload)
        return '(%s, %s, %s)' % (coq_str(self.d), coq_str(''.join(t + '|' for t in self.pytoks)), e.term())


_CASES = None


def _terms_chunk(rng_):
    lo, hi = rng_
    out = []
    for c in _CASES[lo:hi]:
        t = c.term()
        out.append((t, c.obs, c.key, c.pytoks))
    return out


def all_terms(cases):
    """observe the implementation on every case and encode the case for Coq;
    forked workers for large runs (the cases are fixed before; nothing random here)"""
    global _CASES
    if len(cases) < 4000:
        return [c.term() for c in cases]
    import multiprocessing as mp
    _CASES = cases
    chunks = [(i, min(i + 1000, len(cases))) for i in range(0, len(cases), 1000)]
    with mp.get_context('fork').Pool(min(common.NPROC, 8)) as pool:
        res = pool.map(_terms_chunk, chunks)
    terms = []
    k = 0
    for chunk in res:
        for t, obs, key, pytoks in chunk:
            c = cases[k]
            c.obs, c.key, c.pytoks = obs, key, pytoks
            terms.append(t)
            k += 1
    _CASES = None
    return terms


def prog_json(prog):
    return [[l, [[str(v) for v in g] for g in gs]] for l, gs in prog]


def prog_unjson(j):
    return [(l, [tuple(Fr(v) for v in g) for g in gs]) for l, gs in j]


def flat_tokens(prog):
    out = []
    for let, groups in prog:
        out.append(let)
        for g in groups:
            out.extend(g)
    return out


def malformed(rng, prog):
    """ungrammatical token lists (model/code tie on the error paths only)"""
    toks = flat_tokens(prog)
    r = rng.random()
    if r < 0.4 and len(toks) > 2:
        toks = toks[:rng.randint(1, len(toks) - 1)]               # truncated
    elif r < 0.6:
        i = rng.randint(0, len(toks))
        toks = toks[:i] + [rnd_num(rng)] + toks[i:]                # an extra number
    elif r < 0.8:
        i = rng.randint(1, len(toks))
        toks = toks[:i] + [rng.choice(LETTERS)] + toks[i:]         # a letter among the arguments
    elif r < 0.9:
        toks = toks[1 + NARGS['M']:] if len(toks) > 3 else toks    # no initial moveto
    else:
        toks = ['Z' if rng.random() < 0.5 else 'z'] + toks         # closepath before any moveto
    return toks


def render_tokens(toks):
    return ' '.join(t if isinstance(t, str) else spell(t, None, 'plain')[0] for t in toks)


def build_cases(rng, tier, rep):
    cases = []
    dist = {}

    def add(c):
        cases.append(c)
        dist[c.stream] = dist.get(c.stream, 0) + 1

    for d in CORPUS:
        add(Case(d, prog=prog_of_canonical(d), stream='corpus'))
    for d, canon, risky in RISKY_CORPUS:
        c0 = Case(canon, prog=prog_of_canonical(canon), stream='corpus')
        add(c0)
        add(Case(d, prog=prog_of_canonical(canon), stream='corpus-' + risky, risky=risky, canon_key=c0))
    # exhaustive: 'M' + up to 3 (4) further commands over the 20 letters
    maxlen = 3 if tier == 'quick' else 4
    nvar = 1
    for letters in exhaustive_programs(maxlen):
        prog = prog_pow2(letters)
        d, _ = render(prog, rng, 'canon')
        add(Case(d, prog=prog, stream='exhaustive-canonical'))
        if tier == 'thorough' and len(letters) == maxlen + 1 and rng.random() < 0.9:
            continue
        for _ in range(nvar):
            p2 = split_prog(prog_random(letters, rng, 3, edge=0.03), rng, 0.25)
            style = rng.choice(['mixed', 'mixed', 'compact', 'comma', 'space'])
            d2, _ = render(p2, rng, style)
            add(Case(d2, prog=p2, stream='exhaustive-respelled'))
    # random programs of length 5..40
    nrand = 600 if tier == 'quick' else 4000
    for i in range(nrand):
        n = rng.randint(5, 40)
        letters = ['M' if rng.random() < 0.8 else 'm'] + [rng.choice(LETTERS) for _ in range(n - 1)]
        # the two known-defective situations are kept to a fraction of the programs so that long
        # programs are still parsed to the end
        if rng.random() < 0.7:
            letters = [l for k, l in enumerate(letters)
                       if not (k and letters[k - 1] in 'Zz' and l in 'SsTt')]
        prog = prog_random(letters, rng, 3, edge=0.04 if rng.random() < 0.3 else 0.0)
        pos0 = 0j
        if rng.random() < 0.1:
            pos0 = complex(rng.randint(-20, 20) / 4, rng.randint(-20, 20) / 4)
        d, _ = render(prog, rng, 'canon')
        c0 = Case(d, prog=prog, pos0=pos0, stream='random-canonical')
        add(c0)
        for _ in range(3):
            risky = rng.choice([None] * 7 + ['adjacent-arc-flags', 'trailing-dot', 'trailing-dot-exponent'])
            p2 = split_prog(prog, rng, rng.choice([0.0, 0.3, 1.0]))
            d2, used = render(p2, rng, rng.choice(['mixed', 'mixed', 'compact', 'comma', 'space']), risky)
            c = Case(d2, prog=p2, pos0=pos0, stream='random-respelled' if not used else 'random-' + used, risky=used)
            c.canon_key = c0
            add(c)
        if i % 4 == 0:
            toks = malformed(rng, prog)
            add(Case(render_tokens(toks), toks=toks, stream='malformed'))
    return cases, dist


def classify(code, c):
    """narrow key of a property violation, from the failing case"""
    impl = c.key[1] if c.key[0] == 'err' else 'ok'
    if code & 2:
        if c.risky:
            return 'spelling-' + c.risky
        return 'spelling-other'
    if code & 128 and impl == 'TypeError':
        return 'S-or-T-after-Z-TypeError'
    if code & 256 and impl == 'AssertionError':
        return 'arc-coincident-endpoints-AssertionError'
    if code & 256 and impl == 'ok':
        return 'arc-coincident-endpoints-zero-length-line'
    return 'spec-mismatch'


def run(rep, tier, seed, replay=None):
    warnings.simplefilter('ignore')
    rng = common.mkrng(seed, 'C02')
    with common.Scratch() as tmp:
        info = common.std_static(rep, 'C02', (), (), tmp)
        if replay:
            r = json.load(open(replay))['replay']
            pos0 = complex(*[float.fromhex(x) for x in r.get('pos0', ['0x0p+0', '0x0p+0'])])
            if r.get('prog') is not None:
                cases = [Case(r['d'], prog=prog_unjson(r['prog']), pos0=pos0, stream='replay', risky=r.get('risky'))]
            else:
                cases = [Case(r['d'], toks=[t if t in LETTERS else Fr(t) for t in r['toks']], pos0=pos0, stream='replay')]
            dist = {'replay': 1}
        else:
            cases, dist = build_cases(rng, tier, rep)
        terms = all_terms(cases)
        fails, errors = common.run_cases(tmp, '', 'casety', OKDEF, terms, shard=300,
                                         timeout=1500)
        for e in errors:
            rep.violation('correspondence case file failed to evaluate', {'kind': 'cases', 'error': e},
                          found_input=False, key='cases-error')
        codes = dict(fails)

        def rp(c, **kw):
            d = {'kind': kw.pop('kind'), 'd': c.d, 'pos0': common.chex(c.pos0),
                 'prog': prog_json(c.prog) if c.prog is not None else None,
                 'toks': [str(t) for t in c.toks] if c.toks is not None else None,
                 'risky': c.risky, 'stream': c.stream, 'impl': str(c.key)[:300],
                 'how': './check C02 --replay <this file>; or: svgpathtools.parse_path(d)'}
            d.update(kw)
            return d

        # --- tie 1: tokenizer
        LEXV = {1: 'dot_ok=false,arc_ok=false (pinned: FLOAT_RE requires a digit after the point; no arc-flag pass)',
                2048: 'dot_ok=true,arc_ok=false (FLOAT_RE_DOT; no arc-flag pass)',
                4096: 'dot_ok=false,arc_ok=true (pinned FLOAT_RE; arc flags split off)',
                8192: 'dot_ok=true,arc_ok=true (FLOAT_RE_DOT; arc flags split off)'}
        lex_dis = {b: [i for i, k in codes.items() if k & b] for b in LEXV}
        lex_ok = [b for b in LEXV if not lex_dis[b]]
        rep.cov['tokenizer_variants'] = {LEXV[b]: ('agrees on all %d strings' % len(cases)) if not lex_dis[b]
                                         else 'disagrees on %d strings, e.g. %r' % (len(lex_dis[b]), cases[lex_dis[b][0]].d)
                                         for b in LEXV}
        lex_variant = lex_ok[0] if lex_ok else None
        if lex_variant is None:
            best = min(LEXV, key=lambda b: len(lex_dis[b]))
            for i in sorted(lex_dis[best], key=lambda i: len(cases[i].d))[:2]:
                rep.violation('no variant of the tokenizer model agrees with Path._tokenize_path: %s differs on %r'
                              % (LEXV[best], cases[i].d),
                              rp(cases[i], kind='lexer-tie', pytoks=cases[i].pytoks), key='lexer-tie')
        else:
            rep.cov['tokenizer_is_variant'] = LEXV[lex_variant] + (
                '' if len(lex_ok) == 1 else ' (not discriminated from %s on this run)' % [LEXV[b][:26] for b in lex_ok[1:]])
            rep.cov['applicable_lexer_theorem'] = {
                1: 'C02_lex_render / C02_spellings (numerals of the shape of the pinned FLOAT_RE; 1.e3 and adjacent arc flags refuted)',
                2048: 'C02_lex_render_dot / C02_spellings_dot (full SVG number grammar incl. trailing dot; adjacent arc flags refuted)',
                4096: 'C02_tokenize_v_render (pinned FLOAT_RE shapes, flags properly written) + C02_adjacent_arc_flags_repaired (witnesses)',
                8192: 'C02_tokenize_v_render_dot (full SVG number grammar, flags properly written) + C02_adjacent_arc_flags_repaired (witnesses; compact flags checked by the harness)'}[lex_variant]
        # --- tie 2: which variant of impl_parse is the code?
        disagree = {b: [i for i, k in codes.items() if k & b] for b in VARIANTS}
        consistent = [b for b in VARIANTS if not disagree[b]]
        discr = {b: len(v) for b, v in disagree.items()}
        rep.cov['impl_parse_variants'] = {'%s,%s' % VARIANTS[b]: ('agrees on all %d strings' % len(cases)) if not disagree[b]
                                          else 'disagrees on %d strings, e.g. %r' % (len(disagree[b]), cases[disagree[b][0]].d)
                                          for b in VARIANTS}
        if not consistent:
            best = min(VARIANTS, key=lambda b: len(disagree[b]))
            for i in sorted(disagree[best], key=lambda i: len(cases[i].d))[:2]:
                rep.violation('no variant of the model of _parse_path agrees with parse_path: variant (%s,%s) differs on %r'
                              % (VARIANTS[best] + (cases[i].d,)), rp(cases[i], kind='parser-tie', code=codes[i]),
                              key='parser-tie')
            code_variant = None
        else:
            code_variant = consistent[0]
            rep.cov['code_is_variant'] = '%s,%s' % VARIANTS[code_variant] + (
                '' if len(consistent) == 1 else ' (not discriminated from %s on this run)' %
                [VARIANTS[b] for b in consistent[1:]])
            th = {4: 'C02_refines_partial (hypotheses: no S/T directly after Z, no arc ending on the current point)',
                  8: 'C02_refines_none_fixed_partial (hypothesis left: no arc ending on the current point)',
                  16: 'C02_refines_arc_fixed_partial (hypothesis left: no S/T directly after Z)',
                  32: 'C02_refines (no side condition)'}[code_variant]
            rep.cov['applicable_theorem'] = th
            rep.notes.append('the code of /repo is variant (%s,%s) of impl_parse; applicable theorem: %s'
                             % (VARIANTS[code_variant] + (th,)))
        # --- the property: reference interpreter, and spellings
        seen_keys = {}
        nviol = 0
        for i in sorted(codes):
            k, c = codes[i], cases[i]
            if c.prog is None or not (k & (2 | 64)):
                continue
            key = classify(k, c)
            nviol += 1
            seen_keys.setdefault(key, []).append(i)
        for key, idx in sorted(seen_keys.items(), key=lambda kv: (kv[0] not in ('spec-mismatch', 'spelling-other'), kv[0])):
            idx.sort(key=lambda i: len(cases[i].d))
            for i in idx[:1]:
                c = cases[i]
                what = {
                    'S-or-T-after-Z-TypeError': 'S/T directly after a closepath raises TypeError instead of starting at the current point',
                    'arc-coincident-endpoints-AssertionError': 'an elliptical arc ending on the current point raises AssertionError (SVG F.6.2: the arc is omitted)',
                    'arc-coincident-endpoints-zero-length-line': 'a zero-radius arc ending on the current point yields a zero-length Line (SVG F.6.2: the arc is omitted)',
                    'spelling-adjacent-arc-flags': 'arc flags written without separator are read as one number',
                    'spelling-trailing-dot-exponent': 'a numeral with a trailing dot before its exponent (1.e3) is read as two numbers',
                    'spelling-trailing-dot': 'a numeral with a trailing dot changes the token list',
                }.get(key, 'parse_path differs from the reference interpreter of SVG 1.1 section 8.3')
                rep.violation('C02 [%s] %s: %r (%d such strings in this run)' % (key, what, c.d, len(idx)),
                              rp(c, kind='property', code=k, cls=key), key=key)
        # --- statefulness: the same string parsed again after the first result was edited in place
        # (the first parse of these very strings is what Coq compared with the models above)
        respelled = {}
        for c in cases:
            if isinstance(c.canon_key, Case) and not c.risky:
                respelled.setdefault(id(c.canon_key), c)
        pool = [c for c in cases if c.key and c.key[0] == 'ok' and c.key[1]]
        want = 400 if tier == 'quick' else 4000
        srng = common.mkrng(seed, 'C02-stateful')
        sample = [c for c in pool if c.stream.startswith('corpus') or c.stream == 'replay']
        rest = [c for c in pool if c.stream in ('random-canonical', 'exhaustive-canonical', 'random-respelled')]
        srng.shuffle(rest)
        rest.sort(key=lambda c: c.stream != 'random-canonical')       # random programs first (they have respellings)
        sample += rest[:max(0, want - len(sample))]
        nstate, state_bad = 0, {}
        for c in sample:
            oc = respelled.get(id(c))
            other = oc.d if oc is not None and oc.key == c.key else None
            try:
                before, bad = stateful_check(c.d, c.pos0, other, srng)
            except Exception as e:
                before, bad = None, [('stateful-exception', 're-parsing %r raised %s' % (c.d, type(e).__name__))]
            nstate += 1
            if before is not None and before != c.key[1]:
                bad.append(('stateful-first-parse-differs',
                            'parse_path(%r) in this process differs from the parse compared with the model' % c.d))
            for key, msg in bad:
                state_bad.setdefault(key, []).append((c, msg, other))
        for key, lst in sorted(state_bad.items()):
            lst.sort(key=lambda t: len(t[0].d))
            c, msg, other = lst[0]
            rep.violation('C02 [%s] %s (%d of %d sampled strings)' % (key, msg, len(set(id(t[0]) for t in lst)), nstate),
                          rp(c, kind='stateful', cls=key, other=other), key=key)
        rep.cov['stateful_reparse'] = {'strings': nstate, 'with_other_spelling': sum(1 for c in sample if id(c) in respelled),
                                       'violations': {k: len(set(id(t[0]) for t in v)) for k, v in state_bad.items()},
                                       'rule': 'parse, edit every segment attribute + Path.start/end + the container in place, '
                                               'parse the identical string (and another spelling) again: must equal the '
                                               'first parse (deep snapshot) and share no segment object'}
        # python-level restatement (holds_impl): a respelling parses to the same path as its canonical spelling
        for i, c in enumerate(cases):
            if c.canon_key is not None and isinstance(c.canon_key, Case) and c.key != c.canon_key.key:
                if not (codes.get(i, 0) & (2 | 64)):
                    rep.violation('two spellings of one program parse to different paths: %r vs %r' % (c.d, c.canon_key.d),
                                  rp(c, kind='spellings', other=c.canon_key.d), key='spellings-differ')
        # --- evidence
        gram = [c for c in cases if c.prog is not None]
        nontriv = set()
        for c in gram:
            ls = tuple(l for l, _ in c.prog)
            if len(set(ls)) >= 2:
                nontriv.add((ls, c.d))
        tied = sum(1 for i in range(len(cases)) if code_variant and lex_variant
                   and not (codes.get(i, 0) & (lex_variant | code_variant)))
        rep.cov['evaluations'] = len(cases) * 9 + len(gram) + 3 * nstate
        rep.cov['traces_validated_against_impl'] = tied
        rep.cov['distinct_nontrivial'] = len(nontriv)
        rep.cov['rule'] = ("strings parsed by svgpathtools.parse_path and, inside Coq, by tokenize + the four variants of impl_parse "
                           "(tie) and by spec_run on the program's AST (property); exhaustive = every program 'M' + <=%d letters "
                           "over the 20 command letters, canonical spelling with pairwise distinct coordinates (+-2^i/4) and "
                           "re-spelled with random dyadic arguments/1-3 implicit groups/repeated letters/separator policies; "
                           "random = programs of 5..40 commands x (canonical + 3 spellings); malformed token lists for the error "
                           "paths; non-trivial = grammatical program using >= 2 distinct letters (distinct (letters, string))"
                           % maxlen_of(tier))
        rep.cov['input_distribution'] = dist
        rep.cov['letters_covered'] = ''.join(sorted({l for c in gram for l, _ in c.prog}))
        rep.cov['property_disagreements'] = {k: len(v) for k, v in seen_keys.items()}
        rep.cov['samples'] = [{'d': c.d, 'impl': str(c.key)[:200]} for c in (cases[0], cases[len(cases) // 2], cases[-1])]
    rep.assumptions += ['CPython float() of a numeral text is the nearest double (all generated numerals are dyadic, so exact)',
                        'Arc.__init__ stores start/end/rotation/flags and |radius| possibly enlarged by a common factor (C04)',
                        'Python re: FLOAT_RE.findall / COMMAND_RE.split as modelled in Model/Lexer.v (sampled on every string)']


def maxlen_of(tier):
    return 3 if tier == 'quick' else 4
